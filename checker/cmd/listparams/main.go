// listparams prints, for every function of the root package, the names of its
// parameters in order (used once to freeze rules/pinned_params.go).
package main

import (
	"fmt"
	"os"
	"sort"
	"strings"

	"mlverif/core"
)

func main() {
	p, err := core.Load(core.LoadOpts{Dir: "/repo"})
	if err != nil {
		fmt.Fprintln(os.Stderr, err)
		os.Exit(2)
	}
	var names []string
	for n := range p.Funcs {
		names = append(names, n)
	}
	sort.Strings(names)
	fmt.Println("package rules\n\n// pinnedParams: the parameter names of the reviewed tree's functions, in order.\n// Explorations name a parameter by the name it had when the rules were reviewed,\n// so renaming a parameter does not change what a rule sees.\nvar pinnedParams = map[string][]string{")
	for _, n := range names {
		f := p.Funcs[n]
		var ps []string
		if f.Decl.Recv != nil && len(f.Decl.Recv.List) == 1 && len(f.Decl.Recv.List[0].Names) == 1 {
			ps = append(ps, "recv:"+f.Decl.Recv.List[0].Names[0].Name)
		}
		for _, fl := range f.Decl.Type.Params.List {
			if len(fl.Names) == 0 {
				ps = append(ps, "_")
			}
			for _, id := range fl.Names {
				ps = append(ps, id.Name)
			}
		}
		if f.Decl.Type.Results != nil {
			for _, fl := range f.Decl.Type.Results.List {
				for _, id := range fl.Names {
					ps = append(ps, "res:"+id.Name)
				}
			}
		}
		if len(ps) == 0 {
			continue
		}
		fmt.Printf("\t%q: {%s},\n", n, `"`+strings.Join(ps, `", "`)+`"`)
	}
	fmt.Println("}")
	fmt.Println("\n// pinnedSigs: signature (types only) of every function of the reviewed tree; a missing\n// function whose receiver and signature match exactly one function that is not in the\n// reviewed tree is taken to be that function renamed.\nvar pinnedSigs = map[string]string{")
	for _, n := range names {
		fmt.Printf("\t%q: %q,\n", n, core.SigStr(p, p.Funcs[n].Obj))
	}
	fmt.Println("}")
	// locals in declaration order: (type, name)
	fmt.Println("\n// pinnedLocals: for every function of the reviewed tree, its local variables (including\n// those of function literals) in declaration order, as type and name. When a function's\n// locals still have exactly this sequence of types, each is spelled as it was on the\n// reviewed tree (a pure rename changes nothing a rule sees); otherwise the current\n// spelling is used.\nvar pinnedLocals = map[string][][2]string{")
	for _, n := range names {
		f := p.Funcs[n]
		ls := core.LocalsOf(p, f)
		if len(ls) == 0 {
			continue
		}
		var parts []string
		for _, o := range ls {
			parts = append(parts, fmt.Sprintf("{%q, %q}", core.TypeStr(p, o.Type()), o.Name()))
		}
		fmt.Printf("\t%q: {%s},\n", n, strings.Join(parts, ", "))
	}
	fmt.Println("}")
}
