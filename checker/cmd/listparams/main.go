// listparams prints, for every function of the root package, the names of its
// parameters in order (used once to freeze rules/pinned_params.go).
package main

import (
	"fmt"
	"os"
	"sort"
	"strings"

	"mlverif/core"
)

func main() {
	p, err := core.Load(core.LoadOpts{Dir: "/repo"})
	if err != nil {
		fmt.Fprintln(os.Stderr, err)
		os.Exit(2)
	}
	var names []string
	for n := range p.Funcs {
		names = append(names, n)
	}
	sort.Strings(names)
	fmt.Println("package rules\n\n// pinnedParams: the parameter names of the reviewed tree's functions, in order.\n// Explorations name a parameter by the name it had when the rules were reviewed,\n// so renaming a parameter does not change what a rule sees.\nvar pinnedParams = map[string][]string{")
	for _, n := range names {
		f := p.Funcs[n]
		var ps []string
		for _, fl := range f.Decl.Type.Params.List {
			if len(fl.Names) == 0 {
				ps = append(ps, "_")
			}
			for _, id := range fl.Names {
				ps = append(ps, id.Name)
			}
		}
		if len(ps) == 0 {
			continue
		}
		fmt.Printf("\t%q: {%s},\n", n, `"`+strings.Join(ps, `", "`)+`"`)
	}
	fmt.Println("}")
}
