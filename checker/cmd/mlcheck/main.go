// mlcheck decides one property of hashicorp/memberlist by static analysis of
// the repository's current working tree.
//
//	mlcheck -prop C07 -tier quick
//
// exit 0: every obligation of the property is discharged (known findings are
// printed as KNOWN-FINDING lines); exit 1: at least one VIOLATION line;
// exit 2: checker error (tree does not type-check, anchor unresolved, floor
// not met) - no verdict.
package main

import (
	"flag"
	"fmt"
	"os"
	"path/filepath"
	"sort"
	"strconv"
	"strings"
	"time"

	"mlverif/core"
	"mlverif/gea"
	"mlverif/rules"
)

type multi []string

func (m *multi) String() string     { return strings.Join(*m, ",") }
func (m *multi) Set(s string) error { *m = append(*m, s); return nil }

func main() {
	prop := flag.String("prop", "", "property id (C01..C20)")
	tier := flag.String("tier", "quick", "quick|thorough")
	repo := flag.String("repo", "/repo", "repository working tree")
	verif := flag.String("verif", "/verif", "verification directory (evidence, known findings)")
	dump := flag.String("dump", "", "debug: explore the named function with the generic spec and print effects")
	explain := flag.String("explain", "", "print the obligation with this key in full")
	dumph := flag.String("dumph", "", "debug: print the explored handler model (alive|suspect|dead|timer)")
	list := flag.Bool("list", false, "list registered properties")
	var overlays multi
	flag.Var(&overlays, "overlay", "file=replacement (repeatable): analyse the tree with file replaced")
	flag.Parse()

	if *list {
		var ids []string
		for id := range rules.Registry {
			ids = append(ids, id)
		}
		sort.Strings(ids)
		fmt.Println(strings.Join(ids, " "))
		return
	}
	seed := 0
	if s := os.Getenv("VERIF_SEED"); s != "" {
		seed, _ = strconv.Atoi(s)
	}
	ov := map[string][]byte{}
	for _, o := range overlays {
		k, v, ok := strings.Cut(o, "=")
		if !ok {
			fmt.Fprintln(os.Stderr, "bad -overlay", o)
			os.Exit(2)
		}
		b, err := os.ReadFile(v)
		if err != nil {
			fmt.Fprintln(os.Stderr, err)
			os.Exit(2)
		}
		if !filepath.IsAbs(k) {
			k = filepath.Join(*repo, k)
		}
		ov[k] = b
	}
	dumpH = *dumph
	os.Exit(run(*prop, *tier, *repo, *verif, *dump, *explain, seed, ov))
}

var dumpH string

func run(prop, tier, repo, verif, dump, explain string, seed int, ov map[string][]byte) (status int) {
	defer func() {
		if r := recover(); r != nil {
			if ce, ok := r.(rules.CheckerError); ok {
				fmt.Fprintln(os.Stderr, "CHECKER-ERROR:", ce.Msg)
				status = 2
				return
			}
			panic(r)
		}
	}()
	t0 := time.Now()
	p, err := core.Load(core.LoadOpts{Dir: repo, Overlay: ov})
	if err != nil {
		fmt.Fprintln(os.Stderr, "CHECKER-ERROR:", err)
		return 2
	}
	if dump != "" {
		return dumpFunc(p, dump)
	}
	if strings.HasPrefix(dumpH, "flow:") {
		rules.DumpFlow(rules.NewCtx(p, "debug", tier), strings.TrimPrefix(dumpH, "flow:"))
		return 0
	}
	if dumpH != "" {
		rules.DumpHandlers(rules.NewCtx(p, "debug", tier), dumpH)
		return 0
	}
	f, ok := rules.Registry[prop]
	if !ok {
		fmt.Fprintf(os.Stderr, "CHECKER-ERROR: unknown property %q\n", prop)
		return 2
	}
	c := rules.NewCtx(p, prop, tier)
	c.Start = t0 // wall time includes loading and type-checking the tree
	f(c)
	if explain != "" {
		for _, o := range c.Obs {
			if o.Key == explain {
				fmt.Printf("obligation %s\n rule: %s\n site: %s\n ok: %v\n cases: %d\n witness: %s\n", o.Key, o.Rule, o.Site, o.OK, o.Cases, o.Witness)
			}
		}
	}
	return c.Finish(verif, seed)
}

func dumpFunc(p *core.Prog, name string) int {
	fn := p.Func(name)
	if fn == nil {
		fmt.Fprintln(os.Stderr, "no such function", name)
		return 2
	}
	x := gea.New(p, name, fn.Decl.Type, fn.Decl.Body, gea.Base{})
	x.Run()
	fmt.Printf("%s: %d abstract states, %d effects, %d exits, trunc=%v\n", name, x.States, len(x.Effects), len(x.Exits), x.Trunc)
	for _, e := range x.Effects {
		fmt.Printf("  EFFECT %s %s %v\n     cube: %s\n", e.Class, p.Pos(e.Pos), e.Detail, gea.CubeString(e.Cube))
	}
	for _, e := range x.Exits {
		fmt.Printf("  EXIT %s %s ret=%v\n     cube: %s\n", e.Kind, p.Pos(e.Pos), e.Ret, gea.CubeString(e.Cube))
	}
	var ks []string
	for k := range x.Opaque {
		ks = append(ks, k)
	}
	sort.Strings(ks)
	fmt.Println("opaque:", ks)
	return 0
}
