// renamelocals writes a copy of every non-test source file of the root package in
// which every parameter, result, receiver and local variable has been renamed
// (suffix appended). Behaviour is unchanged; the output is used as a benign
// variant to test that no rule depends on how a variable is spelled.
//
//	renamelocals -out DIR [-suffix Q] [-only params|locals|all]
package main

import (
	"bytes"
	"flag"
	"fmt"
	"go/ast"
	"go/format"
	"go/types"
	"os"
	"path/filepath"
	"strings"

	"mlverif/core"
)

func main() {
	out := flag.String("out", "", "output directory")
	suffix := flag.String("suffix", "Q", "suffix appended to every renamed identifier")
	only := flag.String("only", "all", "params|locals|all")
	repo := flag.String("repo", "/repo", "repository")
	flag.Parse()
	p, err := core.Load(core.LoadOpts{Dir: *repo})
	if err != nil {
		fmt.Fprintln(os.Stderr, err)
		os.Exit(2)
	}
	// parameters (incl. receivers and results)
	isParam := map[types.Object]bool{}
	for _, f := range p.Funcs {
		mark := func(fl *ast.FieldList) {
			if fl == nil {
				return
			}
			for _, fld := range fl.List {
				for _, n := range fld.Names {
					isParam[p.Info.Defs[n]] = true
				}
			}
		}
		mark(f.Decl.Recv)
		mark(f.Decl.Type.Params)
		mark(f.Decl.Type.Results)
	}
	for _, file := range p.Files {
		ast.Inspect(file, func(n ast.Node) bool {
			if fl, ok := n.(*ast.FuncLit); ok {
				for _, fld := range fl.Type.Params.List {
					for _, nm := range fld.Names {
						isParam[p.Info.Defs[nm]] = true
					}
				}
			}
			return true
		})
	}
	implicit := map[types.Object]bool{} // type-switch symbols: their defining identifier has no object
	for _, o := range p.Info.Implicits {
		implicit[o] = true
	}
	n := 0
	for _, file := range p.Files {
		ast.Inspect(file, func(nd ast.Node) bool {
			id, ok := nd.(*ast.Ident)
			if !ok || id.Name == "_" {
				return true
			}
			obj := p.Info.ObjectOf(id)
			v, ok := obj.(*types.Var)
			if !ok || v.IsField() || v.Pkg() != p.Types || v.Parent() == p.Types.Scope() || v.Parent() == nil {
				return true
			}
			if implicit[obj] {
				return true
			}
			par := isParam[obj]
			if (*only == "params" && !par) || (*only == "locals" && par) {
				return true
			}
			id.Name = id.Name + *suffix
			n++
			return true
		})
		var buf bytes.Buffer
		if err := format.Node(&buf, p.Fset, file); err != nil {
			fmt.Fprintln(os.Stderr, err)
			os.Exit(2)
		}
		name := filepath.Base(p.Fset.Position(file.Pos()).Filename)
		if strings.HasSuffix(name, "_test.go") {
			continue
		}
		if err := os.WriteFile(filepath.Join(*out, name), buf.Bytes(), 0o644); err != nil {
			fmt.Fprintln(os.Stderr, err)
			os.Exit(2)
		}
	}
	fmt.Println("renamed", n, "identifier occurrences")
}
