package core

import (
	"fmt"
	"go/ast"
	"go/constant"
	"go/token"
	"go/types"
	"strings"
)

// Canon renders an expression in a canonical, object-resolved form: local
// variables carry the line of their declaration (so shadowed names differ),
// promoted fields are spelled out, parentheses and identity conversions are
// dropped, constant expressions are folded. Two expressions with the same
// Canon string denote the same computation over the same objects.
func (p *Prog) Canon(e ast.Expr) string {
	var sb strings.Builder
	p.canon(&sb, e)
	return sb.String()
}

func (p *Prog) identName(id *ast.Ident) string {
	obj := p.Info.Uses[id]
	if obj == nil {
		obj = p.Info.Defs[id]
	}
	switch o := obj.(type) {
	case *types.Var:
		if o.IsField() {
			return o.Name()
		}
		if o.Parent() == p.Types.Scope() || o.Pkg() == nil {
			return o.Name()
		}
		if o.Parent() != nil && o.Parent().Parent() == types.Universe {
			return o.Pkg().Name() + "." + o.Name()
		}
		name := o.Name()
		if r, ok := p.Rename[obj]; ok {
			name = r // spelled as on the reviewed tree
		}
		return fmt.Sprintf("%s#%d", name, p.Fset.Position(o.Pos()).Line)
	case *types.Const:
		if o.Pkg() != nil && o.Pkg() != p.Types {
			return o.Pkg().Name() + "." + o.Name()
		}
		return o.Name()
	case *types.Func:
		if o.Pkg() != nil && o.Pkg() != p.Types {
			return o.Pkg().Name() + "." + o.Name()
		}
		if a, ok := FuncAlias[o]; ok {
			return a
		}
		return o.Name()
	case *types.PkgName:
		return o.Imported().Name()
	case *types.Nil:
		return "nil"
	case *types.TypeName:
		return o.Name()
	case *types.Builtin:
		return o.Name()
	}
	return id.Name
}

// VarKey is the canonical name of a variable object.
func (p *Prog) VarKey(o types.Object) string {
	if v, ok := o.(*types.Var); ok && !v.IsField() && v.Parent() != p.Types.Scope() && v.Pkg() != nil {
		name := v.Name()
		if r, ok := p.Rename[o]; ok {
			name = r // the name this parameter / receiver had on the reviewed tree
		}
		return fmt.Sprintf("%s#%d", name, p.Fset.Position(v.Pos()).Line)
	}
	return o.Name()
}

func (p *Prog) canon(sb *strings.Builder, e ast.Expr) {
	if e == nil {
		sb.WriteString("<nil>")
		return
	}
	if tv, ok := p.Info.Types[e]; ok && tv.Value != nil {
		// constant expression: fold, but keep enum-like named constants readable
		if id, ok := ast.Unparen(e).(*ast.Ident); ok {
			if c, ok := p.Info.Uses[id].(*types.Const); ok {
				if _, named := c.Type().(*types.Named); named {
					sb.WriteString(p.identName(id))
					return
				}
			}
		}
		if tv.Value.Kind() == constant.String {
			sb.WriteString(tv.Value.ExactString())
		} else {
			sb.WriteString(tv.Value.String())
		}
		return
	}
	switch x := e.(type) {
	case *ast.ParenExpr:
		p.canon(sb, x.X)
	case *ast.Ident:
		sb.WriteString(p.identName(x))
	case *ast.BasicLit:
		sb.WriteString(x.Value)
	case *ast.SelectorExpr:
		if sel := p.Info.Selections[x]; sel != nil {
			p.canon(sb, x.X)
			// spell out promoted fields
			t := sel.Recv()
			idx := sel.Index()
			for i := 0; i < len(idx)-1; i++ {
				st := structOf(t)
				if st == nil {
					break
				}
				f := st.Field(idx[i])
				sb.WriteString("." + f.Name())
				t = f.Type()
			}
			if f, ok := sel.Obj().(*types.Func); ok {
				if a, ok := FuncAlias[f]; ok {
					sb.WriteString("." + a)
					return
				}
			}
			sb.WriteString("." + x.Sel.Name)
			return
		}
		// qualified identifier
		p.canon(sb, x.X)
		sb.WriteString("." + x.Sel.Name)
	case *ast.CallExpr:
		if p.IsConversion(x) && len(x.Args) == 1 {
			to := p.TypeOf(x.Fun)
			from := p.TypeOf(x.Args[0])
			if to != nil && from != nil && types.Identical(to.Underlying(), from.Underlying()) {
				p.canon(sb, x.Args[0])
				return
			}
			sb.WriteString(types.TypeString(to, func(pk *types.Package) string { return pk.Name() }))
			sb.WriteString("(")
			p.canon(sb, x.Args[0])
			sb.WriteString(")")
			return
		}
		p.canon(sb, x.Fun)
		sb.WriteString("(")
		for i, a := range x.Args {
			if i > 0 {
				sb.WriteString(",")
			}
			p.canon(sb, a)
		}
		sb.WriteString(")")
	case *ast.UnaryExpr:
		sb.WriteString(x.Op.String())
		p.canon(sb, x.X)
	case *ast.StarExpr:
		sb.WriteString("*")
		p.canon(sb, x.X)
	case *ast.BinaryExpr:
		sb.WriteString("(")
		p.canon(sb, x.X)
		sb.WriteString(x.Op.String())
		p.canon(sb, x.Y)
		sb.WriteString(")")
	case *ast.IndexExpr:
		p.canon(sb, x.X)
		sb.WriteString("[")
		p.canon(sb, x.Index)
		sb.WriteString("]")
	case *ast.SliceExpr:
		p.canon(sb, x.X)
		sb.WriteString("[")
		if x.Low != nil {
			p.canon(sb, x.Low)
		}
		sb.WriteString(":")
		if x.High != nil {
			p.canon(sb, x.High)
		}
		if x.Max != nil {
			sb.WriteString(":")
			p.canon(sb, x.Max)
		}
		sb.WriteString("]")
	case *ast.TypeAssertExpr:
		p.canon(sb, x.X)
		sb.WriteString(".(")
		if x.Type != nil {
			sb.WriteString(types.ExprString(x.Type))
		} else {
			sb.WriteString("type")
		}
		sb.WriteString(")")
	case *ast.CompositeLit:
		if t := p.TypeOf(x); t != nil {
			sb.WriteString(types.TypeString(t, func(pk *types.Package) string { return pk.Name() }))
		}
		sb.WriteString("{")
		for i, el := range x.Elts {
			if i > 0 {
				sb.WriteString(",")
			}
			if kv, ok := el.(*ast.KeyValueExpr); ok {
				if id, ok := kv.Key.(*ast.Ident); ok {
					sb.WriteString(id.Name)
				} else {
					p.canon(sb, kv.Key)
				}
				sb.WriteString(":")
				p.canon(sb, kv.Value)
			} else {
				p.canon(sb, el)
			}
		}
		sb.WriteString("}")
	case *ast.FuncLit:
		fmt.Fprintf(sb, "func@%d", p.Fset.Position(x.Pos()).Line)
	case *ast.KeyValueExpr:
		p.canon(sb, x.Key)
		sb.WriteString(":")
		p.canon(sb, x.Value)
	case *ast.ArrayType, *ast.MapType, *ast.ChanType, *ast.FuncType, *ast.InterfaceType, *ast.StructType:
		sb.WriteString(types.ExprString(x))
	default:
		sb.WriteString(types.ExprString(e))
	}
}

func structOf(t types.Type) *types.Struct {
	for {
		switch u := t.(type) {
		case *types.Pointer:
			t = u.Elem()
		case *types.Named:
			t = u.Underlying()
		case *types.Alias:
			t = types.Unalias(u)
		case *types.Struct:
			return u
		default:
			return nil
		}
	}
}

// Mentions reports whether the canonical string key refers to the canonical
// path (a variable key or a selector path) on an identifier boundary.
func Mentions(key, path string) bool {
	if path == "" {
		return false
	}
	for i := 0; ; {
		j := strings.Index(key[i:], path)
		if j < 0 {
			return false
		}
		j += i
		end := j + len(path)
		okL := j == 0 || !isIdentByte(key[j-1])
		okR := end == len(key) || !isIdentByte(key[end])
		if okL && okR {
			return true
		}
		i = j + 1
		if i >= len(key) {
			return false
		}
	}
}

func isIdentByte(b byte) bool {
	return b == '_' || b == '#' || (b >= '0' && b <= '9') || (b >= 'a' && b <= 'z') || (b >= 'A' && b <= 'Z')
}

// ConstInt returns the integer constant value of e, if it has one.
func (p *Prog) ConstInt(e ast.Expr) (int64, bool) {
	tv, ok := p.Info.Types[e]
	if !ok || tv.Value == nil {
		return 0, false
	}
	v := constant.ToInt(tv.Value)
	if v.Kind() != constant.Int {
		return 0, false
	}
	i, exact := constant.Int64Val(v)
	return i, exact
}

// NegOp returns the comparison operator equivalent to !(a op b).
func NegOp(op token.Token) token.Token {
	switch op {
	case token.EQL:
		return token.NEQ
	case token.NEQ:
		return token.EQL
	case token.LSS:
		return token.GEQ
	case token.GEQ:
		return token.LSS
	case token.GTR:
		return token.LEQ
	case token.LEQ:
		return token.GTR
	}
	return token.ILLEGAL
}

// FlipOp returns the operator op' with (a op b) == (b op' a).
func FlipOp(op token.Token) token.Token {
	switch op {
	case token.LSS:
		return token.GTR
	case token.GTR:
		return token.LSS
	case token.LEQ:
		return token.GEQ
	case token.GEQ:
		return token.LEQ
	}
	return op
}
