package core

import (
	"go/ast"
	"go/token"
	"go/types"
	"sort"
	"strings"
)

// Site is one primitive effect or call found in a function body (including
// the bodies of function literals nested in it).
type Site struct {
	Kind string // primitive effect class, or "CALL"
	Pos  token.Pos
	Fn   *Func         // enclosing declared function
	Call *ast.CallExpr // for calls / call-shaped effects
	Node ast.Node
	To   *types.Func // static callee for CALL (declared in the root package)
	Ref  bool        // the function is referenced as a value, not called
	InGo bool        // call is the operand of a go statement, or lies inside the literal a go statement runs
}

// Graph is the package-level reference graph with primitive effects.
type Graph struct {
	P       *Prog
	Sites   map[*Func][]*Site
	summary map[*Func]map[string]bool
	// AsyncSite, when set, reports call sites that never run on the caller's goroutine
	// (inside a closure that is only ever started by go / time.AfterFunc)
	AsyncSite func(*Site) bool
}

// memberField resolves e to (named struct type, field name) if e selects a field.
func (p *Prog) memberField(e ast.Expr) (string, string) {
	s, ok := ast.Unparen(e).(*ast.SelectorExpr)
	if !ok {
		return "", ""
	}
	sel := p.Info.Selections[s]
	if sel == nil || sel.Kind() != types.FieldVal {
		return "", ""
	}
	// owner = the struct that declares the final field
	t := sel.Recv()
	idx := sel.Index()
	owner := NamedOf(t)
	for i := 0; i < len(idx)-1; i++ {
		st := structOf(t)
		if st == nil {
			break
		}
		f := st.Field(idx[i])
		t = f.Type()
		owner = NamedOf(t)
	}
	return owner, s.Sel.Name
}

// FieldOwner returns "Type.field" for a field selection ("" otherwise).
func (p *Prog) FieldOwner(e ast.Expr) string {
	o, f := p.memberField(e)
	if f == "" {
		return ""
	}
	return o + "." + f
}

// BaseNamed returns the named type (through pointers) of the expression the
// selector is applied to, as declared (outermost receiver).
func (p *Prog) BaseNamed(e ast.Expr) string {
	s, ok := ast.Unparen(e).(*ast.SelectorExpr)
	if !ok {
		return ""
	}
	return NamedOf(p.TypeOf(s.X))
}

// lhsEffects classifies a store through lhs.
func (p *Prog) lhsEffects(lhs ast.Expr) []string {
	lhs = ast.Unparen(lhs)
	var out []string
	switch v := lhs.(type) {
	case *ast.SelectorExpr:
		if fo := p.FieldOwner(v); fo != "" {
			out = append(out, "W:"+fo)
			// writes through a nodeState value to embedded Node fields count as record writes
			if bn := p.BaseNamed(v); bn == "nodeState" && !strings.HasPrefix(fo, "nodeState.") {
				out = append(out, "W:nodeState."+v.Sel.Name)
			}
		}
	case *ast.IndexExpr:
		if fo := p.FieldOwner(v.X); fo != "" {
			if _, isMap := p.TypeOf(v.X).Underlying().(*types.Map); isMap {
				out = append(out, "MAPINS:"+fo)
			} else {
				out = append(out, "WELEM:"+fo)
			}
		}
	case *ast.StarExpr:
		if n := NamedOf(p.TypeOf(v.X)); n != "" {
			out = append(out, "WSTAR:"+n)
		}
	}
	return out
}

// BuildGraph scans every declared function of the root package.
func BuildGraph(p *Prog) *Graph {
	g := &Graph{P: p, Sites: map[*Func][]*Site{}, summary: map[*Func]map[string]bool{}}
	for _, fn := range p.SortedFuncs() {
		g.scan(fn)
	}
	return g
}

func (g *Graph) scan(fn *Func) {
	p := g.P
	add := func(kind string, n ast.Node, call *ast.CallExpr) *Site {
		s := &Site{Kind: kind, Pos: n.Pos(), Fn: fn, Call: call, Node: n}
		g.Sites[fn] = append(g.Sites[fn], s)
		return s
	}
	goCalls := map[*ast.CallExpr]bool{}
	calledIdents := map[*ast.Ident]bool{}
	var goLits [][2]token.Pos
	inGoLit := func(pos token.Pos) bool {
		for _, r := range goLits {
			if pos >= r[0] && pos <= r[1] {
				return true
			}
		}
		return false
	}
	ast.Inspect(fn.Decl.Body, func(n ast.Node) bool {
		if gs, ok := n.(*ast.GoStmt); ok {
			if fl, ok := ast.Unparen(gs.Call.Fun).(*ast.FuncLit); ok {
				goLits = append(goLits, [2]token.Pos{fl.Pos(), fl.End()})
			}
		}
		return true
	})
	ast.Inspect(fn.Decl.Body, func(n ast.Node) bool {
		switch v := n.(type) {
		case *ast.GoStmt:
			goCalls[v.Call] = true
			add("GO", v, v.Call)
		case *ast.AssignStmt:
			for _, l := range v.Lhs {
				for _, k := range p.lhsEffects(l) {
					add(k, l, nil)
				}
			}
		case *ast.IncDecStmt:
			for _, k := range p.lhsEffects(v.X) {
				add(k, v.X, nil)
			}
		case *ast.SendStmt:
			add("CHANSEND", v, nil)
		case *ast.CallExpr:
			if p.IsConversion(v) {
				return true
			}
			if b := p.Builtin(v); b != "" {
				switch b {
				case "delete":
					if fo := p.FieldOwner(v.Args[0]); fo != "" {
						add("MAPDEL:"+fo, v, v)
					}
				case "close":
					add("CLOSE", v, v)
				case "panic":
					add("PANIC", v, v)
				}
				return true
			}
			switch f := ast.Unparen(v.Fun).(type) {
			case *ast.Ident:
				calledIdents[f] = true
			case *ast.SelectorExpr:
				calledIdents[f.Sel] = true
			}
			callee := p.Callee(v)
			if callee == nil {
				add("CALLVALUE", v, v) // call of a function value
				return true
			}
			full := FuncFullName(callee)
			recv := ""
			if sig, ok := callee.Type().(*types.Signature); ok && sig.Recv() != nil {
				recv = NamedPkgOf(sig.Recv().Type())
			}
			if kind := ClassifyCall(p, v, callee, full, recv); kind != "" {
				add(kind, v, v)
			}
			if fi := p.ByObj[callee]; fi != nil {
				s := add("CALL", v, v)
				s.To = callee
				s.InGo = goCalls[v] || inGoLit(v.Pos())
			}
		}
		return true
	})
	// function / method values referenced without being called
	ast.Inspect(fn.Decl.Body, func(n ast.Node) bool {
		id, ok := n.(*ast.Ident)
		if !ok || calledIdents[id] {
			return true
		}
		if f, ok := p.Info.Uses[id].(*types.Func); ok {
			if p.ByObj[f] != nil {
				s := add("CALL", id, nil)
				s.To = f
				s.Ref = true
			}
		}
		return true
	})
}

// classifyCall names the primitive effect of a call, if it is one.
func ClassifyCall(p *Prog, call *ast.CallExpr, callee *types.Func, full, recv string) string {
	name := callee.Name()
	root := RootPath + "."
	switch recv {
	case root + "EventDelegate":
		return "EVT:" + strings.TrimPrefix(name, "Notify")
	case root + "ConflictDelegate":
		return "CONFLICT"
	case root + "AliveDelegate":
		return "ALIVEDELEGATE"
	case root + "MergeDelegate":
		return "MERGEDELEGATE"
	case root + "PingDelegate":
		return "PINGDELEGATE:" + name
	case root + "Delegate":
		return "DELEGATE:" + name
	case root + "Transport", root + "NodeAwareTransport":
		switch name {
		case "WriteTo", "WriteToAddress":
			return "SINK:packet"
		case "DialTimeout", "DialAddressTimeout":
			return "DIAL"
		case "Shutdown":
			return "TRANSPORT:Shutdown"
		}
		return "TRANSPORT:" + name
	case root + "Broadcast", root + "NamedBroadcast", root + "UniqueBroadcast":
		return "BROADCAST:" + name
	case "net.Conn":
		switch name {
		case "Write":
			return "SINK:stream"
		case "Close":
			return "CONNCLOSE"
		case "SetDeadline", "SetReadDeadline", "SetWriteDeadline":
			return "DEADLINE:" + name
		case "Read":
			return "CONNREAD"
		}
	case "sync.Mutex", "sync.RWMutex":
		return "LOCK:" + name
	case "sync/atomic.Uint32", "sync/atomic.Int32", "sync/atomic.Int64", "sync/atomic.Uint64", "sync/atomic.Bool":
		if name == "Add" || name == "Store" || name == "Swap" || name == "CompareAndSwap" {
			if se, ok := ast.Unparen(call.Fun).(*ast.SelectorExpr); ok {
				if fo := p.FieldOwner(se.X); fo != "" {
					return "ATOMICW:" + fo
				}
			}
			return "ATOMICW:?"
		}
	}
	switch full {
	case root + "TransmitLimitedQueue.QueueBroadcast", root + "TransmitLimitedQueue.queueBroadcast":
		return "QB"
	case "time.AfterFunc":
		return "TIMER"
	case "sync/atomic.AddUint32", "sync/atomic.StoreUint32":
		if len(call.Args) > 0 {
			if u, ok := ast.Unparen(call.Args[0]).(*ast.UnaryExpr); ok && u.Op == token.AND {
				if fo := p.FieldOwner(u.X); fo != "" {
					return "ATOMICW:" + fo
				}
			}
		}
		return "ATOMICW:?"
	case "crypto/cipher.AEAD.Open":
		return "AEAD:Open"
	case "crypto/cipher.AEAD.Seal":
		return "AEAD:Seal"
	}
	return ""
}

// Callees returns the declared functions fn references (calls or values).
func (g *Graph) Callees(fn *Func) []*Func {
	seen := map[*Func]bool{}
	var out []*Func
	for _, s := range g.Sites[fn] {
		if s.Kind == "CALL" {
			if t := g.P.ByObj[s.To]; t != nil && !seen[t] {
				seen[t] = true
				out = append(out, t)
			}
		}
	}
	return out
}

// Callers returns every site that references target.
func (g *Graph) Callers(target *Func) []*Site {
	var out []*Site
	for _, fn := range g.P.SortedFuncs() {
		for _, s := range g.Sites[fn] {
			if s.Kind == "CALL" && s.To == target.Obj {
				out = append(out, s)
			}
		}
	}
	return out
}

// Summary is the set of primitive effect kinds fn may perform, transitively
// through statically resolved callees and referenced function values.
func (g *Graph) Summary(fn *Func) map[string]bool {
	if s, ok := g.summary[fn]; ok {
		return s
	}
	// iterative closure over the reachable set
	reach := g.Reach(fn)
	sum := map[string]bool{}
	for f := range reach {
		for _, s := range g.Sites[f] {
			if s.Kind != "CALL" {
				sum[s.Kind] = true
			}
		}
	}
	g.summary[fn] = sum
	return sum
}

// SyncReach returns fn and every declared function it can call synchronously
// (on the same goroutine): go statements, their literals and plain function
// value references are not followed.
func (g *Graph) SyncReach(fn *Func) map[*Func]bool {
	seen := map[*Func]bool{fn: true}
	work := []*Func{fn}
	for len(work) > 0 {
		cur := work[len(work)-1]
		work = work[:len(work)-1]
		for _, s := range g.Sites[cur] {
			if s.Kind != "CALL" || s.InGo || s.Ref || (g.AsyncSite != nil && g.AsyncSite(s)) {
				continue
			}
			if t := g.P.ByObj[s.To]; t != nil && !seen[t] {
				seen[t] = true
				work = append(work, t)
			}
		}
	}
	return seen
}

// Reach returns fn and every declared function reachable from it.
func (g *Graph) Reach(fn *Func) map[*Func]bool {
	seen := map[*Func]bool{fn: true}
	work := []*Func{fn}
	for len(work) > 0 {
		cur := work[len(work)-1]
		work = work[:len(work)-1]
		for _, c := range g.Callees(cur) {
			if !seen[c] {
				seen[c] = true
				work = append(work, c)
			}
		}
	}
	return seen
}

// PathTo returns one reference chain from fn to a function with a site of the
// given kind prefix (for diagnostics), or nil.
func (g *Graph) PathTo(fn *Func, kindPrefix string) []string {
	type node struct {
		f    *Func
		prev *node
	}
	seen := map[*Func]bool{fn: true}
	queue := []*node{{fn, nil}}
	for len(queue) > 0 {
		cur := queue[0]
		queue = queue[1:]
		for _, s := range g.Sites[cur.f] {
			if s.Kind != "CALL" && strings.HasPrefix(s.Kind, kindPrefix) {
				var chain []string
				for n := cur; n != nil; n = n.prev {
					chain = append([]string{n.f.Name}, chain...)
				}
				chain = append(chain, s.Kind+" at "+g.P.Pos(s.Pos))
				return chain
			}
		}
		for _, c := range g.Callees(cur.f) {
			if !seen[c] {
				seen[c] = true
				queue = append(queue, &node{c, cur})
			}
		}
	}
	return nil
}

// SitesOfKind lists all sites whose kind has the prefix, in stable order.
func (g *Graph) SitesOfKind(prefix string) []*Site {
	var out []*Site
	for _, fn := range g.P.SortedFuncs() {
		for _, s := range g.Sites[fn] {
			if s.Kind != "CALL" && strings.HasPrefix(s.Kind, prefix) {
				out = append(out, s)
			}
		}
	}
	sort.SliceStable(out, func(i, j int) bool { return out[i].Pos < out[j].Pos })
	return out
}

// SortedKinds renders a summary deterministically.
func SortedKinds(m map[string]bool) []string {
	var out []string
	for k := range m {
		out = append(out, k)
	}
	sort.Strings(out)
	return out
}
