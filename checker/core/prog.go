// Package core loads /repo's current working tree (syntax + types, no
// execution) and offers the lookups every rule needs.
package core

import (
	"fmt"
	"go/ast"
	"go/token"
	"go/types"
	"os"
	"path/filepath"
	"sort"
	"strings"

	"golang.org/x/tools/go/packages"
)

// Prog is the type-checked root package of the repository under analysis.
type Prog struct {
	Dir   string
	Fset  *token.FileSet
	Pkg   *packages.Package
	All   []*packages.Package
	Info  *types.Info
	Types *types.Package

	Funcs   map[string]*Func      // "Recv.Name" or "Name"
	ByObj   map[*types.Func]*Func // declared functions by object
	Files   []*ast.File           // non-test files of the root package
	parents map[ast.Node]ast.Node
	NLoaded int // number of packages loaded (root module)
	// Rename maps parameters and receivers to the names they had on the reviewed
	// tree (set by the rules package); canonical strings use those names.
	Rename map[types.Object]string
}

// Func is a declared function or method of the root package.
type Func struct {
	Name string // "Memberlist.aliveNode" / "decryptPayload"
	Obj  *types.Func
	Decl *ast.FuncDecl
	File *ast.File
}

// LoadOpts controls a load.
type LoadOpts struct {
	Dir     string
	Overlay map[string][]byte // absolute path -> replacement content
	Tests   bool
	Env     []string
	Full    bool // LoadAllSyntax (needed for SSA of dependencies)
}

// ErrLoad marks a checker error (never a violation).
type ErrLoad struct{ Msg string }

func (e *ErrLoad) Error() string { return e.Msg }

const RootPath = "github.com/hashicorp/memberlist"

// Load type-checks the repository. Any type error is a checker error.
func Load(o LoadOpts) (*Prog, error) {
	mode := packages.LoadSyntax
	if o.Full {
		mode = packages.LoadAllSyntax
	}
	env := append(os.Environ(), "GOFLAGS=-mod=mod", "GOPROXY=off", "GOSUMDB=off", "GOWORK=off", "GOTOOLCHAIN=local")
	if _, err := os.Stat("/opt/veriftools/go1.26.8/bin/go"); err == nil {
		np := "/opt/veriftools/go1.26.8/bin:" + os.Getenv("PATH")
		env = append(env, "PATH="+np)
		_ = os.Setenv("PATH", np) // go/packages locates the go command through the process PATH
	}
	env = append(env, o.Env...)
	cfg := &packages.Config{Mode: mode, Dir: o.Dir, Tests: o.Tests, Env: env, Overlay: o.Overlay}
	pkgs, err := packages.Load(cfg, "./...")
	if err != nil {
		return nil, &ErrLoad{"go/packages: " + err.Error()}
	}
	if len(pkgs) < 2 {
		return nil, &ErrLoad{fmt.Sprintf("expected >= 2 packages under %s, got %d", o.Dir, len(pkgs))}
	}
	var root *packages.Package
	for _, p := range pkgs {
		for _, e := range p.Errors {
			return nil, &ErrLoad{fmt.Sprintf("tree does not type-check: %s: %v", p.PkgPath, e)}
		}
		if p.PkgPath == RootPath && !strings.HasSuffix(p.ID, ".test]") && !strings.Contains(p.ID, "[") {
			root = p
		}
	}
	if root == nil {
		// with Tests:true the plain package still has ID == PkgPath
		for _, p := range pkgs {
			if p.ID == RootPath {
				root = p
			}
		}
	}
	if root == nil {
		return nil, &ErrLoad{"root package " + RootPath + " not found"}
	}
	pr := &Prog{Dir: o.Dir, Fset: root.Fset, Pkg: root, All: pkgs, Info: root.TypesInfo, Types: root.Types,
		Funcs: map[string]*Func{}, ByObj: map[*types.Func]*Func{}, NLoaded: len(pkgs)}
	for _, f := range root.Syntax {
		fn := pr.Fset.Position(f.Pos()).Filename
		if strings.HasSuffix(fn, "_test.go") {
			continue
		}
		pr.Files = append(pr.Files, f)
		for _, d := range f.Decls {
			fd, ok := d.(*ast.FuncDecl)
			if !ok || fd.Body == nil {
				continue
			}
			obj, _ := pr.Info.Defs[fd.Name].(*types.Func)
			if obj == nil {
				continue
			}
			fi := &Func{Name: QualName(obj), Obj: obj, Decl: fd, File: f}
			pr.Funcs[fi.Name] = fi
			pr.ByObj[obj] = fi
		}
	}
	sort.Slice(pr.Files, func(i, j int) bool {
		return pr.Fset.Position(pr.Files[i].Pos()).Filename < pr.Fset.Position(pr.Files[j].Pos()).Filename
	})
	return pr, nil
}

// FuncAlias maps a function that was renamed since the reviewed tree to the
// (unqualified) name it had there; every name rendered for it uses that name.
var FuncAlias = map[*types.Func]string{}

// QualName renders "Recv.Name" for methods and "Name" for functions.
func QualName(f *types.Func) string {
	if a, ok := FuncAlias[f]; ok {
		return qualWith(f, a)
	}
	return qualWith(f, f.Name())
}

func qualWith(f *types.Func, name string) string {
	sig, _ := f.Type().(*types.Signature)
	if sig != nil && sig.Recv() != nil {
		t := sig.Recv().Type()
		if p, ok := t.(*types.Pointer); ok {
			t = p.Elem()
		}
		if n, ok := t.(*types.Named); ok {
			return n.Obj().Name() + "." + name
		}
		if a, ok := t.(*types.Alias); ok {
			return a.Obj().Name() + "." + name
		}
	}
	return name
}

// SigStr renders a function's signature without parameter names (receiver excluded).
func SigStr(p *Prog, f *types.Func) string {
	sig, _ := f.Type().(*types.Signature)
	if sig == nil {
		return ""
	}
	var ps, rs []string
	for i := 0; i < sig.Params().Len(); i++ {
		ps = append(ps, TypeStr(p, sig.Params().At(i).Type()))
	}
	for i := 0; i < sig.Results().Len(); i++ {
		rs = append(rs, TypeStr(p, sig.Results().At(i).Type()))
	}
	v := ""
	if sig.Variadic() {
		v = "..."
	}
	return "(" + strings.Join(ps, ",") + v + ")(" + strings.Join(rs, ",") + ")"
}

// Pos renders file:line:col relative to the repo dir.
func (p *Prog) Pos(pos token.Pos) string {
	if !pos.IsValid() {
		return "-"
	}
	ps := p.Fset.Position(pos)
	rel, err := filepath.Rel(p.Dir, ps.Filename)
	if err != nil {
		rel = ps.Filename
	}
	return fmt.Sprintf("%s:%d:%d", rel, ps.Line, ps.Column)
}

// Func returns a declared function by qualified name, or nil.
func (p *Prog) Func(name string) *Func { return p.Funcs[name] }

// SortedFuncs returns the declared functions in a stable order.
func (p *Prog) SortedFuncs() []*Func {
	out := make([]*Func, 0, len(p.Funcs))
	for _, f := range p.Funcs {
		out = append(out, f)
	}
	sort.Slice(out, func(i, j int) bool { return out[i].Name < out[j].Name })
	return out
}

// Named looks up a package-level named type.
func (p *Prog) Named(name string) *types.Named {
	o := p.Types.Scope().Lookup(name)
	if o == nil {
		return nil
	}
	n, _ := o.Type().(*types.Named)
	return n
}

// Field returns the field object of a named struct type (embedded fields are
// searched too).
func (p *Prog) Field(typ, field string) *types.Var {
	n := p.Named(typ)
	if n == nil {
		return nil
	}
	obj, _, _ := types.LookupFieldOrMethod(n, true, p.Types, field)
	v, _ := obj.(*types.Var)
	return v
}

// Const returns a package-level constant object.
func (p *Prog) Const(name string) *types.Const {
	c, _ := p.Types.Scope().Lookup(name).(*types.Const)
	return c
}

// Callee resolves the static callee (function, method, or interface method
// object) of a call; nil for calls of function values, conversions, builtins.
func (p *Prog) Callee(call *ast.CallExpr) *types.Func {
	var id *ast.Ident
	switch f := ast.Unparen(call.Fun).(type) {
	case *ast.Ident:
		id = f
	case *ast.SelectorExpr:
		id = f.Sel
	case *ast.IndexExpr:
		switch g := ast.Unparen(f.X).(type) {
		case *ast.Ident:
			id = g
		case *ast.SelectorExpr:
			id = g.Sel
		}
	}
	if id == nil {
		return nil
	}
	fn, _ := p.Info.Uses[id].(*types.Func)
	return fn
}

// Builtin returns the name of the builtin called, or "".
func (p *Prog) Builtin(call *ast.CallExpr) string {
	if id, ok := ast.Unparen(call.Fun).(*ast.Ident); ok {
		if b, ok := p.Info.Uses[id].(*types.Builtin); ok {
			return b.Name()
		}
	}
	return ""
}

// IsConversion reports whether call is a type conversion.
func (p *Prog) IsConversion(call *ast.CallExpr) bool {
	tv, ok := p.Info.Types[call.Fun]
	return ok && tv.IsType()
}

// FuncFullName gives "pkgpath.Recv.Name" for any function object.
func FuncFullName(f *types.Func) string {
	if f == nil {
		return ""
	}
	pk := ""
	if f.Pkg() != nil {
		pk = f.Pkg().Path() + "."
	}
	return pk + QualName(f)
}

// SelField resolves a selector expression to the struct field it selects.
func (p *Prog) SelField(e ast.Expr) *types.Var {
	s, ok := ast.Unparen(e).(*ast.SelectorExpr)
	if !ok {
		return nil
	}
	if sel := p.Info.Selections[s]; sel != nil && sel.Kind() == types.FieldVal {
		v, _ := sel.Obj().(*types.Var)
		return v
	}
	return nil
}

// NamedOf strips pointers and returns the named type's name ("" if none).
func NamedOf(t types.Type) string {
	for {
		switch u := t.(type) {
		case *types.Pointer:
			t = u.Elem()
			continue
		case *types.Alias:
			t = types.Unalias(u)
			continue
		case *types.Named:
			return u.Obj().Name()
		}
		return ""
	}
}

// NamedPkgOf returns "pkgpath.Name" for a (pointer to a) named type.
func NamedPkgOf(t types.Type) string {
	for {
		switch u := t.(type) {
		case *types.Pointer:
			t = u.Elem()
			continue
		case *types.Alias:
			t = types.Unalias(u)
			continue
		case *types.Named:
			if u.Obj().Pkg() == nil {
				return u.Obj().Name()
			}
			return u.Obj().Pkg().Path() + "." + u.Obj().Name()
		}
		return ""
	}
}

// TypeOf is Info.TypeOf that tolerates nil.
func (p *Prog) TypeOf(e ast.Expr) types.Type {
	if e == nil {
		return nil
	}
	return p.Info.TypeOf(e)
}

// Parent returns the syntactic parent of n (computed lazily for all files).
func (p *Prog) Parent(n ast.Node) ast.Node {
	if p.parents == nil {
		p.parents = map[ast.Node]ast.Node{}
		for _, f := range p.Files {
			var stack []ast.Node
			ast.Inspect(f, func(n ast.Node) bool {
				if n == nil {
					stack = stack[:len(stack)-1]
					return true
				}
				if len(stack) > 0 {
					p.parents[n] = stack[len(stack)-1]
				}
				stack = append(stack, n)
				return true
			})
		}
	}
	return p.parents[n]
}

// EnclosingFunc returns the innermost FuncDecl or FuncLit containing n.
func (p *Prog) EnclosingFunc(n ast.Node) ast.Node {
	for cur := p.Parent(n); cur != nil; cur = p.Parent(cur) {
		switch cur.(type) {
		case *ast.FuncDecl, *ast.FuncLit:
			return cur
		}
	}
	return nil
}

// EnclosingDecl returns the FuncDecl containing n (through any literals).
func (p *Prog) EnclosingDecl(n ast.Node) *Func {
	for cur := ast.Node(n); cur != nil; cur = p.Parent(cur) {
		if fd, ok := cur.(*ast.FuncDecl); ok {
			if obj, _ := p.Info.Defs[fd.Name].(*types.Func); obj != nil {
				return p.ByObj[obj]
			}
		}
	}
	return nil
}

// LocalsOf lists the local variables a function declares (parameters,
// receivers and named results excluded; function literals included), in
// declaration order.
func LocalsOf(p *Prog, f *Func) []*types.Var {
	param := map[types.Object]bool{}
	mark := func(fl *ast.FieldList) {
		if fl == nil {
			return
		}
		for _, fld := range fl.List {
			for _, n := range fld.Names {
				param[p.Info.Defs[n]] = true
			}
		}
	}
	mark(f.Decl.Recv)
	mark(f.Decl.Type.Params)
	mark(f.Decl.Type.Results)
	var out []*types.Var
	seen := map[types.Object]bool{}
	if f.Decl.Body == nil {
		return nil
	}
	ast.Inspect(f.Decl.Body, func(n ast.Node) bool {
		if fl, ok := n.(*ast.FuncLit); ok {
			mark(fl.Type.Params)
			mark(fl.Type.Results)
		}
		id, ok := n.(*ast.Ident)
		if !ok || id.Name == "_" {
			return true
		}
		o, ok := p.Info.Defs[id].(*types.Var)
		if !ok || o == nil || o.IsField() || param[o] || seen[o] {
			return true
		}
		seen[o] = true
		out = append(out, o)
		return true
	})
	sort.SliceStable(out, func(i, j int) bool { return out[i].Pos() < out[j].Pos() })
	return out
}

// TypeStr renders a type with package-name qualifiers.
func TypeStr(p *Prog, t types.Type) string {
	return types.TypeString(t, func(pk *types.Package) string {
		if pk == p.Types {
			return ""
		}
		return pk.Name()
	})
}
