// Package gea implements the guarded-effect analysis: an exhaustive
// exploration of one function's control-flow graph (go/cfg) over a finite
// predicate abstraction. Nothing is executed: conditions the code evaluates
// become finite-domain variables ("atoms"), every branch splits the abstract
// state on the atoms it tests, assignments update a symbolic store, and the
// effects a rule is interested in are recorded together with the abstract
// state (cube + store) under which they are reachable.
//
// Soundness direction: a constraint is only ever *forgotten* (when one of its
// operands is written, or when the canonicaliser does not understand a
// condition it becomes an unconstrained fresh atom). Forgetting enlarges the
// set of abstract states that reach an effect, so it can produce a report but
// never hide one.
package gea

import (
	"fmt"
	"go/ast"
	"go/token"
	"go/types"
	"hash/maphash"
	"runtime/debug"
	"sort"
	"strconv"
	"strings"

	"golang.org/x/tools/go/cfg"

	"mlverif/core"
)

// ---------------------------------------------------------------------------
// abstract values

type Kind int

const (
	KSym   Kind = iota // symbolic value identified by name
	KConst             // constant of a finite domain ("T"/"F" or an enum constant name)
	KRef               // the value of a finite-domain variable (possibly negated for booleans)
)

// Term is an abstract value.
type Term struct {
	K   Kind
	S   string
	Neg bool
}

func Sym(s string) Term   { return Term{K: KSym, S: s} }
func Const(s string) Term { return Term{K: KConst, S: s} }
func Ref(v string) Term   { return Term{K: KRef, S: v} }
func (t Term) String() string {
	switch t.K {
	case KConst:
		return "=" + t.S
	case KRef:
		if t.Neg {
			return "!$" + t.S
		}
		return "$" + t.S
	}
	return t.S
}

var (
	True  = Const("T")
	False = Const("F")
)

func boolTerm(b bool) Term {
	if b {
		return True
	}
	return False
}

// Var is a finite-domain variable of the abstraction.
type Var struct {
	Name string
	Dom  []string
}

var BoolDom = []string{"T", "F"}
var OrdDom = []string{"LT", "EQ", "GT"}

// State is one abstract path state. States are immutable once queued; every
// modification goes through the copy-on-write helpers.
type State struct {
	Cube   map[string]string
	Store  map[string]Term
	Seen   map[string]int
	Defers []*ast.DeferStmt
	h      [2]uint64 // order-independent digest of cube, store, seen, defers
}

// clone shares all maps; every mutator below copies the one map it changes
// and keeps the order-independent 128-bit digest of the state up to date.
func (s *State) clone() *State {
	n := *s
	return &n
}

var seedA, seedB = maphash.MakeSeed(), maphash.MakeSeed()

func entryHash(kind byte, k, v string) (uint64, uint64) {
	var h maphash.Hash
	h.SetSeed(seedA)
	h.WriteByte(kind)
	h.WriteString(k)
	h.WriteByte(0)
	h.WriteString(v)
	a := h.Sum64()
	h.SetSeed(seedB)
	h.WriteByte(kind)
	h.WriteString(k)
	h.WriteByte(0)
	h.WriteString(v)
	return a, h.Sum64()
}

func (s *State) mix(kind byte, k, v string) {
	a, b := entryHash(kind, k, v)
	s.h[0] ^= a
	s.h[1] ^= b
}

func copyMap[V any](m map[string]V, extra int) map[string]V {
	n := make(map[string]V, len(m)+extra)
	for k, v := range m {
		n[k] = v
	}
	return n
}

// With returns a copy with cube variable v set to val.
func (s *State) With(v, val string) *State {
	n := s.clone()
	n.Cube = copyMap(s.Cube, 1)
	if old, ok := s.Cube[v]; ok {
		n.mix('c', v, old)
	}
	n.Cube[v] = val
	n.mix('c', v, val)
	return n
}

// Bind returns a copy with location key bound to t.
func (s *State) Bind(key string, t Term) *State {
	n := s.clone()
	n.Store = copyMap(s.Store, 1)
	if old, ok := s.Store[key]; ok {
		n.mix('s', key, old.String())
	}
	n.Store[key] = t
	n.mix('s', key, t.String())
	return n
}

// Unbind returns a copy without the binding for key.
func (s *State) Unbind(key string) *State {
	if _, ok := s.Store[key]; !ok {
		return s
	}
	n := s.clone()
	n.Store = copyMap(s.Store, 0)
	n.dropStore(key)
	return n
}

func (s *State) bump(class string) *State {
	if s.Seen[class] >= 2 {
		return s
	}
	n := s.clone()
	n.Seen = copyMap(s.Seen, 1)
	n.mix('e', class, string(rune('0'+s.Seen[class])))
	n.Seen[class]++
	n.mix('e', class, string(rune('0'+n.Seen[class])))
	return n
}

func (s *State) pushDefer(d *ast.DeferStmt) *State {
	n := s.clone()
	n.Defers = append(append([]*ast.DeferStmt(nil), s.Defers...), d)
	n.mix('d', fmt.Sprint(len(n.Defers)), fmt.Sprint(d.Pos()))
	return n
}

// dropCube / dropStore delete entries (n must already own the map).
func (n *State) dropCube(k string) {
	n.mix('c', k, n.Cube[k])
	delete(n.Cube, k)
}

func (n *State) dropStore(k string) {
	n.mix('s', k, n.Store[k].String())
	delete(n.Store, k)
}

func (s *State) key() string {
	return fmt.Sprintf("%x.%x", s.h[0], s.h[1])
}

// Describe renders the full state (diagnostics only).
func (s *State) Describe() string {
	var sb strings.Builder
	sb.WriteString(CubeString(s.Cube))
	sb.WriteString(" | ")
	ks := make([]string, 0, len(s.Store))
	for k := range s.Store {
		ks = append(ks, k)
	}
	sort.Strings(ks)
	for _, k := range ks {
		sb.WriteString(k + "=" + s.Store[k].String() + ";")
	}
	return sb.String()
}

// CubeString renders the cube deterministically.
func CubeString(c map[string]string) string {
	ks := make([]string, 0, len(c))
	for k := range c {
		ks = append(ks, k)
	}
	sort.Strings(ks)
	parts := make([]string, 0, len(ks))
	for _, k := range ks {
		parts = append(parts, k+"="+c[k])
	}
	return strings.Join(parts, " ")
}

// Effect is one recorded occurrence of an effect under one abstract state.
type Effect struct {
	Class  string
	Pos    token.Pos
	Detail map[string]string
	Cube   map[string]string
	Store  map[string]Term
	Seen   map[string]int // effect counts *before* this effect
}

// Exit is one abstract state at a function exit.
type Exit struct {
	Kind  string // "return", "end", "panic"
	Pos   token.Pos
	Ret   []string // symbolic names of returned values
	Cube  map[string]string
	Store map[string]Term
	Seen  map[string]int
}

// OutB is one outcome of evaluating a boolean expression.
type OutB struct {
	St *State
	V  bool
}

// Env maps parameters of an inlined helper to argument expressions.
type Env struct {
	M     map[types.Object]ast.Expr
	Outer *Env
}

func (e *Env) lookup(o types.Object) (ast.Expr, *Env, bool) {
	if e == nil || o == nil {
		return nil, nil, false
	}
	if a, ok := e.M[o]; ok {
		return a, e.Outer, true
	}
	return nil, nil, false
}

// Spec customises an exploration for one rule family.
type Spec interface {
	Init(x *Exec, st *State) *State
	// Cond may evaluate a boolean expression itself.
	Cond(x *Exec, st *State, e ast.Expr, env *Env) ([]OutB, bool)
	// Call may handle a call (record effects, update the store). Arguments
	// have already been evaluated. Returning false requests generic handling.
	Call(x *Exec, st *State, call *ast.CallExpr, env *Env) ([]*State, bool)
	// Assign observes a single assignment lhs = rhs after the generic
	// binding has been applied (rhs may be nil for declarations/inc/dec).
	Assign(x *Exec, st *State, lhs, rhs ast.Expr, val Term) *State
	// Node observes every CFG node before it is interpreted.
	Node(x *Exec, st *State, n ast.Node) *State
}

// Base provides no-op hooks.
type Base struct{}

func (Base) Init(x *Exec, st *State) *State { return st }
func (Base) Cond(x *Exec, st *State, e ast.Expr, env *Env) ([]OutB, bool) {
	return nil, false
}
func (Base) Call(x *Exec, st *State, call *ast.CallExpr, env *Env) ([]*State, bool) {
	return nil, false
}
func (Base) Assign(x *Exec, st *State, lhs, rhs ast.Expr, val Term) *State { return st }
func (Base) Node(x *Exec, st *State, n ast.Node) *State                    { return st }

// Exec is one exploration.
type Exec struct {
	P       *core.Prog
	Spec    Spec
	Name    string
	Body    *ast.BlockStmt
	Type    *ast.FuncType
	G       *cfg.CFG
	Vars    map[string]*Var
	Effects []*Effect
	Exits   []*Exit
	Opaque  map[string]int // opaque atoms encountered (key -> uses)
	States  int            // abstract states visited
	Limit   int
	Trunc   bool              // exploration hit Limit (treated as checker error by callers)
	Alias   map[string]string // variable key -> role name used in canonical strings

	// InlineCallee, when set, selects same-package callees whose bodies are
	// explored in place at their call sites (extracted helpers): it returns
	// the declaration to inline or nil to treat the call as before.
	InlineCallee func(f *types.Func) *ast.FuncDecl
	Inlined      map[string]int // callee name -> number of in-place explorations
	// BoolReturns: a `return <bool expr>` of the explored function is split on
	// the expression's atoms and recorded as returning "true" / "false".
	BoolReturns bool
	// GoHook, when set, is called for every go statement after its GO effect.
	GoHook func(st *State, s *ast.GoStmt, env *Env) *State
	depth        int
	sink         func(st *State, kind string, pos token.Pos, rs *ast.ReturnStmt, ret []string)
	ctxs         map[*ast.BlockStmt]*fnCtx
	calleeStack  []*ast.FuncDecl

	condSet  map[ast.Expr]*ast.SwitchStmt // case expressions -> their switch (nil tag => boolean)
	isCond   map[ast.Expr]bool            // if/for conditions
	commStmt map[ast.Stmt]bool            // select communication statements
	effSeen  map[string]bool
	exitSeen map[string]bool
	pure     map[*types.Func]bool
	enums    map[*types.Named][]string
}

// New prepares an exploration of a function body.
func New(p *core.Prog, name string, typ *ast.FuncType, body *ast.BlockStmt, spec Spec) *Exec {
	x := &Exec{P: p, Spec: spec, Name: name, Body: body, Type: typ, Vars: map[string]*Var{}, Opaque: map[string]int{},
		Limit: 400000, condSet: map[ast.Expr]*ast.SwitchStmt{}, isCond: map[ast.Expr]bool{}, commStmt: map[ast.Stmt]bool{},
		effSeen: map[string]bool{}, exitSeen: map[string]bool{}, pure: map[*types.Func]bool{}}
	x.Inlined = map[string]int{}
	x.ctxs = map[*ast.BlockStmt]*fnCtx{}
	x.G = x.ctxFor(body).G
	return x
}

// fnCtx is the control-flow context of one function body (the explored
// function, or a callee explored in place).
type fnCtx struct {
	G    *cfg.CFG
	Body *ast.BlockStmt
}

// ctxFor builds (once) the CFG of a body and registers its conditions,
// switch cases and select communications.
func (x *Exec) ctxFor(body *ast.BlockStmt) *fnCtx {
	if c, ok := x.ctxs[body]; ok {
		return c
	}
	p := x.P
	c := &fnCtx{Body: body}
	c.G = cfg.New(body, func(call *ast.CallExpr) bool {
		if p.Builtin(call) == "panic" {
			return false
		}
		if f := p.Callee(call); f != nil {
			switch core.FuncFullName(f) {
			case "os.Exit", "log.Fatal", "log.Fatalf", "log.Fatalln", "log.Logger.Fatal", "log.Logger.Fatalf":
				return false
			}
		}
		return true
	})
	ast.Inspect(body, func(n ast.Node) bool {
		switch s := n.(type) {
		case *ast.FuncLit:
			return false
		case *ast.IfStmt:
			x.isCond[s.Cond] = true
		case *ast.ForStmt:
			if s.Cond != nil {
				x.isCond[s.Cond] = true
			}
		case *ast.SwitchStmt:
			for _, c := range s.Body.List {
				for _, e := range c.(*ast.CaseClause).List {
					x.condSet[e] = s
				}
			}
		case *ast.SelectStmt:
			for _, c := range s.Body.List {
				if cm := c.(*ast.CommClause).Comm; cm != nil {
					x.commStmt[cm] = true
				}
			}
		}
		return true
	})
	x.ctxs[body] = c
	return c
}

// DeclareVar registers a finite-domain variable.
func (x *Exec) DeclareVar(name string, dom []string) {
	if _, ok := x.Vars[name]; !ok {
		x.Vars[name] = &Var{Name: name, Dom: dom}
	}
}

func (x *Exec) dom(name string) []string {
	if v, ok := x.Vars[name]; ok {
		return v.Dom
	}
	x.Vars[name] = &Var{Name: name, Dom: BoolDom}
	return BoolDom
}

// Effect records an effect occurrence and bumps the seen counter.
func (x *Exec) Effect(st *State, class string, pos token.Pos, detail map[string]string) *State {
	e := &Effect{Class: class, Pos: pos, Detail: detail, Cube: st.Cube, Store: st.Store, Seen: st.Seen}
	k := fmt.Sprintf("%s@%d|%v|%s", class, pos, detail, st.key())
	if !x.effSeen[k] {
		x.effSeen[k] = true
		x.Effects = append(x.Effects, e)
	}
	return st.bump(class)
}

// Run explores the function.
func (x *Exec) Run() {
	old := debug.SetGCPercent(600)
	defer debug.SetGCPercent(old)
	init := &State{Cube: map[string]string{}, Store: map[string]Term{}, Seen: map[string]int{}}
	init = x.Spec.Init(x, init)
	x.sink = func(st *State, kind string, pos token.Pos, rs *ast.ReturnStmt, ret []string) {
		x.exit(st, kind, pos, ret)
	}
	x.explore(x.ctxFor(x.Body), init)
}

// explore runs the worklist over one body from init; every way out of the
// body is handed to x.sink.
func (x *Exec) explore(fc *fnCtx, init *State) {
	type item struct {
		b  *cfg.Block
		st *State
	}
	visited := map[string]bool{}
	work := []item{{fc.G.Blocks[0], init}}
	push := func(b *cfg.Block, st *State) {
		k := fmt.Sprintf("%d#%s", b.Index, st.key())
		if visited[k] {
			return
		}
		visited[k] = true
		work = append(work, item{b, st})
	}
	visited[fmt.Sprintf("%d#%s", fc.G.Blocks[0].Index, init.key())] = true
	for len(work) > 0 {
		it := work[len(work)-1]
		work = work[:len(work)-1]
		x.States++
		if x.States > x.Limit {
			x.Trunc = true
			return
		}
		b := it.b
		states := []*State{it.st}
		// entering a range body re-assigns key/value; entering a select arm
		// performs that arm's communication
		switch b.Kind {
		case cfg.KindRangeBody:
			if rs, ok := b.Stmt.(*ast.RangeStmt); ok {
				st := it.st
				if rs.Key != nil {
					st = x.assignUnknown(st, rs.Key, "rangekey")
				}
				if rs.Value != nil {
					st = x.assignUnknown(st, rs.Value, "rangeval")
				}
				states = []*State{st}
			}
		case cfg.KindSelectCaseBody:
			if cc, ok := b.Stmt.(*ast.CommClause); ok && cc.Comm != nil {
				states = x.execStmt(it.st, cc.Comm, nil, true)
			}
		}
		var cond ast.Expr
		nodes := b.Nodes
		if len(b.Succs) == 2 && len(nodes) > 0 {
			if e, ok := nodes[len(nodes)-1].(ast.Expr); ok {
				if _, isCase := x.condSet[e]; isCase || x.isCond[e] {
					cond = e
					nodes = nodes[:len(nodes)-1]
				}
			}
		}
		exited := false
		for _, n := range nodes {
			var next []*State
			for _, st := range states {
				st = x.Spec.Node(x, st, n)
				if rs, ok := n.(*ast.ReturnStmt); ok {
					for _, s2 := range x.execReturn(st, rs) {
						_ = s2
					}
					exited = true
					continue
				}
				next = append(next, x.execNode(st, n)...)
			}
			states = next
			if exited {
				break
			}
		}
		if exited {
			continue
		}
		switch len(b.Succs) {
		case 0:
			for _, st := range states {
				kind := "end"
				pos := fc.Body.Rbrace
				if len(b.Nodes) > 0 {
					if es, ok := b.Nodes[len(b.Nodes)-1].(*ast.ExprStmt); ok {
						if c, ok := es.X.(*ast.CallExpr); ok && x.P.Builtin(c) == "panic" {
							kind = "panic"
							pos = c.Pos()
						}
					}
				}
				if !b.Live || b.Kind == cfg.KindSelectAfterCase {
					continue // dead code, or the "no arm ready" tail of a select without default (blocks; not an exit)
				}
				x.sink(st, kind, pos, nil, nil)
			}
		case 1:
			for _, st := range states {
				push(b.Succs[0], st)
			}
		case 2:
			for _, st := range states {
				if cond == nil {
					push(b.Succs[0], st)
					push(b.Succs[1], st)
					continue
				}
				var outs []OutB
				if sw, ok := x.condSet[cond]; ok && sw.Tag != nil {
					outs = x.evalCmp(st, sw.Tag, token.EQL, cond, nil, nil)
				} else {
					outs = x.EvalBool(st, cond, nil)
				}
				for _, o := range outs {
					if o.V {
						push(b.Succs[0], o.St)
					} else {
						push(b.Succs[1], o.St)
					}
				}
			}
		}
	}
}

func (x *Exec) line(p token.Pos) int { return x.P.Fset.Position(p).Line }

func (x *Exec) exit(st *State, kind string, pos token.Pos, ret []string) {
	// run deferred calls (LIFO); their effects are recorded like any other
	states := []*State{st}
	for i := len(st.Defers) - 1; i >= 0; i-- {
		d := st.Defers[i]
		var next []*State
		for _, s := range states {
			next = append(next, x.execDeferred(s, d)...)
		}
		states = next
	}
	for _, s := range states {
		k := fmt.Sprintf("%s@%d|%v|%s", kind, pos, ret, s.key())
		if x.exitSeen[k] {
			continue
		}
		x.exitSeen[k] = true
		x.Exits = append(x.Exits, &Exit{Kind: kind, Pos: pos, Ret: ret, Cube: s.Cube, Store: s.Store, Seen: s.Seen})
	}
}

func (x *Exec) execDeferred(st *State, d *ast.DeferStmt) []*State {
	// defer func() { ... }() : interpret the literal's body statements in order
	if fl, ok := ast.Unparen(d.Call.Fun).(*ast.FuncLit); ok {
		states := []*State{st}
		for _, s := range fl.Body.List {
			var next []*State
			for _, cur := range states {
				next = append(next, x.execStmt(cur, s, nil, false)...)
			}
			states = next
		}
		return states
	}
	return x.evalCalls(st, d.Call, nil)
}

func (x *Exec) execReturn(st *State, rs *ast.ReturnStmt) []*State {
	states := []*State{st}
	for _, r := range rs.Results {
		var next []*State
		for _, s := range states {
			next = append(next, x.evalCalls(s, r, nil)...)
		}
		states = next
	}
	if x.BoolReturns && x.depth == 0 && len(rs.Results) == 1 {
		if b, ok := x.P.TypeOf(rs.Results[0]).Underlying().(*types.Basic); ok && b.Kind() == types.Bool {
			for _, s := range states {
				for _, o := range x.EvalBool(s, rs.Results[0], nil) {
					x.sink(o.St, "return", rs.Pos(), rs, []string{strconv.FormatBool(o.V)})
				}
			}
			return states
		}
	}
	for _, s := range states {
		var ret []string
		for _, r := range rs.Results {
			ret = append(ret, x.ValueName(s, r, nil))
		}
		x.sink(s, "return", rs.Pos(), rs, ret)
	}
	return states
}

func (x *Exec) execNode(st *State, n ast.Node) []*State {
	switch s := n.(type) {
	case ast.Stmt:
		if x.commStmt[s] {
			return []*State{st} // performed on entry to its select arm
		}
		return x.execStmt(st, s, nil, false)
	case *ast.ValueSpec:
		states := []*State{st}
		for i, name := range s.Names {
			var rhs ast.Expr
			if i < len(s.Values) {
				rhs = s.Values[i]
			}
			var next []*State
			for _, cur := range states {
				if rhs == nil {
					c := x.kill(cur, x.canonEnv(name, nil), x.Tok(name.Pos()))
					zero := Sym("zero" + x.Tok(name.Pos()))
					if isBool(x.P.TypeOf(name)) {
						zero = False
						c = c.Bind(x.canonEnv(name, nil), zero)
					} else if _, isStruct := x.P.TypeOf(name).Underlying().(*types.Struct); !isStruct {
						c = c.Bind(x.canonEnv(name, nil), zero)
					} else {
						c = c.Unbind("~" + x.canonEnv(name, nil)) // a struct variable is named by its location
					}
					next = append(next, x.Spec.Assign(x, c, name, nil, zero))
				} else {
					next = append(next, x.assign(cur, name, rhs, nil)...)
				}
			}
			states = next
		}
		return states
	case ast.Expr:
		// a bare expression node: switch tag, range operand, select lhs
		return x.evalCalls(st, s, nil)
	}
	return []*State{st}
}

func (x *Exec) execStmt(st *State, s ast.Stmt, env *Env, inSelectArm bool) []*State {
	switch s := s.(type) {
	case *ast.ExprStmt:
		return x.evalCalls(st, s.X, env)
	case *ast.SendStmt:
		states := x.evalCalls(st, s.Value, env)
		var out []*State
		for _, c := range states {
			out = append(out, x.Effect(c, "SEND", s.Pos(), map[string]string{"chan": x.canonEnv(s.Chan, env), "val": x.ValueName(c, s.Value, env)}))
		}
		return out
	case *ast.IncDecStmt:
		tok := x.Tok(s.Pos())
		lk := x.LocKey(st, s.X, env)
		old := x.ValueName(st, s.X, env)
		nv := Sym("incdec" + tok)
		if len(old) < 120 && !strings.Contains(old, tok) && !strings.Contains(old, "+1)") && !strings.Contains(old, "-1)") {
			if s.Tok == token.INC {
				nv = Sym("(" + old + "+1)")
			} else {
				nv = Sym("(" + old + "-1)")
			}
		}
		c := x.kill(x.Forget(st, tok), lk, tok)
		c = c.Bind(lk, nv).Unbind("~" + lk)
		return []*State{x.Spec.Assign(x, c, s.X, nil, nv)}
	case *ast.AssignStmt:
		return x.execAssign(st, s, env)
	case *ast.DeferStmt:
		return []*State{st.pushDefer(s)}
	case *ast.GoStmt:
		// arguments are evaluated now; the call itself is an effect GO
		states := []*State{st}
		for _, a := range s.Call.Args {
			var next []*State
			for _, c := range states {
				next = append(next, x.evalCalls(c, a, env)...)
			}
			states = next
		}
		var out []*State
		for _, c := range states {
			c = x.Effect(c, "GO", s.Pos(), map[string]string{"fn": x.canonEnv(s.Call.Fun, env)})
			if x.GoHook != nil {
				c = x.GoHook(c, s, env)
			}
			out = append(out, c)
		}
		return out
	case *ast.DeclStmt:
		states := []*State{st}
		if gd, ok := s.Decl.(*ast.GenDecl); ok {
			for _, sp := range gd.Specs {
				if vs, ok := sp.(*ast.ValueSpec); ok {
					var next []*State
					for _, c := range states {
						next = append(next, x.execNode(c, vs)...)
					}
					states = next
				}
			}
		}
		return states
	case *ast.BlockStmt:
		states := []*State{st}
		for _, inner := range s.List {
			var next []*State
			for _, c := range states {
				next = append(next, x.execStmt(c, inner, env, false)...)
			}
			states = next
		}
		return states
	case *ast.IfStmt:
		// only reached for deferred literals' bodies: interpret structurally
		states := []*State{st}
		if s.Init != nil {
			states = x.execStmt(st, s.Init, env, false)
		}
		var out []*State
		for _, c := range states {
			for _, o := range x.EvalBool(c, s.Cond, env) {
				if o.V {
					out = append(out, x.execStmt(o.St, s.Body, env, false)...)
				} else if s.Else != nil {
					out = append(out, x.execStmt(o.St, s.Else, env, false)...)
				} else {
					out = append(out, o.St)
				}
			}
		}
		return out
	case *ast.EmptyStmt, *ast.BranchStmt, *ast.LabeledStmt:
		return []*State{st}
	}
	// other statements inside deferred literals: evaluate calls only
	states := []*State{st}
	ast.Inspect(s, func(n ast.Node) bool {
		if _, ok := n.(*ast.FuncLit); ok {
			return false
		}
		if c, ok := n.(*ast.CallExpr); ok {
			var next []*State
			for _, cur := range states {
				next = append(next, x.evalCalls(cur, c, env)...)
			}
			states = next
			return false
		}
		return true
	})
	return states
}

func (x *Exec) execAssign(st *State, s *ast.AssignStmt, env *Env) []*State {
	// op-assign: x += e
	if s.Tok != token.ASSIGN && s.Tok != token.DEFINE {
		states := x.evalCalls(st, s.Rhs[0], env)
		var out []*State
		for _, c := range states {
			tok := x.Tok(s.Pos())
			lk := x.LocKey(c, s.Lhs[0], env)
			old, rv := x.ValueName(c, s.Lhs[0], env), x.ValueName(c, s.Rhs[0], env)
			nv := Sym("opassign" + tok)
			if len(old)+len(rv) < 400 && !strings.Contains(old, tok) && !strings.Contains(old, "opassign") && !strings.Contains(old, "incdec") {
				nv = Sym("(" + old + strings.TrimSuffix(s.Tok.String(), "=") + rv + ")")
			}
			c = x.kill(x.Forget(c, tok), lk, tok)
			c = c.Bind(lk, nv).Unbind("~" + lk)
			out = append(out, x.Spec.Assign(x, c, s.Lhs[0], s.Rhs[0], nv))
		}
		return out
	}
	if len(s.Lhs) == len(s.Rhs) {
		states := []*State{st}
		for i := range s.Lhs {
			var next []*State
			for _, c := range states {
				next = append(next, x.assign(c, s.Lhs[i], s.Rhs[i], env)...)
			}
			states = next
		}
		return states
	}
	// tuple assignment from one multi-valued expression
	rhs := ast.Unparen(s.Rhs[0])
	states := x.evalCalls(st, rhs, env)
	var out []*State
	tok := x.Tok(s.Pos())
	for _, c := range states {
		c = x.Forget(c, tok)
		// results of a call are named like single results: by the values the
		// receiver and the operands hold before any result is assigned
		base := x.canonEnv(rhs, env)
		if call, ok := rhs.(*ast.CallExpr); ok {
			if vt := x.valueTerm(c, call, env); vt.K == KSym && strings.HasSuffix(vt.S, x.Tok(call.Pos())) {
				base = strings.TrimSuffix(vt.S, x.Tok(call.Pos()))
			}
		}
		for i, l := range s.Lhs {
			if id, ok := l.(*ast.Ident); ok && id.Name == "_" {
				continue
			}
			name := fmt.Sprintf("%s%s#%d", base, tok, i)
			var val Term
			switch r := rhs.(type) {
			case *ast.IndexExpr: // v, ok := m[k]
				// the element is named by the value of the key (a helper's parameter names
				// what the caller passed)
				en := x.canonEnv(r, env)
				if _, isConst := x.P.ConstInt(r.Index); !isConst {
					if kn := x.ValueName(c, r.Index, env); kn != "" && !strings.ContainsAny(kn, "@") {
						en = x.LocKey(c, r.X, env) + "[" + kn + "]"
					}
				}
				if i == 0 {
					val = Sym(en)
				} else {
					val = Ref("has:" + en)
					x.dom("has:" + en)
				}
			case *ast.TypeAssertExpr:
				if i == 0 {
					val = Sym(name)
				} else {
					val = Ref("is:" + x.canonEnv(r, env))
					x.dom("is:" + x.canonEnv(r, env))
				}
			case *ast.UnaryExpr: // v, ok := <-ch
				val = Sym(fmt.Sprintf("recv%s#%d", tok, i))
			default:
				val = Sym(name)
				if call, ok := rhs.(*ast.CallExpr); ok {
					if t, ok := c.Store[resKey(x.Tok(call.Pos()), i)]; ok {
						val = t
					}
				}
			}
			lk := x.LocKey(c, l, env)
			c = x.kill(c, lk, tok)
			c = c.Bind(lk, val).Unbind("~" + lk)
			c = x.Spec.Assign(x, c, l, rhs, val)
		}
		out = append(out, c)
	}
	return out
}

func (x *Exec) assignUnknown(st *State, lhs ast.Expr, name string) *State {
	if id, ok := lhs.(*ast.Ident); ok && id.Name == "_" {
		return st
	}
	tok := x.Tok(lhs.Pos())
	c := x.kill(x.Forget(st, tok), x.canonEnv(lhs, nil), tok)
	c = c.Bind(x.canonEnv(lhs, nil), Sym(name+tok))
	return x.Spec.Assign(x, c, lhs, nil, Sym(name+tok))
}

// assign interprets lhs = rhs (single-valued).
func (x *Exec) assign(st *State, lhs, rhs ast.Expr, env *Env) []*State {
	if id, ok := lhs.(*ast.Ident); ok && id.Name == "_" {
		return x.evalCalls(st, rhs, env)
	}
	lkey := x.LocKey(st, lhs, env)
	var out []*State
	rt := x.P.TypeOf(rhs)
	if isBool(rt) {
		for _, o := range x.EvalBool(st, rhs, env) {
			c := x.kill(o.St, lkey, x.Tok(lhs.Pos()))
			c = c.Bind(lkey, boolTerm(o.V))
			out = append(out, x.Spec.Assign(x, c, lhs, rhs, boolTerm(o.V)))
		}
		return out
	}
	for _, c := range x.evalCalls(st, rhs, env) {
		val := x.valueTerm(c, rhs, env)
		// composite literal: bind the listed fields
		var fields map[string]Term
		if cl := compositeOf(rhs); cl != nil {
			fields = map[string]Term{}
			for _, el := range cl.Elts {
				if kv, ok := el.(*ast.KeyValueExpr); ok {
					if id, ok := kv.Key.(*ast.Ident); ok {
						fields[id.Name] = x.valueTerm(c, kv.Value, env)
						// one nesting level (Node: Node{...})
						if inner := compositeOf(kv.Value); inner != nil {
							for _, el2 := range inner.Elts {
								if kv2, ok := el2.(*ast.KeyValueExpr); ok {
									if id2, ok := kv2.Key.(*ast.Ident); ok {
										fields[id.Name+"."+id2.Name] = x.valueTerm(c, kv2.Value, env)
									}
								}
							}
						}
					}
				}
			}
		}
		c = x.kill(c, lkey, x.Tok(lhs.Pos()))
		c = c.Bind(lkey, val)
		if (val.K == KSym && !strings.ContainsAny(val.S, "{")) || val.K == KConst {
			c = c.Unbind("~" + lkey) // sub-locations are named after the bound value
		}
		for f, t := range fields {
			c = c.Bind(lkey+"."+f, t)
		}
		if fields == nil && rhs != nil {
			c = x.copyFields(c, lkey, rhs, env)
		}
		out = append(out, x.Spec.Assign(x, c, lhs, rhs, val))
	}
	return out
}

// copyFields: dst (a variable, parameter or result of struct type) receives a
// copy of the struct value src: whatever is known about src's fields is now
// known about dst's.
func (x *Exec) copyFields(st *State, dstKey string, src ast.Expr, env *Env) *State {
	src = ast.Unparen(src)
	t := x.P.TypeOf(src)
	if t == nil {
		return st
	}
	if _, isStruct := t.Underlying().(*types.Struct); !isStruct {
		return st
	}
	if cl, ok := src.(*ast.CompositeLit); ok {
		for _, el := range cl.Elts {
			if kv, ok := el.(*ast.KeyValueExpr); ok {
				if id, ok := kv.Key.(*ast.Ident); ok {
					st = st.Bind(dstKey+"."+id.Name, x.valueTerm(st, kv.Value, env))
				}
			}
		}
		return st
	}
	srcKey := ""
	switch v := src.(type) {
	case *ast.CallExpr:
		srcKey = resKey(x.Tok(v.Pos()), 0)
	case *ast.Ident, *ast.SelectorExpr:
		srcKey = x.canonEnv(src, env)
	}
	if srcKey == "" || srcKey == dstKey {
		return st
	}
	keys := make([]string, 0)
	for k := range st.Store {
		if strings.HasPrefix(k, srcKey+".") {
			keys = append(keys, k)
		}
	}
	sort.Strings(keys)
	for _, k := range keys {
		st = st.Bind(dstKey+strings.TrimPrefix(k, srcKey), st.Store[k])
	}
	return st
}

// EqPredicateOperand: e is `func(x T) bool { return bytes.Equal(x, K) }` (either
// operand order) with K not the literal's parameter; returns K.
func EqPredicateOperand(p *core.Prog, e ast.Expr) ast.Expr {
	fl, ok := ast.Unparen(e).(*ast.FuncLit)
	if !ok || len(fl.Body.List) != 1 || fl.Type.Params == nil || len(fl.Type.Params.List) != 1 || len(fl.Type.Params.List[0].Names) != 1 {
		return nil
	}
	rs, ok := fl.Body.List[0].(*ast.ReturnStmt)
	if !ok || len(rs.Results) != 1 {
		return nil
	}
	call, ok := ast.Unparen(rs.Results[0]).(*ast.CallExpr)
	if !ok || len(call.Args) != 2 {
		return nil
	}
	if f := p.Callee(call); f == nil || core.FuncFullName(f) != "bytes.Equal" {
		return nil
	}
	po := p.Info.Defs[fl.Type.Params.List[0].Names[0]]
	isParam := func(a ast.Expr) bool {
		id, ok := ast.Unparen(a).(*ast.Ident)
		return ok && p.Info.Uses[id] == po
	}
	switch {
	case isParam(call.Args[0]) && !isParam(call.Args[1]):
		return call.Args[1]
	case isParam(call.Args[1]) && !isParam(call.Args[0]):
		return call.Args[0]
	}
	return nil
}

func compositeOf(e ast.Expr) *ast.CompositeLit {
	e = ast.Unparen(e)
	if u, ok := e.(*ast.UnaryExpr); ok && u.Op == token.AND {
		e = ast.Unparen(u.X)
	}
	cl, _ := e.(*ast.CompositeLit)
	return cl
}

func isBool(t types.Type) bool {
	if t == nil {
		return false
	}
	b, ok := t.Underlying().(*types.Basic)
	return ok && b.Info()&types.IsBoolean != 0
}

// DropCube forgets one cube variable.
func (x *Exec) DropCube(st *State, v string) *State {
	if _, ok := st.Cube[v]; !ok {
		return st
	}
	n := st.clone()
	n.Cube = copyMap(st.Cube, 0)
	n.dropCube(v)
	return n
}

// Tok is the unique token of a source position, used to name values that are
// created afresh each time the position is evaluated.
func (x *Exec) Tok(pos token.Pos) string {
	ps := x.P.Fset.Position(pos)
	return fmt.Sprintf("@%d:%d@", ps.Line, ps.Column)
}

// Forget drops everything known about the values created at a position: a
// position-named symbol is about to be re-used for a new instance (loops).
func (x *Exec) Forget(st *State, tok string) *State {
	var n *State
	cubeCopied, storeCopied := false, false
	for k := range st.Cube {
		if strings.Contains(k, tok) {
			if n == nil {
				n = st.clone()
			}
			if !cubeCopied {
				n.Cube = copyMap(st.Cube, 0)
				cubeCopied = true
			}
			n.dropCube(k)
		}
	}
	for k, t := range st.Store {
		if strings.Contains(k, tok) || strings.Contains(t.S, tok) {
			if n == nil {
				n = st.clone()
			}
			if !storeCopied {
				n.Store = copyMap(st.Store, 0)
				storeCopied = true
			}
			n.dropStore(k)
		}
	}
	if n == nil {
		return st
	}
	return n
}

// kill forgets every constraint and store binding that mentions path and
// marks the path as modified at tok, so that later reads of unbound
// sub-locations are not confused with their initial values.
func (x *Exec) kill(st *State, path string, tok string) *State {
	return x.Kill(st, path, false, tok)
}

// Kill forgets constraints mentioning path; with below=true only strict
// extensions of the path (path.field, path[i]) are forgotten.
func (x *Exec) Kill(st *State, path string, below bool, tok string) *State {
	if path == "" || path == "_" {
		return st
	}
	hit := func(k string) bool {
		if !core.Mentions(k, path) {
			return false
		}
		if below {
			return strings.Contains(k, path+".") || strings.Contains(k, path+"[")
		}
		return true
	}
	// Cube atoms are statements about *values* (named after the location that
	// held them at the time); they stay valid when the location is rewritten,
	// because later reads of the location resolve to a different name (the
	// new binding, or the old name plus this modification marker).
	n := st.clone()
	n.Store = copyMap(st.Store, 1)
	for k := range st.Store {
		if hit(k) {
			n.dropStore(k)
		}
	}
	return n.Bind("~"+path, Sym(tok))
}

// marked appends the modification markers that apply to an unbound location.
func (x *Exec) marked(st *State, key string) string {
	var ms []string
	for k, t := range st.Store {
		if len(k) > 1 && k[0] == '~' && core.Mentions(key, k[1:]) && key != k[1:] {
			ms = append(ms, t.S)
		}
	}
	if len(ms) == 0 {
		return key
	}
	sort.Strings(ms)
	return key + "~" + strings.Join(ms, "")
}

func (x *Exec) canonEnv(e ast.Expr, env *Env) string {
	var s string
	if env == nil {
		s = x.P.Canon(e)
	} else {
		s = x.canonSub(e, env)
	}
	for k, a := range x.Alias {
		if core.Mentions(s, k) {
			s = replaceIdent(s, k, a)
		}
	}
	return s
}

// Canon is the canonical string of e with role aliases applied.
func (x *Exec) Canon(e ast.Expr, env *Env) string { return x.canonEnv(e, env) }

// SetAlias names a variable by its role.
func (x *Exec) SetAlias(o types.Object, role string) {
	if o == nil {
		return
	}
	if x.Alias == nil {
		x.Alias = map[string]string{}
	}
	x.Alias[x.P.VarKey(o)] = role
}

// canonSub renders e with inlined-parameter substitution.
func (x *Exec) canonSub(e ast.Expr, env *Env) string {
	// substitute identifiers bound in env by textual replacement of their
	// canonical variable keys
	s := x.P.Canon(e)
	for cur := env; cur != nil; cur = cur.Outer {
		for o, a := range cur.M {
			k := x.P.VarKey(o)
			if core.Mentions(s, k) {
				s = replaceIdent(s, k, x.canonEnv(a, cur.Outer))
			}
		}
	}
	return s
}

func replaceIdent(s, k, with string) string {
	var sb strings.Builder
	for i := 0; i < len(s); {
		j := strings.Index(s[i:], k)
		if j < 0 {
			sb.WriteString(s[i:])
			break
		}
		j += i
		end := j + len(k)
		okL := j == 0 || !identByte(s[j-1])
		okR := end == len(s) || !identByte(s[end])
		sb.WriteString(s[i:j])
		if okL && okR {
			sb.WriteString(with)
		} else {
			sb.WriteString(k)
		}
		i = end
	}
	return sb.String()
}

func identByte(b byte) bool {
	return b == '_' || b == '#' || (b >= '0' && b <= '9') || (b >= 'a' && b <= 'z') || (b >= 'A' && b <= 'Z')
}

// LocKey is the canonical name of the location e denotes: selections through
// a variable that currently holds a symbolic struct identity are named after
// that identity, so that every alias of one record shares one set of keys.
func (x *Exec) LocKey(st *State, e ast.Expr, env *Env) string {
	e = ast.Unparen(e)
	if sel, ok := e.(*ast.SelectorExpr); ok && x.P.Info.Selections[sel] != nil {
		bk := x.LocKey(st, sel.X, env)
		full := x.canonEnv(e, env)
		rawBase := x.canonEnv(sel.X, env)
		suffix := ""
		if strings.HasPrefix(full, rawBase) {
			suffix = full[len(rawBase):]
		} else {
			return full
		}
		if t, ok := st.Store[bk]; ok && t.K == KSym && t.S != "" && !strings.HasPrefix(t.S, "&") && (!strings.ContainsAny(t.S, "(@") || (strings.HasPrefix(t.S, "*") && !strings.Contains(t.S, "@"))) {
			return t.S + suffix
		}
		// a pointer to a plain location (p := &v, or a parameter handed &v): p.f is v.f
		if t, ok := st.Store[bk]; ok && t.K == KSym && strings.HasPrefix(t.S, "&") && len(t.S) > 1 && !strings.ContainsAny(t.S[1:], "({@&*") {
			return t.S[1:] + suffix
		}
		return bk + suffix
	}
	return x.canonEnv(e, env)
}

// ValueName is the symbolic name of the current value of e.
func (x *Exec) ValueName(st *State, e ast.Expr, env *Env) string {
	t := x.valueTerm(st, e, env)
	switch t.K {
	case KConst:
		return t.S
	case KRef:
		return t.String()
	}
	return t.S
}

// valueTerm computes the abstract value of a non-boolean expression.
func (x *Exec) valueTerm(st *State, e ast.Expr, env *Env) Term {
	e = ast.Unparen(e)
	if tv, ok := x.P.Info.Types[e]; ok && tv.Value != nil {
		return Const(x.P.Canon(e))
	}
	if id, ok := e.(*ast.Ident); ok && env != nil {
		if a, outer, ok := env.lookup(x.P.Info.Uses[id]); ok {
			return x.valueTerm(st, a, outer)
		}
	}
	if call, ok := e.(*ast.CallExpr); ok {
		if t, ok := st.Store[resKey(x.Tok(call.Pos()), 0)]; ok {
			return t
		}
	}
	key := x.LocKey(st, e, env)
	if t, ok := st.Store[key]; ok {
		return t
	}
	switch v := e.(type) {
	case *ast.UnaryExpr:
		if v.Op == token.AND {
			if _, isLit := ast.Unparen(v.X).(*ast.CompositeLit); isLit {
				return Sym("&" + x.ValueName(st, v.X, env))
			}
			return Sym("&" + x.LocKey(st, v.X, env))
		}
	case *ast.StarExpr:
		bt := x.valueTerm(st, v.X, env)
		if bt.K == KSym && strings.HasPrefix(bt.S, "&") {
			inner := bt.S[1:]
			if t, ok := st.Store[inner]; ok {
				return t
			}
			return Sym(inner)
		}
		if bt.K == KSym {
			return Sym("*" + bt.S) // the struct a pointer-valued location currently points to
		}
	case *ast.CallExpr:
		if x.P.IsConversion(v) && len(v.Args) == 1 {
			to, from := x.P.TypeOf(v.Fun), x.P.TypeOf(v.Args[0])
			if to != nil && from != nil && types.Identical(to.Underlying(), from.Underlying()) {
				return x.valueTerm(st, v.Args[0], env)
			}
		}
		// calls yield a value named after the call with resolved arguments
		var args []string
		for _, a := range v.Args {
			args = append(args, x.ValueName(st, a, env))
		}
		if b := x.P.Builtin(v); b == "len" || b == "cap" || b == "min" || b == "max" {
			return Sym(b + "(" + strings.Join(args, ",") + ")")
		}
		// slices.IndexFunc / slices.ContainsFunc with the predicate "element equals K": the
		// result is named by the slice and K (the search a hand-written loop would do)
		if f := x.P.Callee(v); f != nil && len(v.Args) == 2 {
			if full := core.FuncFullName(f); full == "slices.IndexFunc" || full == "slices.ContainsFunc" {
				if k := EqPredicateOperand(x.P, v.Args[1]); k != nil {
					return Sym("indexEq(" + args[0] + "," + x.ValueName(st, k, env) + ")" + x.Tok(v.Pos()))
				}
			}
		}
		fname := x.canonEnv(v.Fun, env)
		if se, ok := ast.Unparen(v.Fun).(*ast.SelectorExpr); ok && x.P.Info.Selections[se] != nil {
			// method call: name the receiver by its current value
			fname = x.ValueName(st, se.X, env) + "." + x.selName(se)
		}
		return Sym(fname + "(" + strings.Join(args, ",") + ")" + x.Tok(v.Pos()))
	case *ast.BinaryExpr:
		return Sym("(" + x.ValueName(st, v.X, env) + v.Op.String() + x.ValueName(st, v.Y, env) + ")")
	case *ast.IndexExpr, *ast.SliceExpr:
		// element / sub-slice of a variable that currently holds a named value
		var base ast.Expr
		if ie, ok := v.(*ast.IndexExpr); ok {
			base = ie.X
		} else {
			base = v.(*ast.SliceExpr).X
		}
		// a sub-slice whose bounds are variables holding known values: name it by
		// those values (so b[2:end] with end := 2+size is b[2:(2+size)])
		if se, ok := v.(*ast.SliceExpr); ok && !se.Slice3 {
			subst := false
			bound := func(e ast.Expr) string {
				if e == nil {
					return ""
				}
				if id, isId := ast.Unparen(e).(*ast.Ident); isId {
					if _, isConst := x.P.ConstInt(id); !isConst {
						ik := x.canonEnv(id, env)
						if it, ok := st.Store[ik]; ok && (it.K == KSym || it.K == KConst) && it.S != ik && x.marked(st, ik) == ik {
							subst = true
							return it.S
						}
					}
				}
				if be, isBin := ast.Unparen(e).(*ast.BinaryExpr); isBin {
					if _, isConst := x.P.ConstInt(be); !isConst {
						// i+1 with i holding a named value
						if vn, cn := x.ValueName(st, be, env), x.canonEnv(be, env); vn != cn && vn != "" {
							subst = true
							return vn
						}
					}
				}
				return x.canonEnv(e, env)
			}
			lo, hi := bound(se.Low), bound(se.High)
			if subst {
				bn := x.LocKey(st, se.X, env)
				if id, ok := ast.Unparen(se.X).(*ast.Ident); ok {
					bk := x.canonEnv(id, env)
					if bt, ok := st.Store[bk]; ok && bt.K == KSym && bt.S != bk {
						bn = bt.S
					}
				}
				return Sym(bn + "[" + lo + ":" + hi + "]")
			}
		}
		if id, ok := ast.Unparen(base).(*ast.Ident); ok && x.marked(st, key) == key {
			bk := x.canonEnv(id, env)
			if bt, ok := st.Store[bk]; ok && bt.K == KSym && bt.S != bk && strings.HasPrefix(key, bk) {
				return Sym(bt.S + key[len(bk):])
			}
		}
		// an index that is itself a variable location with a known current value:
		// name the element after that value, so that x[i] before and after i++ differ
		if ie, ok := v.(*ast.IndexExpr); ok {
			if _, isConst := x.P.ConstInt(ie.Index); !isConst {
				ik := x.LocKey(st, ie.Index, env)
				if it, ok := st.Store[ik]; ok && (it.K == KSym || it.K == KConst) && it.S != ik {
					bk := x.LocKey(st, ie.X, env)
					return Sym(x.marked(st, bk+"[]")[0:len(bk)] + "[" + it.S + "]" + x.marked(st, bk+"[]")[len(bk)+2:])
				}
			}
		}
	}
	return Sym(x.marked(st, key))
}

// ---------------------------------------------------------------------------
// calls

// evalCalls interprets every call inside e (in evaluation order, skipping
// function literals) for its effects.
func (x *Exec) evalCalls(st *State, e ast.Expr, env *Env) []*State {
	states := []*State{st}
	if e == nil {
		return states
	}
	var walk func(n ast.Expr)
	walk = func(n ast.Expr) {
		switch v := ast.Unparen(n).(type) {
		case *ast.FuncLit:
			return
		case *ast.CallExpr:
			if !x.P.IsConversion(v) {
				if se, ok := ast.Unparen(v.Fun).(*ast.SelectorExpr); ok {
					walk(se.X)
				}
			}
			for _, a := range v.Args {
				walk(a)
			}
			if x.P.IsConversion(v) {
				return
			}
			var next []*State
			for _, c := range states {
				next = append(next, x.call(c, v, env)...)
			}
			states = next
		case *ast.BinaryExpr:
			if v.Op == token.LAND || v.Op == token.LOR {
				// short-circuit: evaluate as a boolean for its effects
				var next []*State
				for _, c := range states {
					for _, o := range x.EvalBool(c, v, env) {
						next = append(next, o.St)
					}
				}
				states = next
				return
			}
			walk(v.X)
			walk(v.Y)
		case *ast.UnaryExpr:
			walk(v.X)
			if v.Op == token.ARROW {
				var next []*State
				for _, c := range states {
					// the channel received from, by the value the operand holds (a parameter or
					// local that was handed a field's channel names that field)
					next = append(next, x.Effect(c, "RECV", v.Pos(), map[string]string{"chan": x.ValueName(c, v.X, env), "loc": x.LocKey(c, v.X, env)}))
				}
				states = next
			}
		case *ast.StarExpr:
			walk(v.X)
		case *ast.SelectorExpr:
			walk(v.X)
		case *ast.IndexExpr:
			walk(v.X)
			walk(v.Index)
		case *ast.SliceExpr:
			walk(v.X)
			if v.Low != nil {
				walk(v.Low)
			}
			if v.High != nil {
				walk(v.High)
			}
		case *ast.TypeAssertExpr:
			walk(v.X)
		case *ast.CompositeLit:
			for _, el := range v.Elts {
				if kv, ok := el.(*ast.KeyValueExpr); ok {
					walk(kv.Value)
				} else {
					walk(el)
				}
			}
		case *ast.KeyValueExpr:
			walk(v.Value)
		}
	}
	walk(e)
	return states
}

// call interprets one call whose arguments have been evaluated.
// killCaptured forgets the variables a function literal assigns: the literal
// may run (now or later) and change them behind the analysed path's back.
func (x *Exec) killCaptured(st *State, fl *ast.FuncLit) *State {
	tok := x.Tok(fl.Pos())
	c := st
	ast.Inspect(fl.Body, func(n ast.Node) bool {
		var lhs []ast.Expr
		switch v := n.(type) {
		case *ast.AssignStmt:
			lhs = v.Lhs
		case *ast.IncDecStmt:
			lhs = []ast.Expr{v.X}
		}
		for _, l := range lhs {
			base := ast.Unparen(l)
			for {
				switch b := base.(type) {
				case *ast.SelectorExpr:
					base = ast.Unparen(b.X)
					continue
				case *ast.IndexExpr:
					base = ast.Unparen(b.X)
					continue
				case *ast.StarExpr:
					base = ast.Unparen(b.X)
					continue
				}
				break
			}
			id, ok := base.(*ast.Ident)
			if !ok {
				continue
			}
			obj := x.P.Info.Uses[id]
			if obj == nil || (obj.Pos() >= fl.Pos() && obj.Pos() <= fl.End()) {
				continue // declared inside the literal
			}
			k := x.canonEnv(l, nil)
			c = x.kill(c, k, tok)
			c = c.Bind(k, Sym(k+"~"+tok))
		}
		return true
	})
	return c
}

func (x *Exec) call(st *State, call *ast.CallExpr, env *Env) []*State {
	for _, a := range call.Args {
		if fl, ok := ast.Unparen(a).(*ast.FuncLit); ok {
			st = x.killCaptured(st, fl)
		}
	}
	if fl, ok := ast.Unparen(call.Fun).(*ast.FuncLit); ok {
		st = x.killCaptured(st, fl)
	}
	if b := x.P.Builtin(call); b != "len" && b != "cap" && b != "min" && b != "max" {
		st = x.Forget(st, x.Tok(call.Pos()))
	}
	if outs, ok := x.Spec.Call(x, st, call, env); ok {
		return outs
	}
	if x.InlineCallee != nil {
		if f := x.P.Callee(call); f != nil {
			if decl := x.InlineCallee(f); decl != nil {
				if outs, ok := x.inlineCall(st, call, decl, env); ok {
					return outs
				}
			}
		}
	}
	return []*State{x.GenericCallKill(st, call, env)}
}

// selName is the selected method's name - the one it had on the reviewed tree
// if it has been renamed since (core.FuncAlias).
func (x *Exec) selName(se *ast.SelectorExpr) string {
	if f, ok := x.P.Info.Uses[se.Sel].(*types.Func); ok {
		if a, ok := core.FuncAlias[f]; ok {
			return a
		}
	}
	return se.Sel.Name
}

// isRoleName: a short lower-case identifier used as a role name by the rule specs.
func isRoleName(s string) bool {
	if len(s) == 0 || len(s) > 8 {
		return false
	}
	for _, r := range s {
		if r < 'a' || r > 'z' {
			return false
		}
	}
	return true
}

// resKey names the i-th result of the in-place exploration of the call at tok.
func resKey(tok string, i int) string { return fmt.Sprintf("$res%s#%d", tok, i) }

// inlineCall explores the callee's body in place: parameters (and the
// receiver) are bound to the abstract values of the operands, the callee's
// own deferred calls run at its exits, and every way out continues in the
// caller with the returned values bound under resKey. Effects inside the
// callee are recorded like the caller's own.
func (x *Exec) inlineCall(st *State, call *ast.CallExpr, decl *ast.FuncDecl, env *Env) ([]*State, bool) {
	if decl.Body == nil || x.depth >= 3 {
		return nil, false
	}
	for _, d := range x.calleeStack {
		if d == decl {
			return nil, false // recursion
		}
	}
	if call.Ellipsis.IsValid() {
		return nil, false
	}
	// operands
	type bind struct {
		id  *ast.Ident
		arg ast.Expr
	}
	var binds []bind
	if decl.Recv != nil && len(decl.Recv.List) == 1 && len(decl.Recv.List[0].Names) == 1 {
		se, ok := ast.Unparen(call.Fun).(*ast.SelectorExpr)
		if !ok {
			return nil, false
		}
		binds = append(binds, bind{decl.Recv.List[0].Names[0], se.X})
	}
	i := 0
	for _, f := range decl.Type.Params.List {
		if _, variadic := f.Type.(*ast.Ellipsis); variadic {
			return nil, false
		}
		if len(f.Names) == 0 {
			i++
			continue
		}
		for _, n := range f.Names {
			if i >= len(call.Args) {
				return nil, false
			}
			binds = append(binds, bind{n, call.Args[i]})
			i++
		}
	}
	if i != len(call.Args) {
		return nil, false
	}
	tok := x.Tok(call.Pos())
	// bind operands (booleans split the state)
	states := []*State{st}
	for _, b := range binds {
		if b.id.Name == "_" {
			continue
		}
		key := x.canonEnv(b.id, nil)
		var next []*State
		for _, c := range states {
			if isBool(x.P.TypeOf(b.arg)) {
				for _, o := range x.EvalBool(c, b.arg, env) {
					n := x.kill(o.St, key, tok)
					next = append(next, n.Bind(key, boolTerm(o.V)))
				}
				continue
			}
			val := x.valueTerm(c, b.arg, env)
			// an operand that is one of the caller's roles ("m", "rec", "c", ...) gives the
			// parameter the same role name, so that names built from the callee's own
			// spelling agree with the caller's (unless another call site disagrees)
			if val.K == KSym && isRoleName(val.S) {
				if o := x.P.Info.Defs[b.id]; o != nil {
					vk := x.P.VarKey(o)
					if cur, has := x.Alias[vk]; has && cur != val.S {
						return nil, false // conflicting roles at different call sites: keep the call opaque
					}
					// the parameter is the caller's role under another spelling: nothing to
					// bind (and nothing known about the role is forgotten)
					x.SetAlias(o, val.S)
					next = append(next, c)
					continue
				}
			}
			n := x.kill(c, key, tok)
			n = n.Bind(key, val)
			if (val.K == KSym && !strings.ContainsAny(val.S, "{")) || val.K == KConst {
				n = n.Unbind("~" + key)
			}
			n = x.copyFields(n, key, b.arg, env)
			next = append(next, n)
		}
		states = next
	}
	name := decl.Name.Name
	x.Inlined[name]++
	fc := x.ctxFor(decl.Body)
	var out []*State
	saveSink := x.sink
	x.depth++
	x.calleeStack = append(x.calleeStack, decl)
	for _, c := range states {
		saved := c.Defers
		c = c.clone()
		c.Defers = nil
		x.sink = func(s2 *State, kind string, pos token.Pos, rs *ast.ReturnStmt, ret []string) {
			// the callee's own deferred calls
			exits := []*State{s2}
			for j := len(s2.Defers) - 1; j >= 0; j-- {
				var nx []*State
				for _, e := range exits {
					nx = append(nx, x.execDeferred(e, s2.Defers[j])...)
				}
				exits = nx
			}
			for _, e := range exits {
				if kind == "panic" {
					// the panic unwinds through the caller as well
					e = e.clone()
					e.Defers = saved
					saveSink(e, kind, pos, nil, nil)
					continue
				}
				// returned values
				rets := []*State{e}
				var results []ast.Expr
				if rs != nil && len(rs.Results) > 0 {
					results = rs.Results
				} else if decl.Type.Results != nil {
					for _, f := range decl.Type.Results.List {
						for _, n := range f.Names {
							results = append(results, n)
						}
					}
				}
				if len(results) == 1 && decl.Type.Results != nil && decl.Type.Results.NumFields() > 1 {
					// a tuple handed through from another call: the results are that call's
					// results, named as a tuple assignment would name them
					if pc, isCall := ast.Unparen(results[0]).(*ast.CallExpr); isCall && rs != nil {
						base := x.canonEnv(pc, nil)
						if vt := x.valueTerm(e, pc, nil); vt.K == KSym && strings.HasSuffix(vt.S, x.Tok(pc.Pos())) {
							base = strings.TrimSuffix(vt.S, x.Tok(pc.Pos()))
						}
						rtok := x.Tok(rs.Pos())
						nres := 0
						for _, f := range decl.Type.Results.List {
							if len(f.Names) == 0 {
								nres++
							} else {
								nres += len(f.Names)
							}
						}
						cur := e
						for ri := 0; ri < nres; ri++ {
							cur = cur.Bind(resKey(tok, ri), Sym(fmt.Sprintf("%s%s#%d", base, rtok, ri)))
						}
						rets = []*State{cur}
					}
					results = nil
				}
				for ri, r := range results {
					var nx []*State
					for _, cur := range rets {
						if isBool(x.P.TypeOf(r)) {
							for _, o := range x.EvalBool(cur, r, nil) {
								nx = append(nx, o.St.Bind(resKey(tok, ri), boolTerm(o.V)))
							}
						} else {
							nx = append(nx, x.copyFields(cur.Bind(resKey(tok, ri), x.valueTerm(cur, r, nil)), resKey(tok, ri), r, nil))
						}
					}
					rets = nx
				}
				for _, cur := range rets {
					cur = cur.clone()
					cur.Defers = saved
					out = append(out, cur)
				}
			}
		}
		x.explore(fc, c)
	}
	x.sink = saveSink
	x.depth--
	x.calleeStack = x.calleeStack[:len(x.calleeStack)-1]
	return out, true
}

// GenericCallKill forgets what a call may change: bindings below pointer
// arguments (and &v arguments), unless the callee is known not to write.
func (x *Exec) GenericCallKill(st *State, call *ast.CallExpr, env *Env) *State {
	if b := x.P.Builtin(call); b != "" {
		switch b {
		case "delete":
			return x.Kill(st, x.canonEnv(call.Args[0], env), true, x.Tok(call.Pos()))
		case "append", "len", "cap", "make", "new", "copy", "panic", "print", "println", "min", "max", "close", "clear", "recover":
			if b == "copy" || b == "clear" {
				return x.Kill(st, x.canonEnv(call.Args[0], env), true, x.Tok(call.Pos()))
			}
			return st
		}
		return st
	}
	callee := x.P.Callee(call)
	if callee != nil && callee.Pkg() != nil {
		switch callee.Pkg().Path() {
		case "fmt", "log", "bytes", "strings", "time", "errors", "net", "math", "strconv", "hash/crc32":
			return st // no writes through our pointers
		case "encoding/binary":
			if strings.HasPrefix(callee.Name(), "Uint") {
				return st
			}
		}
	}
	c := st
	for _, a := range call.Args {
		a = ast.Unparen(a)
		if u, ok := a.(*ast.UnaryExpr); ok && u.Op == token.AND {
			c = x.Kill(c, x.canonEnv(u.X, env), true, x.Tok(call.Pos()))
			c = x.Kill(c, x.canonEnv(u.X, env)+"==nil", false, x.Tok(call.Pos()))
			continue
		}
		if t := x.P.TypeOf(a); t != nil {
			switch t.Underlying().(type) {
			case *types.Pointer:
				c = x.Kill(c, x.canonEnv(a, env), true, x.Tok(call.Pos()))
			case *types.Slice:
				// the callee may write through the slice: forget its elements
				base := a
				if se, ok := a.(*ast.SliceExpr); ok {
					base = ast.Unparen(se.X)
				}
				if _, isIdent := base.(*ast.Ident); isIdent {
					c = x.Kill(c, x.canonEnv(base, env), true, x.Tok(call.Pos()))
				}
			}
		}
	}
	return c
}

// ---------------------------------------------------------------------------
// boolean evaluation

func outs(st *State, v bool) []OutB { return []OutB{{st, v}} }

// Resolve splits on a finite-domain term until it has a concrete value.
func (x *Exec) Resolve(st *State, t Term) []struct {
	St *State
	V  string
} {
	type R = struct {
		St *State
		V  string
	}
	switch t.K {
	case KConst:
		return []R{{st, t.S}}
	case KRef:
		neg := func(v string) string {
			if !t.Neg {
				return v
			}
			if v == "T" {
				return "F"
			}
			return "T"
		}
		if v, ok := st.Cube[t.S]; ok {
			return []R{{st, neg(v)}}
		}
		var out []R
		for _, d := range x.dom(t.S) {
			out = append(out, R{st.With(t.S, d), neg(d)})
		}
		return out
	}
	return nil
}

// Atom evaluates the boolean atom with the given key (declared on demand).
func (x *Exec) Atom(st *State, key string) []OutB {
	x.dom(key)
	var out []OutB
	for _, r := range x.Resolve(st, Ref(key)) {
		out = append(out, OutB{r.St, r.V == "T"})
	}
	return out
}

// OpaqueAtom is Atom for conditions no canonicaliser recognised.
func (x *Exec) OpaqueAtom(st *State, key string) []OutB {
	x.Opaque[key]++
	return x.Atom(st, "?"+key)
}

// EvalBool evaluates a boolean expression, splitting the state as needed.
func (x *Exec) EvalBool(st *State, e ast.Expr, env *Env) []OutB {
	e = ast.Unparen(e)
	if tv, ok := x.P.Info.Types[e]; ok && tv.Value != nil {
		return outs(st, tv.Value.String() == "true")
	}
	if o, ok := x.Spec.Cond(x, st, e, env); ok {
		return o
	}
	switch v := e.(type) {
	case *ast.UnaryExpr:
		if v.Op == token.NOT {
			var out []OutB
			for _, o := range x.EvalBool(st, v.X, env) {
				out = append(out, OutB{o.St, !o.V})
			}
			return out
		}
		if v.Op == token.ARROW {
			return x.OpaqueAtom(x.Forget(st, x.Tok(v.Pos())), "recv"+x.Tok(v.Pos()))
		}
	case *ast.BinaryExpr:
		switch v.Op {
		case token.LAND:
			var out []OutB
			for _, o := range x.EvalBool(st, v.X, env) {
				if !o.V {
					out = append(out, o)
				} else {
					out = append(out, x.EvalBool(o.St, v.Y, env)...)
				}
			}
			return out
		case token.LOR:
			var out []OutB
			for _, o := range x.EvalBool(st, v.X, env) {
				if o.V {
					out = append(out, o)
				} else {
					out = append(out, x.EvalBool(o.St, v.Y, env)...)
				}
			}
			return out
		case token.EQL, token.NEQ, token.LSS, token.LEQ, token.GTR, token.GEQ:
			return x.evalCmp(st, v.X, v.Op, v.Y, env, env)
		}
	case *ast.Ident:
		if a, outer, ok := env.lookup(x.P.Info.Uses[v]); ok {
			return x.EvalBool(st, a, outer)
		}
		return x.evalLoc(st, x.canonEnv(v, env))
	case *ast.SelectorExpr:
		return x.evalLoc(st, x.LocKey(st, v, env))
	case *ast.CallExpr:
		var out []OutB
		for _, c := range x.evalCalls(st, v, env) {
			out = append(out, x.evalBoolCall(c, v, env)...)
		}
		return out
	}
	var out []OutB
	for _, c := range x.evalCalls(st, e, env) {
		out = append(out, x.OpaqueAtom(c, x.canonEnv(e, env))...)
	}
	return out
}

func (x *Exec) evalLoc(st *State, key string) []OutB {
	if t, ok := st.Store[key]; ok && t.K != KSym {
		var out []OutB
		for _, r := range x.Resolve(st, t) {
			out = append(out, OutB{r.St, r.V == "T"})
		}
		return out
	}
	return x.Atom(st, x.marked(st, key))
}

// evalBoolCall gives the truth value of a bool-valued call (effects done).
func (x *Exec) evalBoolCall(st *State, call *ast.CallExpr, env *Env) []OutB {
	if t, ok := st.Store[resKey(x.Tok(call.Pos()), 0)]; ok {
		var out []OutB
		for _, r := range x.Resolve(st, t) {
			out = append(out, OutB{r.St, r.V == "T"})
		}
		return out
	}
	callee := x.P.Callee(call)
	if callee != nil {
		if core.FuncFullName(callee) == "bytes.Equal" && len(call.Args) == 2 {
			return x.evalEq(st, call.Args[0], call.Args[1], env)
		}
		if ret, nenv, ok := x.Inline(call, env); ok {
			return x.EvalBool(st, ret, nenv)
		}
		if ret, nenv, ok := x.inlineBoolBody(call, env); ok {
			return x.EvalBool(st, ret, nenv)
		}
	}
	// value named by resolved arguments
	var args []string
	for _, a := range call.Args {
		args = append(args, x.ValueName(st, a, env))
	}
	fname := x.canonEnv(call.Fun, env)
	if se, ok := ast.Unparen(call.Fun).(*ast.SelectorExpr); ok && x.P.Info.Selections[se] != nil {
		fname = x.ValueName(st, se.X, env) + "." + x.selName(se)
	}
	return x.OpaqueAtom(st, fname+"("+strings.Join(args, ",")+")"+x.Tok(call.Pos()))
}

// Inline returns the single returned expression of a same-package helper
// whose body is exactly one return statement, with an environment binding its
// receiver and parameters to the call's operands.
func (x *Exec) Inline(call *ast.CallExpr, env *Env) (ast.Expr, *Env, bool) {
	callee := x.P.Callee(call)
	if callee == nil {
		return nil, nil, false
	}
	fi := x.P.ByObj[callee]
	if fi == nil || fi.Decl.Body == nil || len(fi.Decl.Body.List) != 1 {
		return nil, nil, false
	}
	rs, ok := fi.Decl.Body.List[0].(*ast.ReturnStmt)
	if !ok || len(rs.Results) != 1 {
		return nil, nil, false
	}
	m := map[types.Object]ast.Expr{}
	if fi.Decl.Recv != nil && len(fi.Decl.Recv.List) == 1 && len(fi.Decl.Recv.List[0].Names) == 1 {
		se, ok := ast.Unparen(call.Fun).(*ast.SelectorExpr)
		if !ok {
			return nil, nil, false
		}
		m[x.P.Info.Defs[fi.Decl.Recv.List[0].Names[0]]] = se.X
	}
	i := 0
	for _, f := range fi.Decl.Type.Params.List {
		for _, n := range f.Names {
			if i >= len(call.Args) {
				return nil, nil, false
			}
			m[x.P.Info.Defs[n]] = call.Args[i]
			i++
		}
	}
	return rs.Results[0], &Env{M: m, Outer: env}, true
}

// inlineBoolBody extends Inline to bool-valued same-package helpers whose body
// is a tree of if statements (no init clauses) whose leaves are single-value
// returns: `if c { return a }; return b` is read as (c && a) || (!c && b).
// Extracting a guard into such a helper (or inlining one) is then invisible
// to the rules.
func (x *Exec) inlineBoolBody(call *ast.CallExpr, env *Env) (ast.Expr, *Env, bool) {
	callee := x.P.Callee(call)
	if callee == nil {
		return nil, nil, false
	}
	fi := x.P.ByObj[callee]
	if fi == nil || fi.Decl.Body == nil || len(fi.Decl.Body.List) < 2 || len(fi.Decl.Body.List) > 8 {
		return nil, nil, false
	}
	sig, _ := callee.Type().(*types.Signature)
	if sig == nil || sig.Results().Len() != 1 {
		return nil, nil, false
	}
	if b, ok := sig.Results().At(0).Type().Underlying().(*types.Basic); !ok || b.Kind() != types.Bool {
		return nil, nil, false
	}
	e, ok := flattenBool(fi.Decl.Body.List, 0)
	if !ok {
		return nil, nil, false
	}
	m := map[types.Object]ast.Expr{}
	if fi.Decl.Recv != nil && len(fi.Decl.Recv.List) == 1 && len(fi.Decl.Recv.List[0].Names) == 1 {
		se, ok := ast.Unparen(call.Fun).(*ast.SelectorExpr)
		if !ok {
			return nil, nil, false
		}
		m[x.P.Info.Defs[fi.Decl.Recv.List[0].Names[0]]] = se.X
	}
	i := 0
	for _, f := range fi.Decl.Type.Params.List {
		for _, n := range f.Names {
			if i >= len(call.Args) {
				return nil, nil, false
			}
			m[x.P.Info.Defs[n]] = call.Args[i]
			i++
		}
	}
	return e, &Env{M: m, Outer: env}, true
}

func flattenBool(list []ast.Stmt, depth int) (ast.Expr, bool) {
	if len(list) == 0 || depth > 6 {
		return nil, false
	}
	switch s := list[0].(type) {
	case *ast.ReturnStmt:
		if len(s.Results) != 1 {
			return nil, false
		}
		return s.Results[0], true
	case *ast.IfStmt:
		if s.Init != nil {
			return nil, false
		}
		var rest []ast.Stmt
		switch e := s.Else.(type) {
		case nil:
		case *ast.BlockStmt:
			rest = append(rest, e.List...)
		case *ast.IfStmt:
			rest = append(rest, e)
		default:
			return nil, false
		}
		rest = append(rest, list[1:]...)
		// the then-branch alone may fall through to what follows the if
		thenE, ok := flattenBool(append(append([]ast.Stmt{}, s.Body.List...), list[1:]...), depth+1)
		if !ok {
			return nil, false
		}
		elseE, ok := flattenBool(rest, depth+1)
		if !ok {
			return nil, false
		}
		c := s.Cond
		return &ast.BinaryExpr{
			X:  &ast.BinaryExpr{X: &ast.ParenExpr{X: c}, Op: token.LAND, Y: &ast.ParenExpr{X: thenE}},
			Op: token.LOR,
			Y:  &ast.BinaryExpr{X: &ast.UnaryExpr{Op: token.NOT, X: &ast.ParenExpr{X: c}}, Op: token.LAND, Y: &ast.ParenExpr{X: elseE}},
		}, true
	}
	return nil, false
}

// evalEq decides equality of two values by their symbolic names.
func (x *Exec) evalEq(st *State, a, b ast.Expr, env *Env) []OutB {
	na, nb := x.ValueName(st, a, env), x.ValueName(st, b, env)
	if na == nb {
		return outs(st, true)
	}
	if na > nb {
		na, nb = nb, na
	}
	return x.Atom(st, "eq("+na+","+nb+")")
}

func (x *Exec) isNil(e ast.Expr) bool {
	if id, ok := ast.Unparen(e).(*ast.Ident); ok {
		_, isNil := x.P.Info.Uses[id].(*types.Nil)
		return isNil
	}
	return false
}

func isIntegerType(t types.Type) bool {
	if t == nil {
		return false
	}
	b, ok := t.Underlying().(*types.Basic)
	return ok && b.Info()&types.IsInteger != 0
}

// evalCmp evaluates `a op b`.
func (x *Exec) evalCmp(st *State, a ast.Expr, op token.Token, b ast.Expr, envA, envB *Env) []OutB {
	// give the spec a chance on a synthesised comparison
	syn := &ast.BinaryExpr{X: a, Op: op, Y: b}
	if envA == envB {
		if o, ok := x.Spec.Cond(x, st, syn, envA); ok {
			return o
		}
	}
	neg := func(o []OutB) []OutB {
		out := make([]OutB, len(o))
		for i := range o {
			out[i] = OutB{o[i].St, !o[i].V}
		}
		return out
	}
	// effects of calls inside operands
	var out []OutB
	for _, c1 := range x.evalCalls(st, a, envA) {
		for _, c := range x.evalCalls(c1, b, envB) {
			out = append(out, x.evalCmp2(c, a, op, b, envA, envB, neg)...)
		}
	}
	return out
}

func (x *Exec) evalCmp2(st *State, a ast.Expr, op token.Token, b ast.Expr, envA, envB *Env, neg func([]OutB) []OutB) []OutB {
	// nil comparisons
	if x.isNil(b) || x.isNil(a) {
		o := a
		env := envA
		if x.isNil(a) {
			o, env = b, envB
		}
		vn := x.ValueName(st, o, env)
		key := vn + "==nil"
		var res []OutB
		if vn == "nil" {
			res = outs(st, true) // the value is the nil literal (e.g. handed back by a helper explored in place)
		} else if strings.HasPrefix(vn, "&") && !strings.ContainsAny(vn[1:], "(@") {
			res = outs(st, false) // the address of something
		} else if strings.HasPrefix(vn, "fmt.Errorf(") || strings.HasPrefix(vn, "errors.New(") {
			res = outs(st, false) // these constructors never return nil
		} else if t, ok := st.Store[key]; ok && t.K != KSym {
			for _, r := range x.Resolve(st, t) {
				res = append(res, OutB{r.St, r.V == "T"})
			}
		} else {
			res = x.Atom(st, key)
		}
		if op == token.NEQ {
			return neg(res)
		}
		return res
	}
	ta, tb := x.valueTerm(st, a, envA), x.valueTerm(st, b, envB)
	// finite-domain comparison (enum constants / tracked locations)
	if (op == token.EQL || op == token.NEQ) && (ta.K != KSym || tb.K != KSym) && !(ta.K == KConst && isNumeric(ta.S)) && !(tb.K == KConst && isNumeric(tb.S)) {
		if ta.K != KSym && tb.K != KSym {
			var res []OutB
			for _, ra := range x.Resolve(st, ta) {
				for _, rb := range x.Resolve(ra.St, tb) {
					res = append(res, OutB{rb.St, (ra.V == rb.V) == (op == token.EQL)})
				}
			}
			return res
		}
	}
	// enum-typed value against one of its named constants: finite-domain variable
	if op == token.EQL || op == token.NEQ {
		sym, cst, typ := ta, tb, x.P.TypeOf(b)
		if ta.K == KConst && tb.K == KSym {
			sym, cst, typ = tb, ta, x.P.TypeOf(a)
		}
		if sym.K == KSym && cst.K == KConst && !isNumeric(cst.S) {
			if dom := x.enumDom(typ); dom != nil {
				v := "enum:" + sym.S
				x.DeclareVar(v, dom)
				return x.enumTest(st, v, cst.S, op == token.EQL)
			}
		}
	}
	// integer against constant: atom "X>=c" / "X==c"
	if isIntegerType(x.P.TypeOf(a)) || isIntegerType(x.P.TypeOf(b)) {
		ca, oka := x.P.ConstInt(a)
		cb, okb := x.P.ConstInt(b)
		// a variable currently bound to a literal constant
		if !oka && ta.K == KConst && isNumeric(ta.S) {
			if v, err := strconv.ParseInt(ta.S, 10, 64); err == nil {
				ca, oka = v, true
			}
		}
		if !okb && tb.K == KConst && isNumeric(tb.S) {
			if v, err := strconv.ParseInt(tb.S, 10, 64); err == nil {
				cb, okb = v, true
			}
		}
		if oka && okb {
			var r bool
			switch op {
			case token.EQL:
				r = ca == cb
			case token.NEQ:
				r = ca != cb
			case token.LSS:
				r = ca < cb
			case token.LEQ:
				r = ca <= cb
			case token.GTR:
				r = ca > cb
			case token.GEQ:
				r = ca >= cb
			}
			return outs(st, r)
		}
		if oka && !okb {
			// c op X  ==  X flip(op) c
			return x.intConstCmp(st, tb.S, core.FlipOp(op), ca, x.nonNegExpr(b) || strings.HasPrefix(tb.S, "len(") || strings.HasPrefix(tb.S, "int(") && x.nonNegName(st, b, envB))
		}
		if okb && !oka {
			return x.intConstCmp(st, ta.S, op, cb, x.nonNegExpr(a) || strings.HasPrefix(ta.S, "len(") || strings.HasPrefix(ta.S, "int(") && x.nonNegName(st, a, envA))
		}
	}
	na, nb := termName(ta), termName(tb)
	if na == nb {
		return outs(st, op == token.EQL || op == token.LEQ || op == token.GEQ)
	}
	if op == token.EQL || op == token.NEQ {
		if !isOrdered(x.P.TypeOf(a)) {
			if na > nb {
				na, nb = nb, na
			}
			res := x.Atom(st, "eq("+na+","+nb+")")
			if op == token.NEQ {
				return neg(res)
			}
			return res
		}
	}
	// ordered comparison of two symbolic values: three-valued variable
	if na > nb {
		na, nb = nb, na
		op = core.FlipOp(op)
	}
	v := "cmp(" + na + "," + nb + ")"
	x.DeclareVar(v, OrdDom)
	var res []OutB
	for _, r := range x.Resolve(st, Ref(v)) {
		res = append(res, OutB{r.St, OrdHolds(r.V, op)})
	}
	return res
}

// enumTest evaluates v == k over lazily refined values: a cube value is
// either one constant, or "!a,b,..." meaning "none of a, b, ...".
func (x *Exec) enumTest(st *State, v, k string, wantEq bool) []OutB {
	cur, ok := st.Cube[v]
	res := func(s *State, eq bool) OutB { return OutB{s, eq == wantEq} }
	if !ok {
		return []OutB{res(st.With(v, k), true), res(st.With(v, "!"+k), false)}
	}
	if !strings.HasPrefix(cur, "!") {
		return []OutB{res(st, cur == k)}
	}
	excluded := strings.Split(cur[1:], ",")
	for _, e := range excluded {
		if e == k {
			return []OutB{res(st, false)}
		}
	}
	excluded = append(excluded, k)
	sort.Strings(excluded)
	return []OutB{res(st.With(v, k), true), res(st.With(v, "!"+strings.Join(excluded, ",")), false)}
}

// EnumIs reports whether a (possibly negative) enum cube value can be k.
func EnumIs(val, k string) bool {
	if !strings.HasPrefix(val, "!") {
		return val == k
	}
	for _, e := range strings.Split(val[1:], ",") {
		if e == k {
			return false
		}
	}
	return true
}

// enumDom returns the named constants of an enum-like type of the analysed
// package (plus "<other>"), or nil.
func (x *Exec) enumDom(t types.Type) []string {
	n, ok := t.(*types.Named)
	if !ok || n.Obj().Pkg() != x.P.Types {
		return nil
	}
	if _, isInt := n.Underlying().(*types.Basic); !isInt {
		return nil
	}
	if d, ok := x.enums[n]; ok {
		return d
	}
	type kv struct {
		name string
		pos  token.Pos
	}
	var cs []kv
	sc := x.P.Types.Scope()
	for _, name := range sc.Names() {
		if c, ok := sc.Lookup(name).(*types.Const); ok && types.Identical(c.Type(), t) {
			cs = append(cs, kv{name, c.Pos()})
		}
	}
	sort.Slice(cs, func(i, j int) bool { return cs[i].pos < cs[j].pos })
	var dom []string
	for _, c := range cs {
		dom = append(dom, c.name)
	}
	if len(dom) < 2 {
		dom = nil
	} else {
		dom = append(dom, "<other>")
	}
	if x.enums == nil {
		x.enums = map[*types.Named][]string{}
	}
	x.enums[n] = dom
	return dom
}

// OrdHolds reports whether `a op b` holds when compare(a,b) == ord.
func OrdHolds(ord string, op token.Token) bool {
	switch op {
	case token.EQL:
		return ord == "EQ"
	case token.NEQ:
		return ord != "EQ"
	case token.LSS:
		return ord == "LT"
	case token.LEQ:
		return ord != "GT"
	case token.GTR:
		return ord == "GT"
	case token.GEQ:
		return ord != "LT"
	}
	return false
}

func termName(t Term) string {
	if t.K == KRef {
		return t.String()
	}
	return t.S
}

func isNumeric(s string) bool {
	if s == "" {
		return false
	}
	for i, c := range s {
		if (c < '0' || c > '9') && !(i == 0 && c == '-') {
			return false
		}
	}
	return true
}

func isOrdered(t types.Type) bool {
	if t == nil {
		return false
	}
	b, ok := t.Underlying().(*types.Basic)
	return ok && b.Info()&(types.IsOrdered) != 0 && b.Info()&types.IsString == 0
}

// intConstCmp evaluates X op c over the atoms "X>=k".
// nonNegExpr: the expression cannot be negative by its type, or because it is
// a conversion of an unsigned value to a wider integer type.
func (x *Exec) nonNegExpr(e ast.Expr) bool {
	e = ast.Unparen(e)
	if isUnsigned(x.P.TypeOf(e)) {
		return true
	}
	if call, ok := e.(*ast.CallExpr); ok && x.P.IsConversion(call) && len(call.Args) == 1 {
		return isUnsigned(x.P.TypeOf(call.Args[0]))
	}
	return false
}

// nonNegName: a variable currently holding the value of such a conversion
// (size := int(b[1])): the defining expression is found through the variable.
func (x *Exec) nonNegName(st *State, e ast.Expr, env *Env) bool {
	id, ok := ast.Unparen(e).(*ast.Ident)
	if !ok {
		return false
	}
	obj, _ := x.P.Info.Uses[id].(*types.Var)
	if obj == nil {
		return false
	}
	// the variable's single defining assignment is a conversion from an unsigned value
	found, n := false, 0
	for _, f := range x.P.Files {
		if f.Pos() <= obj.Pos() && obj.Pos() <= f.End() {
			ast.Inspect(f, func(nd ast.Node) bool {
				as, ok := nd.(*ast.AssignStmt)
				if !ok {
					return true
				}
				for i, l := range as.Lhs {
					if lid, ok := l.(*ast.Ident); ok && x.P.Info.ObjectOf(lid) == obj {
						n++
						if len(as.Lhs) == len(as.Rhs) && x.nonNegExpr(as.Rhs[i]) {
							found = true
						}
					}
				}
				return true
			})
		}
	}
	return found && n == 1
}

func isUnsigned(t types.Type) bool {
	if t == nil {
		return false
	}
	b, ok := t.Underlying().(*types.Basic)
	return ok && b.Info()&types.IsUnsigned != 0
}

func (x *Exec) intConstCmp(st *State, name string, op token.Token, c int64, nonneg bool) []OutB {
	ge := func(k int64) []OutB {
		if nonneg && k <= 0 {
			return outs(st, true)
		}
		return x.Atom(st, fmt.Sprintf("%s>=%d", name, k))
	}
	negate := func(o []OutB) []OutB {
		out := make([]OutB, len(o))
		for i := range o {
			out[i] = OutB{o[i].St, !o[i].V}
		}
		return out
	}
	switch op {
	case token.GEQ:
		return ge(c)
	case token.GTR:
		return ge(c + 1)
	case token.LSS:
		return negate(ge(c))
	case token.LEQ:
		return negate(ge(c + 1))
	case token.EQL, token.NEQ:
		// X==c  <=>  X>=c && !(X>=c+1)
		var res []OutB
		for _, o := range ge(c) {
			if !o.V {
				res = append(res, OutB{o.St, false})
				continue
			}
			st2 := o.St
			var hi []OutB
			if nonneg && c+1 <= 0 {
				hi = outs(st2, true)
			} else {
				hi = x.Atom(st2, fmt.Sprintf("%s>=%d", name, c+1))
			}
			for _, o2 := range hi {
				res = append(res, OutB{o2.St, !o2.V})
			}
		}
		if op == token.NEQ {
			return negate(res)
		}
		return res
	}
	return x.OpaqueAtom(st, fmt.Sprintf("%s %s %d", name, op, c))
}

// ---------------------------------------------------------------------------
// quantification over completions of a cube

type askVar struct{ name string }

// ForAll checks pred for every completion of cube over the variables pred
// actually consults. It returns false and a witness completion otherwise.
func (x *Exec) ForAll(cube map[string]string, pred func(get func(string) string) bool) (bool, map[string]string) {
	ext := map[string]string{}
	var rec func() (bool, map[string]string)
	rec = func() (ok bool, wit map[string]string) {
		var need string
		res := func() (r bool) {
			defer func() {
				if p := recover(); p != nil {
					if a, isAsk := p.(askVar); isAsk {
						need = a.name
						return
					}
					panic(p)
				}
			}()
			return pred(func(v string) string {
				if val, ok := cube[v]; ok {
					return val
				}
				if val, ok := ext[v]; ok {
					return val
				}
				panic(askVar{v})
			})
		}()
		if need == "" {
			if res {
				return true, nil
			}
			w := map[string]string{}
			for k, v := range cube {
				w[k] = v
			}
			for k, v := range ext {
				w[k] = v + "*"
			}
			return false, w
		}
		for _, d := range x.dom(need) {
			ext[need] = d
			if ok, w := rec(); !ok {
				delete(ext, need)
				return false, w
			}
		}
		delete(ext, need)
		return true, nil
	}
	return rec()
}
