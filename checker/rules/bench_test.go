package rules

import (
	"testing"
	"time"

	"mlverif/core"
)

func TestHandlersTiming(t *testing.T) {
	t0 := time.Now()
	p, err := core.Load(core.LoadOpts{Dir: "/repo"})
	if err != nil {
		t.Fatal(err)
	}
	t.Logf("load %v", time.Since(t0))
	t0 = time.Now()
	c := NewCtx(p, "bench", "quick")
	t.Logf("graph %v", time.Since(t0))
	t0 = time.Now()
	hm := c.handlerModels()
	t.Logf("handlers %v; alive states=%d", time.Since(t0), hm["alive"].x.States)
}
