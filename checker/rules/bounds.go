package rules

import (
	"fmt"
	"go/ast"
	"go/constant"
	"go/token"
	"go/types"
	"sort"
	"strings"

	"golang.org/x/tools/go/cfg"

	"mlverif/core"
)

// Bounds prover: a must-facts dataflow over go/cfg collects linear integer
// facts (from dominating branch conditions, assignments, range loops, make /
// re-slicing, and a small table of library contracts); every index or slice
// expression in scope must have its bounds derivable from the facts at that
// point by a bounded non-negative combination. What cannot be derived is
// reported, never assumed.

type lin struct {
	co map[string]int64
	k  int64
}

func newLin() lin { return lin{co: map[string]int64{}} }

func (a lin) clone() lin {
	n := lin{co: make(map[string]int64, len(a.co)), k: a.k}
	for t, c := range a.co {
		n.co[t] = c
	}
	return n
}

func (a lin) add(b lin, m int64) lin {
	n := a.clone()
	for t, c := range b.co {
		n.co[t] += m * c
		if n.co[t] == 0 {
			delete(n.co, t)
		}
	}
	n.k += m * b.k
	return n
}

func (a lin) String() string {
	ts := make([]string, 0, len(a.co))
	for t := range a.co {
		ts = append(ts, t)
	}
	sort.Strings(ts)
	var sb strings.Builder
	for _, t := range ts {
		fmt.Fprintf(&sb, "%+d*%s ", a.co[t], t)
	}
	fmt.Fprintf(&sb, "%+d", a.k)
	return sb.String()
}

func (a lin) mentions(term string) bool {
	for t := range a.co {
		if core.Mentions(t, term) {
			return true
		}
	}
	return false
}

// subst replaces term t by the linear expression r in a.
func (a lin) subst(t string, r lin) lin {
	c, ok := a.co[t]
	if !ok {
		return a
	}
	n := a.clone()
	delete(n.co, t)
	return n.add(r, c)
}

type factSet map[string]lin // key = String(); meaning: lin >= 0

func (f factSet) clone() factSet {
	n := make(factSet, len(f))
	for k, v := range f {
		n[k] = v
	}
	return n
}

func (f factSet) addGE(l lin) { // l >= 0
	if len(l.co) == 0 || len(l.co) > 4 {
		return
	}
	for _, c := range l.co {
		if c > 3 || c < -3 {
			return // widening: combinations growing along loop iterations are dropped
		}
	}
	f[l.String()] = l
}

// addClosed adds l and its one-step eliminations with existing facts (sums
// that cancel a term), so that a snapshot relation like len(s) = len(b) - off
// leaves behind consequences that survive later changes of b.
func (f factSet) addClosed(l lin) {
	var extra []lin
	for _, g := range f {
		s := l.add(g, 1)
		if len(s.co) > 0 && len(s.co) < len(l.co)+len(g.co) && len(s.co) <= 2 {
			extra = append(extra, s)
		}
	}
	f.addGE(l)
	for _, e := range extra {
		f.addGE(e)
	}
}

type termInfo struct {
	lo, hi       int64
	hasLo, hasHi bool
}

type boundsAnalysis struct {
	c *Ctx
	p *core.Prog
	// substExpr: while a helper's guard is read in place, its parameters stand for
	// the operands of the call
	substExpr map[types.Object]ast.Expr
	terms     map[string]termInfo
	// errFacts: pending contracts keyed by the error variable's canonical name
	funcs     map[*core.Func]bool
	pre       map[*core.Func][]precond // inferred preconditions on parameters
	result    map[string]termInfo      // interval summaries of pure integer helpers, keyed by call canon
	hook      func(ast.Node, factSet)  // optional observer of every node with the facts before it
	escaped   map[string]bool          // buffer-length terms whose buffer was handed to a retained writer
	guards    map[*core.Func][]lin     // guardSummary memo
	guardBusy map[*core.Func]bool
}

type precond struct {
	goal lin
	desc string
	pos  token.Pos
}

// linearise turns an integer expression into a linear form over canonical terms.
func (b *boundsAnalysis) linearise(e ast.Expr) (lin, bool) {
	p := b.p
	e = ast.Unparen(e)
	if a, ok := b.operandFor(e); ok {
		save := b.substExpr
		b.substExpr = nil
		l, okL := b.linearise(a)
		b.substExpr = save
		return l, okL
	}
	if v, ok := p.ConstInt(e); ok {
		l := newLin()
		l.k = v
		return l, true
	}
	switch x := e.(type) {
	case *ast.BinaryExpr:
		switch x.Op {
		case token.ADD, token.SUB:
			a, ok1 := b.linearise(x.X)
			c, ok2 := b.linearise(x.Y)
			if ok1 && ok2 {
				if x.Op == token.ADD {
					return a.add(c, 1), true
				}
				return a.add(c, -1), true
			}
		case token.MUL:
			if k, ok := p.ConstInt(x.X); ok {
				if a, ok := b.linearise(x.Y); ok {
					return newLin().add(a, k), true
				}
			}
			if k, ok := p.ConstInt(x.Y); ok {
				if a, ok := b.linearise(x.X); ok {
					return newLin().add(a, k), true
				}
			}
		case token.REM:
			if k, ok := p.ConstInt(x.Y); ok && k > 0 {
				t := b.canon(e)
				b.noteTerm(t, termInfo{lo: 0, hi: k - 1, hasLo: true, hasHi: true})
				l := newLin()
				l.co[t] = 1
				return l, true
			}
		}
	case *ast.CallExpr:
		if p.IsConversion(x) && len(x.Args) == 1 {
			// integer conversions: transparent when the source range fits (sources here are
			// bytes / uint16 / lengths); the source's type bounds are recorded on its term
			if isIntegerT(p.TypeOf(x.Fun)) && isIntegerT(p.TypeOf(x.Args[0])) {
				return b.linearise(x.Args[0])
			}
		}
		if bi := p.Builtin(x); bi == "len" && len(x.Args) == 1 {
			arg := ast.Unparen(x.Args[0])
			// len of a fixed-size array
			if at, ok := p.TypeOf(arg).Underlying().(*types.Array); ok {
				l := newLin()
				l.k = at.Len()
				return l, true
			}
			t := "len(" + b.sliceName(arg) + ")"
			b.noteTerm(t, termInfo{lo: 0, hasLo: true})
			l := newLin()
			l.co[t] = 1
			return l, true
		}
		if f := p.Callee(x); f != nil {
			switch core.FuncFullName(f) {
			case "bytes.Buffer.Len":
				if se, ok := ast.Unparen(x.Fun).(*ast.SelectorExpr); ok {
					t := "len(buf:" + b.canon(se.X) + ")"
					b.noteTerm(t, termInfo{lo: 0, hasLo: true})
					l := newLin()
					l.co[t] = 1
					return l, true
				}
			case "bufio.Reader.Buffered":
				t := b.canon(e)
				b.noteTerm(t, termInfo{lo: 0, hasLo: true})
				l := newLin()
				l.co[t] = 1
				return l, true
			}
		}
		// pure integer helper of the package: interval summary
		if f := p.Callee(x); f != nil && f.Pkg() == p.Types {
			if fi := p.ByObj[f]; fi != nil {
				if lo, hi, ok := b.evalInterval(fi, x.Args, 0); ok {
					t := b.canon(e)
					b.noteTerm(t, termInfo{lo: lo, hi: hi, hasLo: true, hasHi: true})
					l := newLin()
					l.co[t] = 1
					return l, true
				}
			}
		}
	}
	if !isIntegerT(p.TypeOf(e)) {
		return lin{}, false
	}
	t := b.canon(e)
	b.noteTypeBounds(t, p.TypeOf(e))
	l := newLin()
	l.co[t] = 1
	return l, true
}

// sliceName names a slice-valued expression; buffer.Bytes() is named after the buffer.
func (b *boundsAnalysis) sliceName(e ast.Expr) string {
	p := b.p
	if a, ok := b.operandFor(ast.Unparen(e)); ok {
		save := b.substExpr
		b.substExpr = nil
		s := b.sliceName(a)
		b.substExpr = save
		return s
	}
	if call, ok := ast.Unparen(e).(*ast.CallExpr); ok {
		if f := p.Callee(call); f != nil && core.FuncFullName(f) == "bytes.Buffer.Bytes" {
			if se, ok := ast.Unparen(call.Fun).(*ast.SelectorExpr); ok {
				return "buf:" + b.canon(se.X)
			}
		}
	}
	return b.canon(e)
}

func isIntegerT(t types.Type) bool {
	if t == nil {
		return false
	}
	bt, ok := t.Underlying().(*types.Basic)
	return ok && bt.Info()&types.IsInteger != 0
}

func (b *boundsAnalysis) noteTerm(t string, ti termInfo) {
	old, ok := b.terms[t]
	if !ok {
		b.terms[t] = ti
		return
	}
	if ti.hasLo && (!old.hasLo || ti.lo > old.lo) {
		old.lo, old.hasLo = ti.lo, true
	}
	if ti.hasHi && (!old.hasHi || ti.hi < old.hi) {
		old.hi, old.hasHi = ti.hi, true
	}
	b.terms[t] = old
}

func (b *boundsAnalysis) noteTypeBounds(t string, typ types.Type) {
	bt, ok := typ.Underlying().(*types.Basic)
	if !ok {
		return
	}
	switch bt.Kind() {
	case types.Uint8:
		b.noteTerm(t, termInfo{lo: 0, hi: 255, hasLo: true, hasHi: true})
	case types.Uint16:
		b.noteTerm(t, termInfo{lo: 0, hi: 65535, hasLo: true, hasHi: true})
	case types.Uint32:
		b.noteTerm(t, termInfo{lo: 0, hi: 4294967295, hasLo: true, hasHi: true})
	case types.Uint, types.Uint64, types.Uintptr:
		b.noteTerm(t, termInfo{lo: 0, hasLo: true})
	}
}

// evalInterval evaluates a pure integer helper over intervals of its
// arguments (constants exact, anything else unknown within its type bounds).
func (b *boundsAnalysis) evalInterval(fn *core.Func, args []ast.Expr, depth int) (int64, int64, bool) {
	p := b.p
	if depth > 2 || fn.Decl.Type.Results == nil || len(fn.Decl.Type.Results.List) != 1 || !isIntegerT(p.TypeOf(fn.Decl.Type.Results.List[0].Type)) {
		return 0, 0, false
	}
	type iv struct {
		lo, hi int64
		ok     bool
	}
	env := map[types.Object]iv{}
	i := 0
	for _, f := range fn.Decl.Type.Params.List {
		for _, n := range f.Names {
			if i < len(args) {
				if v, ok := p.ConstInt(args[i]); ok {
					env[p.Info.Defs[n]] = iv{v, v, true}
				} else {
					lo, hi := int64(-1<<40), int64(1<<40)
					if bt, ok := p.TypeOf(args[i]).Underlying().(*types.Basic); ok && bt.Info()&types.IsUnsigned != 0 {
						lo = 0
						if bt.Kind() == types.Uint8 {
							hi = 255
						}
					}
					env[p.Info.Defs[n]] = iv{lo, hi, true}
				}
			}
			i++
		}
	}
	var eval func(e ast.Expr) iv
	eval = func(e ast.Expr) iv {
		e = ast.Unparen(e)
		if v, ok := p.ConstInt(e); ok {
			return iv{v, v, true}
		}
		switch x := e.(type) {
		case *ast.Ident:
			if v, ok := env[p.Info.Uses[x]]; ok {
				return v
			}
		case *ast.BinaryExpr:
			a, c := eval(x.X), eval(x.Y)
			if !a.ok || !c.ok {
				return iv{}
			}
			switch x.Op {
			case token.ADD:
				return iv{a.lo + c.lo, a.hi + c.hi, true}
			case token.SUB:
				return iv{a.lo - c.hi, a.hi - c.lo, true}
			case token.REM:
				if c.lo == c.hi && c.lo > 0 {
					if a.lo == a.hi && a.lo >= 0 {
						return iv{a.lo % c.lo, a.lo % c.lo, true}
					}
					if a.lo >= 0 {
						return iv{0, c.lo - 1, true}
					}
				}
			case token.MUL:
				if a.lo >= 0 && c.lo >= 0 {
					return iv{a.lo * c.lo, a.hi * c.hi, true}
				}
			}
		case *ast.CallExpr:
			if p.IsConversion(x) && len(x.Args) == 1 {
				return eval(x.Args[0])
			}
		}
		return iv{}
	}
	// walk the body: assignments of fresh locals, if statements, returns; collect the hull of all returns
	res := iv{}
	okAll := true
	var walk func(stmts []ast.Stmt)
	walk = func(stmts []ast.Stmt) {
		for _, s := range stmts {
			switch v := s.(type) {
			case *ast.ReturnStmt:
				if len(v.Results) != 1 {
					okAll = false
					return
				}
				r := eval(v.Results[0])
				if !r.ok {
					okAll = false
					return
				}
				if !res.ok {
					res = r
				} else {
					if r.lo < res.lo {
						res.lo = r.lo
					}
					if r.hi > res.hi {
						res.hi = r.hi
					}
				}
			case *ast.IfStmt:
				walk(v.Body.List)
				if v.Else != nil {
					if bl, ok := v.Else.(*ast.BlockStmt); ok {
						walk(bl.List)
					} else {
						okAll = false
					}
				}
			case *ast.AssignStmt:
				if len(v.Lhs) == 1 && len(v.Rhs) == 1 && v.Tok == token.DEFINE {
					if id, ok := v.Lhs[0].(*ast.Ident); ok {
						env[p.Info.Defs[id]] = eval(v.Rhs[0])
						continue
					}
				}
				okAll = false
			case *ast.SwitchStmt:
				for _, cc := range v.Body.List {
					walk(cc.(*ast.CaseClause).Body)
				}
			case *ast.ExprStmt:
				// panic(...) in a default branch: no value returned on that path
				if call, ok := v.X.(*ast.CallExpr); ok && p.Builtin(call) == "panic" {
					continue
				}
				okAll = false
			default:
				okAll = false
			}
		}
	}
	walk(fn.Decl.Body.List)
	if !okAll || !res.ok {
		return 0, 0, false
	}
	return res.lo, res.hi, true
}

// condFacts extracts the facts a condition establishes on its true (pos) or false edge.
func (b *boundsAnalysis) condFacts(e ast.Expr, pos bool, out factSet, errFacts map[string][]lin) {
	p := b.p
	e = ast.Unparen(e)
	switch x := e.(type) {
	case *ast.UnaryExpr:
		if x.Op == token.NOT {
			b.condFacts(x.X, !pos, out, errFacts)
		}
		return
	case *ast.CallExpr:
		// a guard moved into a small helper: `return <boolean expression over the
		// parameters>` is read with the operands substituted for the parameters
		if f := p.Callee(x); f != nil && f.Pkg() == p.Types && len(b.substExpr) == 0 {
			if fi := p.ByObj[f]; fi != nil && fi.Decl.Body != nil && len(fi.Decl.Body.List) == 1 && fi.Decl.Recv == nil {
				if rs, ok := fi.Decl.Body.List[0].(*ast.ReturnStmt); ok && len(rs.Results) == 1 && !f.Type().(*types.Signature).Variadic() {
					sub := map[types.Object]ast.Expr{}
					i := 0
					okArgs := true
					for _, fl := range fi.Decl.Type.Params.List {
						for _, n := range fl.Names {
							if i >= len(x.Args) {
								okArgs = false
								break
							}
							// operands must be side-effect free: no calls other than len / conversions
							ast.Inspect(x.Args[i], func(nd ast.Node) bool {
								if c2, isCall := nd.(*ast.CallExpr); isCall && !p.IsConversion(c2) && p.Builtin(c2) != "len" {
									okArgs = false
								}
								return true
							})
							sub[p.Info.Defs[n]] = x.Args[i]
							i++
						}
					}
					if okArgs && i == len(x.Args) {
						b.substExpr = sub
						b.condFacts(rs.Results[0], pos, out, errFacts)
						b.substExpr = nil
					}
				}
			}
		}
		return
	case *ast.BinaryExpr:
		switch x.Op {
		case token.LAND:
			if pos {
				b.condFacts(x.X, true, out, errFacts)
				b.condFacts(x.Y, true, out, errFacts)
			}
			return
		case token.LOR:
			if !pos {
				b.condFacts(x.X, false, out, errFacts)
				b.condFacts(x.Y, false, out, errFacts)
			}
			return
		}
		op := x.Op
		if !pos {
			op = core.NegOp(op)
		}
		// err == nil edges activate pending library contracts
		if (op == token.EQL) && (isNilIdent(p, x.Y) || isNilIdent(p, x.X)) {
			o := x.X
			if isNilIdent(p, x.X) {
				o = x.Y
			}
			for _, f := range errFacts[b.canon(o)] {
				out.addGE(f)
			}
			return
		}
		a, ok1 := b.linearise(x.X)
		c, ok2 := b.linearise(x.Y)
		if !ok1 || !ok2 {
			return
		}
		switch op {
		case token.LSS: // a < c  =>  c - a - 1 >= 0
			l := c.add(a, -1)
			l.k--
			out.addGE(l)
		case token.LEQ:
			out.addGE(c.add(a, -1))
		case token.GTR:
			l := a.add(c, -1)
			l.k--
			out.addGE(l)
		case token.GEQ:
			out.addGE(a.add(c, -1))
		case token.EQL:
			out.addGE(a.add(c, -1))
			out.addGE(c.add(a, -1))
		case token.NEQ:
			// x != 0 with x >= 0 known from its type  =>  x >= 1
			d := a.add(c, -1)
			if b.prove(d, out) { // d >= 0 and d != 0  =>  d >= 1
				l := d.clone()
				l.k--
				out.addGE(l)
			} else if e := newLin().add(d, -1); b.prove(e, out) {
				l := e.clone()
				l.k--
				out.addGE(l)
			}
		}
	}
}

// prove: goal >= 0 follows from the facts (and the type bounds of the terms).
func (b *boundsAnalysis) prove(goal lin, facts factSet) bool {
	if len(goal.co) == 0 {
		return goal.k >= 0
	}
	// candidate facts: those sharing a term with the goal, plus type bounds
	var cands []lin
	seen := map[string]bool{}
	addC := func(l lin) {
		k := l.String()
		if !seen[k] {
			seen[k] = true
			cands = append(cands, l)
		}
	}
	// relevance by breadth-first levels over shared terms, in a fixed order (the
	// verdict must not depend on map iteration order): level 0 = facts sharing
	// a term with the goal, level 1 = facts sharing a term with those, ...
	relevant := map[string]bool{}
	for t := range goal.co {
		relevant[t] = true
	}
	fkeys := make([]string, 0, len(facts))
	for k := range facts {
		fkeys = append(fkeys, k)
	}
	sort.Strings(fkeys)
	level := map[string]int{}
	for lv := 0; lv < 3; lv++ {
		var newTerms []string
		for _, k := range fkeys {
			if _, done := level[k]; done {
				continue
			}
			f := facts[k]
			hit := false
			for t := range f.co {
				if relevant[t] {
					hit = true
					break
				}
			}
			if hit {
				level[k] = lv
				for t := range f.co {
					newTerms = append(newTerms, t)
				}
			}
		}
		if len(newTerms) == 0 {
			break
		}
		for _, t := range newTerms {
			relevant[t] = true
		}
	}
	type lc struct {
		l  lin
		lv int
		s  string
	}
	var lcs []lc
	for _, k := range fkeys {
		if lv, ok := level[k]; ok {
			lcs = append(lcs, lc{facts[k], lv, k})
		}
	}
	sort.Slice(lcs, func(i, j int) bool {
		if lcs[i].lv != lcs[j].lv {
			return lcs[i].lv < lcs[j].lv
		}
		if len(lcs[i].l.co) != len(lcs[j].l.co) {
			return len(lcs[i].l.co) < len(lcs[j].l.co)
		}
		return lcs[i].s < lcs[j].s
	})
	if len(lcs) > 16 {
		lcs = lcs[:16]
	}
	for _, c := range lcs {
		addC(c.l)
	}
	rts := make([]string, 0, len(relevant))
	for t := range relevant {
		rts = append(rts, t)
	}
	sort.Strings(rts)
	for _, t := range rts {
		ti := b.terms[t]
		if ti.hasLo {
			l := newLin()
			l.co[t] = 1
			l.k = -ti.lo
			addC(l)
		}
		if ti.hasHi {
			l := newLin()
			l.co[t] = -1
			l.k = ti.hi
			addC(l)
		}
	}
	// search goal = sum(lambda_i * cand_i) + c with c >= 0: eliminate the residual's
	// terms one at a time, each with a candidate that cancels it exactly
	var rec func(cur lin, depth int) bool
	rec = func(cur lin, depth int) bool {
		if len(cur.co) == 0 {
			return cur.k >= 0
		}
		if depth == 5 {
			return false
		}
		// pick the lexicographically first term of the residual
		var t string
		for term := range cur.co {
			if t == "" || term < t {
				t = term
			}
		}
		ct := cur.co[t]
		for _, cand := range cands {
			fc, ok := cand.co[t]
			if !ok || (fc > 0) != (ct > 0) {
				continue // subtracting lambda*cand must move the coefficient towards zero
			}
			if ct%fc != 0 {
				continue
			}
			m := ct / fc
			if m < 1 || m > 3 {
				continue
			}
			if rec(cur.add(cand, -m), depth+1) {
				return true
			}
		}
		return false
	}
	return rec(goal, 0)
}

// ---------------------------------------------------------------------------
// dataflow

type bsite struct {
	fn    *core.Func
	pos   token.Pos
	desc  string
	goals []lin
	gdesc []string
	facts factSet
}

func (b *boundsAnalysis) analyseFunc(fn *core.Func, body *ast.BlockStmt, inScope func(ast.Expr) bool, entry factSet) []*bsite {
	p := b.p
	g := cfg.New(body, func(call *ast.CallExpr) bool { return p.Builtin(call) != "panic" })
	if len(g.Blocks) == 0 {
		return nil
	}
	b.escaped = nil
	conds := map[ast.Expr]bool{}
	ast.Inspect(body, func(n ast.Node) bool {
		switch s := n.(type) {
		case *ast.FuncLit:
			return false
		case *ast.IfStmt:
			conds[s.Cond] = true
		case *ast.ForStmt:
			if s.Cond != nil {
				conds[s.Cond] = true
			}
		case *ast.SwitchStmt:
			if s.Tag == nil {
				for _, cc := range s.Body.List {
					for _, e := range cc.(*ast.CaseClause).List {
						conds[e] = true
					}
				}
			}
		}
		return true
	})
	in := map[*cfg.Block]factSet{}
	errIn := map[*cfg.Block]map[string][]lin{}
	seen := map[*cfg.Block]bool{}
	in[g.Blocks[0]] = entry.clone()
	errIn[g.Blocks[0]] = map[string][]lin{}
	seen[g.Blocks[0]] = true
	work := []*cfg.Block{g.Blocks[0]}
	var sites []*bsite
	process := func(blk *cfg.Block, record bool) (factSet, map[string][]lin, ast.Expr) {
		facts := in[blk].clone()
		errFacts := map[string][]lin{}
		for k, v := range errIn[blk] {
			errFacts[k] = v
		}
		if blk.Kind == cfg.KindRangeBody {
			if rs, ok := blk.Stmt.(*ast.RangeStmt); ok {
				b.rangeFacts(rs, facts)
			}
		}
		nodes := blk.Nodes
		var cond ast.Expr
		if len(blk.Succs) == 2 && len(nodes) > 0 {
			if e, ok := nodes[len(nodes)-1].(ast.Expr); ok && conds[e] {
				cond = e
			}
		}
		for _, n := range nodes {
			if record {
				b.collect(fn, n, facts, inScope, &sites)
				if b.hook != nil {
					b.hook(n, facts)
				}
			}
			b.transfer(n, facts, errFacts)
			for t := range b.escaped {
				b.growTerm(facts, t)
			}
		}
		return facts, errFacts, cond
	}
	visits := map[*cfg.Block]int{}
	iter := 0
	for len(work) > 0 && iter < 4000 {
		iter++
		blk := work[0]
		work = work[1:]
		facts, errFacts, cond := process(blk, false)
		for i, s := range blk.Succs {
			out := facts.clone()
			if cond != nil {
				b.condFacts(cond, i == 0, out, errFacts)
			}
			if !seen[s] {
				seen[s] = true
				in[s] = out
				errIn[s] = errFacts
				work = append(work, s)
				continue
			}
			joined := b.join(in[s], out)
			visits[s]++
			if visits[s] > 6 {
				// widening: a fact that keeps changing (a constant creeping along a loop) is
				// dropped - from now on only facts already recorded at s that the new
				// predecessor state still implies survive, so the set at s can only shrink and
				// the iteration terminates
				w := factSet{}
				for k, f := range in[s] {
					if _, ok := out[k]; ok || b.prove(f, out) {
						w[k] = f
					}
				}
				joined = w
			}
			if !sameFactKeys(joined, in[s]) {
				in[s] = joined
				work = append(work, s)
			}
		}
	}
	if len(work) > 0 {
		fail("bounds dataflow of %s did not converge within %d steps", fn.Name, iter)
	}
	for _, blk := range g.Blocks {
		if seen[blk] && blk.Live {
			process(blk, true)
		}
	}
	return sites
}

// join keeps the facts of each side that the other side implies.
func (b *boundsAnalysis) join(a, c factSet) factSet {
	out := factSet{}
	for k, f := range a {
		if _, ok := c[k]; ok || b.prove(f, c) {
			out[k] = f
		}
	}
	for k, f := range c {
		if _, ok := out[k]; !ok && b.prove(f, a) {
			out[k] = f
		}
	}
	return out
}

func (b *boundsAnalysis) rangeFacts(rs *ast.RangeStmt, facts factSet) {
	p := b.p
	key, _ := rs.Key.(*ast.Ident)
	if key == nil || key.Name == "_" {
		return
	}
	kt := p.Canon(key)
	b.killTerm(facts, kt)
	if _, isFunc := p.TypeOf(rs.X).Underlying().(*types.Signature); isFunc {
		// range over an iterator: the only one modelled is slices.Chunk(s, n), whose every
		// yielded slice has between 1 and n elements (standard library contract)
		b.killTerm(facts, "len("+b.sliceName(key)+")")
		if call, isCall := ast.Unparen(rs.X).(*ast.CallExpr); isCall && len(call.Args) == 2 {
			if f := p.Callee(call); f != nil && core.FuncFullName(f) == "slices.Chunk" {
				if n, okN := b.linearise(call.Args[1]); okN {
					t := "len(" + b.sliceName(key) + ")"
					b.noteTerm(t, termInfo{lo: 0, hasLo: true})
					ll := newLin()
					ll.co[t] = 1
					lo := ll.clone()
					lo.k--
					facts.addGE(lo)            // len(chunk) - 1 >= 0
					facts.addGE(n.add(ll, -1)) // n - len(chunk) >= 0
				}
			}
		}
		return
	}
	var upper lin
	ok := false
	if isIntegerT(p.TypeOf(rs.X)) {
		upper, ok = b.linearise(rs.X)
	} else if _, isMap := p.TypeOf(rs.X).Underlying().(*types.Map); !isMap {
		upper, ok = b.linearise(&ast.CallExpr{Fun: ast.NewIdent("len"), Args: []ast.Expr{rs.X}})
		if !ok {
			t := "len(" + b.sliceName(rs.X) + ")"
			b.noteTerm(t, termInfo{lo: 0, hasLo: true})
			upper = newLin()
			upper.co[t] = 1
			ok = true
		}
	}
	kl := newLin()
	kl.co[kt] = 1
	facts.addGE(kl) // key >= 0
	if ok {
		u := upper.add(kl, -1)
		u.k--
		facts.addGE(u) // upper - key - 1 >= 0
	}
}

func (b *boundsAnalysis) killTerm(facts factSet, term string) {
	for k, f := range facts {
		if f.mentions(term) {
			delete(facts, k)
		}
	}
}

// transfer applies the effect of one CFG node to the facts.
func (b *boundsAnalysis) transfer(n ast.Node, facts factSet, errFacts map[string][]lin) {
	p := b.p
	switch s := n.(type) {
	case *ast.AssignStmt:
		if len(s.Lhs) == len(s.Rhs) {
			for i := range s.Lhs {
				if call, ok := ast.Unparen(s.Rhs[i]).(*ast.CallExpr); ok {
					b.callEffects(call, facts)
				}
				b.assign(s.Lhs[i], s.Rhs[i], s.Tok, facts)
			}
			return
		}
		// tuple from a call: library contracts
		if len(s.Rhs) == 1 {
			for _, l := range s.Lhs {
				if id, ok := l.(*ast.Ident); ok && id.Name != "_" {
					b.killTerm(facts, p.Canon(id))
					delete(errFacts, p.Canon(id))
				}
			}
			if call, ok := ast.Unparen(s.Rhs[0]).(*ast.CallExpr); ok {
				b.contract(call, s.Lhs, facts, errFacts)
				if f := p.Callee(call); f != nil && core.FuncFullName(f) != "io.CopyN" {
					b.callEffects(call, facts)
				}
			}
		}
	case *ast.IncDecStmt:
		if t, ok := b.linearise(s.X); ok && len(t.co) == 1 && t.k == 0 {
			for term := range t.co {
				// x++ : old = new - 1
				r := newLin()
				r.co[term] = 1
				if s.Tok == token.INC {
					r.k = -1
				} else {
					r.k = 1
				}
				b.substTerm(facts, term, r)
			}
		}
	case *ast.ValueSpec:
		for i, name := range s.Names {
			if i < len(s.Values) {
				b.assign(name, s.Values[i], token.DEFINE, facts)
			} else {
				b.killTerm(facts, p.Canon(name))
				if _, isSlice := p.TypeOf(name).Underlying().(*types.Slice); isSlice {
					t := "len(" + p.Canon(name) + ")"
					b.noteTerm(t, termInfo{lo: 0, hasLo: true})
					l := newLin()
					l.co[t] = 1
					facts.addGE(newLin().add(l, -1)) // a nil slice: length 0
				}
				if core.NamedPkgOf(p.TypeOf(name)) == "bytes.Buffer" {
					t := "len(buf:" + p.Canon(name) + ")"
					b.noteTerm(t, termInfo{lo: 0, hasLo: true})
					l := newLin()
					l.co[t] = 1
					facts.addGE(l)
					facts.addGE(newLin().add(l, -1))
				}
			}
		}
	case *ast.ExprStmt:
		if call, ok := s.X.(*ast.CallExpr); ok {
			b.callEffects(call, facts)
		}
	}
}

func (b *boundsAnalysis) substTerm(facts factSet, term string, r lin) {
	for k, f := range facts {
		if _, ok := f.co[term]; ok {
			delete(facts, k)
			nf := f.subst(term, r)
			facts.addGE(nf)
		}
	}
}

// callEffects: buffer growth by method calls used as statements.
func (b *boundsAnalysis) callEffects(call *ast.CallExpr, facts factSet) {
	p := b.p
	f := p.Callee(call)
	if f == nil {
		return
	}
	se, _ := ast.Unparen(call.Fun).(*ast.SelectorExpr)
	switch core.FuncFullName(f) {
	case "bytes.Buffer.WriteByte":
		if se != nil {
			t := "len(buf:" + p.Canon(se.X) + ")"
			r := newLin()
			r.co[t] = 1
			r.k = -1
			b.substTerm(facts, t, r)
		}
	case "bytes.Buffer.Write", "bytes.Buffer.WriteString":
		if se != nil && len(call.Args) == 1 {
			t := "len(buf:" + p.Canon(se.X) + ")"
			if n, ok := b.lenOf(call.Args[0]); ok && !n.mentions(t) {
				r := newLin()
				r.co[t] = 1
				b.substTerm(facts, t, r.add(n, -1))
			} else {
				b.growTerm(facts, t)
			}
		}
	case "bytes.Buffer.Grow":
		// capacity only
	case "bytes.Buffer.Truncate", "bytes.Buffer.Reset":
		if se != nil {
			b.killTerm(facts, "len(buf:"+p.Canon(se.X)+")")
		}
	default:
		// a *bytes.Buffer handed to someone who may write to it: it can only grow
		for _, a := range call.Args {
			a = ast.Unparen(a)
			if u, ok := a.(*ast.UnaryExpr); ok && u.Op == token.AND {
				a = ast.Unparen(u.X)
			}
			if core.NamedPkgOf(p.TypeOf(a)) == "bytes.Buffer" {
				t := "len(buf:" + p.Canon(a) + ")"
				b.growTerm(facts, t)
				if f := p.Callee(call); f == nil || !strings.HasPrefix(core.FuncFullName(f), "io.") {
					if b.escaped == nil {
						b.escaped = map[string]bool{}
					}
					b.escaped[t] = true // whoever got the buffer may write to it at any later point
				}
			}
		}
	}
}

// guardSummary: the facts about fi's parameters (and their lengths) that hold
// at every return of fi that can report success (last result nil, or not
// provably an error).
func (b *boundsAnalysis) guardSummary(fi *core.Func) []lin {
	if b.guards == nil {
		b.guards = map[*core.Func][]lin{}
		b.guardBusy = map[*core.Func]bool{}
	}
	if g, ok := b.guards[fi]; ok {
		return g
	}
	if b.guardBusy[fi] {
		return nil
	}
	b.guardBusy[fi] = true
	defer delete(b.guardBusy, fi)
	p := b.p
	saveHook, saveEsc, saveSub := b.hook, b.escaped, b.substExpr
	b.substExpr = nil
	var rets []factSet
	b.hook = func(n ast.Node, facts factSet) {
		rs, ok := n.(*ast.ReturnStmt)
		if !ok || p.EnclosingFunc(rs) != ast.Node(fi.Decl) {
			return
		}
		if len(rs.Results) > 0 {
			last := rs.Results[len(rs.Results)-1]
			if call, isCall := ast.Unparen(last).(*ast.CallExpr); isCall && len(rs.Results) > 1 {
				if f := p.Callee(call); f != nil && (core.FuncFullName(f) == "fmt.Errorf" || core.FuncFullName(f) == "errors.New") {
					return // certainly an error
				}
			}
			if id, isId := ast.Unparen(last).(*ast.Ident); isId && len(rs.Results) > 1 && !isNilIdent(p, last) {
				// `return ..., err` directly inside `if err != nil { ... }`
				if blk, ok := p.Parent(rs).(*ast.BlockStmt); ok {
					if ifs, ok := p.Parent(blk).(*ast.IfStmt); ok && ifs.Body == blk {
						if be, ok := ast.Unparen(ifs.Cond).(*ast.BinaryExpr); ok && be.Op == token.NEQ && isNilIdent(p, be.Y) {
							if cid, ok := ast.Unparen(be.X).(*ast.Ident); ok && p.Info.Uses[cid] == p.Info.Uses[id] {
								return
							}
						}
					}
				}
			}
		}
		fs := facts.clone()
		// facts about the returned variables are restated about the results ($res<i>)
		for i, r := range rs.Results {
			id, isId := ast.Unparen(r).(*ast.Ident)
			if !isId || isNilIdent(p, r) {
				continue
			}
			cn := p.Canon(id)
			for _, pair := range [][2]string{{cn, fmt.Sprintf("$res%d", i)}, {"len(" + b.sliceName(id) + ")", fmt.Sprintf("len($res%d)", i)}} {
				for _, f := range facts {
					if co, ok := f.co[pair[0]]; ok && co != 0 {
						r := newLin()
						r.co[pair[1]] = 1
						fs.addGE(f.subst(pair[0], r))
					}
				}
			}
		}
		rets = append(rets, fs)
	}
	b.analyseFunc(fi, fi.Decl.Body, func(ast.Expr) bool { return false }, factSet{})
	b.hook, b.escaped, b.substExpr = saveHook, saveEsc, saveSub
	var out []lin
	if len(rets) > 0 {
		keys := make([]string, 0, len(rets[0]))
		for k := range rets[0] {
			keys = append(keys, k)
		}
		sort.Strings(keys)
		for _, k := range keys {
			f := rets[0][k]
			all := true
			for _, o := range rets[1:] {
				if !b.prove(f, o) {
					all = false
					break
				}
			}
			if all {
				out = append(out, f)
			}
		}
	}
	b.guards[fi] = out
	return out
}

// growTerm: the term may have increased by an unknown amount: lower bounds
// on it survive, upper bounds do not.
func (b *boundsAnalysis) growTerm(facts factSet, t string) {
	for k, f := range facts {
		if c, ok := f.co[t]; ok && c < 0 {
			delete(facts, k)
		}
	}
}

// contract installs what a successful library call guarantees.
func (b *boundsAnalysis) contract(call *ast.CallExpr, lhs []ast.Expr, facts factSet, errFacts map[string][]lin) {
	p := b.p
	f := p.Callee(call)
	if f == nil {
		return
	}
	errName := ""
	if len(lhs) >= 2 {
		if id, ok := lhs[len(lhs)-1].(*ast.Ident); ok && id.Name != "_" {
			errName = p.Canon(id)
		}
	}
	// a same-package function whose last result is an error: what holds about its
	// parameters at every return that can report success holds at the caller once the
	// error was checked (a guard extracted into a validating helper)
	if fi := p.ByObj[f]; fi != nil && f.Pkg() == p.Types && errName != "" && fi.Decl.Body != nil && len(b.substExpr) == 0 {
		sig := f.Type().(*types.Signature)
		if !sig.Variadic() && sig.Results().Len() >= 1 && core.TypeStr(p, sig.Results().At(sig.Results().Len()-1).Type()) == "error" {
			var names []string
			for _, fl := range fi.Decl.Type.Params.List {
				if len(fl.Names) == 0 {
					names = append(names, "")
				}
				for _, n := range fl.Names {
					names = append(names, p.Canon(n))
				}
			}
			if len(names) == len(call.Args) {
				for _, fact := range b.guardSummary(fi) {
					g := lin{co: map[string]int64{}, k: fact.k}
					ok := true
					for t, co := range fact.co {
						var a lin
						found := false
						for i, pn := range names {
							if pn == "" {
								continue
							}
							if t == pn {
								a, found = b.linearise(call.Args[i])
							} else if t == "len("+pn+")" {
								a, found = b.lenOf(call.Args[i])
							} else {
								continue
							}
							break
						}
						if !found && strings.Contains(t, "$res") {
							for i, l := range lhs {
								id, isId := ast.Unparen(l).(*ast.Ident)
								if !isId || id.Name == "_" {
									continue
								}
								nt := ""
								if t == fmt.Sprintf("$res%d", i) {
									nt = p.Canon(id)
								} else if t == fmt.Sprintf("len($res%d)", i) {
									nt = "len(" + b.sliceName(id) + ")"
									b.noteTerm(nt, termInfo{lo: 0, hasLo: true})
								}
								if nt != "" {
									a = newLin()
									a.co[nt] = 1
									found = true
								}
							}
						}
						if !found {
							// a term local to the helper with a known constant bound on the useful
							// side is replaced by that bound (x - E >= 0 and E >= lo  =>  x - lo >= 0)
							if ti, known := b.terms[t]; known && co < 0 && ti.hasLo {
								g.k += co * ti.lo
								continue
							} else if known && co > 0 && ti.hasHi {
								g.k += co * ti.hi
								continue
							}
							ok = false
							break
						}
						g = g.add(a, co)
					}
					if ok {
						errFacts[errName] = append(errFacts[errName], g)
					}
				}
			}
		}
		return
	}
	switch core.FuncFullName(f) {
	case "bufio.Reader.Peek": // err == nil  =>  len(result) >= n
		if id, ok := lhs[0].(*ast.Ident); ok && errName != "" && len(call.Args) == 1 {
			if n, ok := b.linearise(call.Args[0]); ok {
				t := "len(" + p.Canon(id) + ")"
				b.noteTerm(t, termInfo{lo: 0, hasLo: true})
				l := newLin()
				l.co[t] = 1
				errFacts[errName] = append(errFacts[errName], l.add(n, -1))
				// and at least n bytes are buffered in the reader afterwards
				if se, ok := ast.Unparen(call.Fun).(*ast.SelectorExpr); ok {
					bt := p.Canon(se.X) + ".Buffered()"
					b.noteTerm(bt, termInfo{lo: 0, hasLo: true})
					bl := newLin()
					bl.co[bt] = 1
					errFacts[errName] = append(errFacts[errName], bl.add(n, -1))
				}
			}
		}
	case "io.CopyN": // err == nil  =>  n bytes were appended to a *bytes.Buffer destination
		if errName != "" && len(call.Args) == 3 {
			if dst, ok := ast.Unparen(call.Args[0]).(*ast.Ident); ok {
				if n, ok := b.linearise(call.Args[2]); ok && core.NamedPkgOf(p.TypeOf(dst)) == "bytes.Buffer" {
					t := "len(buf:" + p.Canon(dst) + ")"
					b.noteTerm(t, termInfo{lo: 0, hasLo: true})
					// new >= old + n is only known if old is known: capture current lower bound
					for _, fct := range facts {
						if c, ok := fct.co[t]; ok && c == 1 {
							// len(buf) - X >= 0  =>  afterwards len(buf) - X - n >= 0
							nl := fct.add(n, -1)
							errFacts[errName] = append(errFacts[errName], nl)
						}
					}
					// on the failure edge fewer bytes may have arrived: only lower bounds survive
					b.growTerm(facts, t)
				}
			}
		}
	case "net.PacketConn.ReadFrom", "net.UDPConn.ReadFrom": // 0 <= n <= len(buf)
		if id, ok := lhs[0].(*ast.Ident); ok && len(call.Args) == 1 {
			nt := p.Canon(id)
			bl, ok2 := b.linearise(&ast.CallExpr{Fun: ast.NewIdent("len"), Args: call.Args})
			_ = bl
			_ = ok2
			t := "len(" + b.sliceName(call.Args[0]) + ")"
			b.noteTerm(t, termInfo{lo: 0, hasLo: true})
			l := newLin()
			l.co[nt] = 1
			facts.addGE(l)
			u := newLin()
			u.co[t] = 1
			u.co[nt] = -1
			facts.addGE(u)
		}
	}
}

// assign handles lhs = rhs for integer and slice values.
func (b *boundsAnalysis) assign(lhs, rhs ast.Expr, tok token.Token, facts factSet) {
	p := b.p
	lhs = ast.Unparen(lhs)
	if id, ok := lhs.(*ast.Ident); ok && id.Name == "_" {
		return
	}
	lk := p.Canon(lhs)
	lt := p.TypeOf(lhs)
	if lt == nil {
		// e.g. the symbol of a type switch: no single type; nothing to track
		b.killTerm(facts, lk)
		return
	}
	if call, ok := ast.Unparen(rhs).(*ast.CallExpr); ok {
		if f := p.Callee(call); f != nil && core.FuncFullName(f) == "bytes.NewBuffer" && len(call.Args) == 1 {
			t := "len(buf:" + lk + ")"
			b.killTerm(facts, lk)
			b.noteTerm(t, termInfo{lo: 0, hasLo: true})
			if n, ok := b.lenOf(call.Args[0]); ok || isNilIdent(p, call.Args[0]) {
				if isNilIdent(p, call.Args[0]) {
					n = newLin()
				}
				l := newLin()
				l.co[t] = 1
				facts.addGE(l.add(n, -1))
				facts.addGE(n.add(l, -1))
			}
			return
		}
	}
	if tok != token.ASSIGN && tok != token.DEFINE {
		// op-assign on an integer: x += e / x -= e
		if isIntegerT(lt) {
			if e, ok := b.linearise(rhs); ok && (tok == token.ADD_ASSIGN || tok == token.SUB_ASSIGN) {
				r := newLin()
				r.co[lk] = 1
				if tok == token.ADD_ASSIGN {
					r = r.add(e, -1)
				} else {
					r = r.add(e, 1)
				}
				if !e.mentions(lk) {
					b.noteTypeBounds(lk, lt)
					b.substTerm(facts, lk, r)
					return
				}
			}
		}
		b.killTerm(facts, lk)
		return
	}
	if isIntegerT(lt) {
		// x = min(a, b) / max(a, b): x is bounded by both operands on one side, and by
		// anything that bounds both operands on the other
		if call, isCall := ast.Unparen(rhs).(*ast.CallExpr); isCall && len(call.Args) == 2 && (p.Builtin(call) == "min" || p.Builtin(call) == "max") {
			a, ok1 := b.linearise(call.Args[0])
			c2, ok2 := b.linearise(call.Args[1])
			if ok1 && ok2 && !a.mentions(lk) && !c2.mentions(lk) {
				isMin := p.Builtin(call) == "min"
				// candidate common bounds: 0 and the single terms of the operands
				cands := []lin{newLin()}
				for _, o := range []lin{a, c2} {
					ts := make([]string, 0, len(o.co))
					for t := range o.co {
						ts = append(ts, t)
					}
					sort.Strings(ts)
					for _, t := range ts {
						l := newLin()
						l.co[t] = 1
						cands = append(cands, l)
					}
				}
				var derived []lin
				for _, t := range cands {
					var g1, g2 lin
					if isMin {
						g1, g2 = a.add(t, -1), c2.add(t, -1) // a >= t and b >= t  =>  min >= t
					} else {
						g1, g2 = t.add(a, -1), t.add(c2, -1) // a <= t and b <= t  =>  max <= t
					}
					if b.prove(g1, facts) && b.prove(g2, facts) {
						derived = append(derived, t)
					}
				}
				b.killTerm(facts, lk)
				b.noteTypeBounds(lk, lt)
				x := newLin()
				x.co[lk] = 1
				if isMin {
					facts.addGE(a.add(x, -1))  // a - x >= 0
					facts.addGE(c2.add(x, -1)) // b - x >= 0
					for _, t := range derived {
						facts.addGE(x.add(t, -1)) // x - t >= 0
					}
				} else {
					facts.addGE(x.add(a, -1))
					facts.addGE(x.add(c2, -1))
					for _, t := range derived {
						facts.addGE(t.add(x, -1))
					}
				}
				return
			}
		}
		e, ok := b.linearise(rhs)
		if ok && !e.mentions(lk) {
			b.killTerm(facts, lk)
			b.noteTypeBounds(lk, lt)
			nonneg := b.prove(e, facts)
			l := newLin()
			l.co[lk] = 1
			facts.addGE(l.add(e, -1))
			facts.addGE(e.add(l, -1))
			if nonneg {
				facts.addGE(l)
			}
			return
		}
		if ok {
			// x = x + c style: substitute
			if c, has := e.co[lk]; has && c == 1 {
				d := e.clone()
				delete(d.co, lk)
				if !d.mentions(lk) {
					r := newLin()
					r.co[lk] = 1
					b.substTerm(facts, lk, r.add(d, -1))
					return
				}
			}
		}
		b.killTerm(facts, lk)
		return
	}
	// slices and strings: track len(lhs)
	switch lt.Underlying().(type) {
	case *types.Slice, *types.Basic:
	default:
		b.killTerm(facts, lk)
		return
	}
	if bt, ok := lt.Underlying().(*types.Basic); ok && bt.Info()&types.IsString == 0 {
		b.killTerm(facts, lk)
		return
	}
	lenL := "len(" + lk + ")"
	b.noteTerm(lenL, termInfo{lo: 0, hasLo: true})
	newLen, ok := b.lenOf(rhs)
	selfRef := ok && newLen.mentions(lk)
	if ok && selfRef {
		// buf = buf[k:]  : len_new = len_old - k  => len_old = len_new + k
		if c, has := newLen.co[lenL]; has && c == 1 {
			d := newLen.clone()
			delete(d.co, lenL)
			if !d.mentions(lk) {
				// facts about other terms mentioning lk (elements) die; len is substituted
				r := newLin()
				r.co[lenL] = 1
				r = r.add(d, -1)
				for k, f := range facts {
					if f.mentions(lk) {
						if _, only := f.co[lenL]; only {
							mentionsOther := false
							for t := range f.co {
								if t != lenL && core.Mentions(t, lk) {
									mentionsOther = true
								}
							}
							if !mentionsOther {
								delete(facts, k)
								facts.addGE(f.subst(lenL, r))
								continue
							}
						}
						delete(facts, k)
					}
				}
				return
			}
		}
		b.killTerm(facts, lk)
		return
	}
	b.killTerm(facts, lk)
	if ok {
		l := newLin()
		l.co[lenL] = 1
		facts.addClosed(l.add(newLen, -1))
		facts.addClosed(newLen.add(l, -1))
	}
}

// lenOf gives the length of a slice-valued expression as a linear form.
func (b *boundsAnalysis) lenOf(e ast.Expr) (lin, bool) {
	p := b.p
	e = ast.Unparen(e)
	if a, ok := b.operandFor(e); ok {
		save := b.substExpr
		b.substExpr = nil
		l, okL := b.lenOf(a)
		b.substExpr = save
		return l, okL
	}
	switch x := e.(type) {
	case *ast.SliceExpr:
		base, ok := b.lenOf(x.X)
		if at, isArr := p.TypeOf(x.X).Underlying().(*types.Array); isArr {
			base = newLin()
			base.k = at.Len()
			ok = true
		}
		lo := newLin()
		if x.Low != nil {
			l, ok2 := b.linearise(x.Low)
			if !ok2 {
				return lin{}, false
			}
			lo = l
		}
		if x.High != nil {
			hi, ok2 := b.linearise(x.High)
			if !ok2 {
				return lin{}, false
			}
			return hi.add(lo, -1), true
		}
		if !ok {
			return lin{}, false
		}
		return base.add(lo, -1), true
	case *ast.CallExpr:
		if p.IsConversion(x) && len(x.Args) == 1 {
			return b.lenOf(x.Args[0])
		}
		switch p.Builtin(x) {
		case "make":
			if len(x.Args) >= 2 {
				return b.linearise(x.Args[1])
			}
		case "append":
			if !x.Ellipsis.IsValid() && len(x.Args) >= 1 {
				if base, ok := b.lenOf(x.Args[0]); ok {
					base = base.clone()
					base.k += int64(len(x.Args) - 1)
					return base, true
				}
			}
		}
	case *ast.CompositeLit:
		l := newLin()
		l.k = int64(len(x.Elts))
		return l, true
	}
	if tv, ok := p.Info.Types[e]; ok && tv.Value != nil && tv.Value.Kind() == constant.String {
		l := newLin()
		l.k = int64(len(constant.StringVal(tv.Value)))
		return l, true
	}
	if at, isArr := p.TypeOf(e).Underlying().(*types.Array); isArr {
		l := newLin()
		l.k = at.Len()
		return l, true
	}
	t := "len(" + b.sliceName(e) + ")"
	b.noteTerm(t, termInfo{lo: 0, hasLo: true})
	l := newLin()
	l.co[t] = 1
	return l, true
}

// collect records the index/slice sites inside node n with the current facts.
// Short-circuit operators are honoured: the right operand of && is judged
// with the facts its left operand establishes (|| with their negation).
func (b *boundsAnalysis) collect(fn *core.Func, n ast.Node, facts factSet, inScope func(ast.Expr) bool, sites *[]*bsite) {
	p := b.p
	ast.Inspect(n, func(m ast.Node) bool {
		switch x := m.(type) {
		case *ast.FuncLit:
			return false
		case *ast.BinaryExpr:
			if x.Op == token.LAND || x.Op == token.LOR {
				b.collect(fn, x.X, facts, inScope, sites)
				f2 := facts.clone()
				b.condFacts(x.X, x.Op == token.LAND, f2, map[string][]lin{})
				b.collect(fn, x.Y, f2, inScope, sites)
				return false
			}
		case *ast.IndexExpr:
			if _, isMap := p.TypeOf(x.X).Underlying().(*types.Map); isMap || !inScope(x.X) {
				return true
			}
			if tv, ok := p.Info.Types[x.X]; ok && tv.IsType() {
				return true // generic instantiation
			}
			idx, ok := b.linearise(x.Index)
			ln, ok2 := b.lenOf(x.X)
			s := &bsite{fn: fn, pos: x.Pos(), desc: p.Canon(x), facts: facts.clone()}
			if !ok || !ok2 {
				s.goals = append(s.goals, lin{co: map[string]int64{"<nonlinear>": 1}, k: -1})
				s.gdesc = append(s.gdesc, "index not linear")
			} else {
				s.goals = append(s.goals, idx)
				s.gdesc = append(s.gdesc, "index >= 0")
				u := ln.add(idx, -1)
				u.k--
				s.goals = append(s.goals, u)
				s.gdesc = append(s.gdesc, "index < len")
			}
			*sites = append(*sites, s)
		case *ast.SliceExpr:
			if !inScope(x.X) {
				return true
			}
			ln, ok := b.lenOf(x.X)
			s := &bsite{fn: fn, pos: x.Pos(), desc: p.Canon(x), facts: facts.clone()}
			lo := newLin()
			okLo, okHi := true, true
			if x.Low != nil {
				lo, okLo = b.linearise(x.Low)
			}
			hi := ln
			if x.High != nil {
				hi, okHi = b.linearise(x.High)
			}
			// s[lo:min(a, b)]: high <= len holds if either operand is within the length;
			// low <= high needs both operands
			if call, isCall := ast.Unparen(x.High).(*ast.CallExpr); x.High != nil && isCall && p.Builtin(call) == "min" && len(call.Args) == 2 && ok && okLo {
				a1, okA := b.linearise(call.Args[0])
				a2, okB := b.linearise(call.Args[1])
				if okA && okB {
					if x.Low != nil {
						s.goals = append(s.goals, lo)
						s.gdesc = append(s.gdesc, "low >= 0")
					}
					s.goals = append(s.goals, a1.add(lo, -1), a2.add(lo, -1))
					s.gdesc = append(s.gdesc, "low <= high", "low <= high")
					if !b.prove(ln.add(a1, -1), facts) && !b.prove(ln.add(a2, -1), facts) {
						s.goals = append(s.goals, ln.add(a1, -1))
						s.gdesc = append(s.gdesc, "high <= len")
					}
					*sites = append(*sites, s)
					return true
				}
			}
			if !ok || !okLo || !okHi {
				s.goals = append(s.goals, lin{co: map[string]int64{"<nonlinear>": 1}, k: -1})
				s.gdesc = append(s.gdesc, "bounds not linear")
			} else {
				if x.Low != nil {
					s.goals = append(s.goals, lo)
					s.gdesc = append(s.gdesc, "low >= 0")
				}
				s.goals = append(s.goals, hi.add(lo, -1))
				s.gdesc = append(s.gdesc, "low <= high")
				if x.High != nil {
					s.goals = append(s.goals, ln.add(hi, -1))
					s.gdesc = append(s.gdesc, "high <= len")
				}
			}
			*sites = append(*sites, s)
		}
		return true
	})
}

// ---------------------------------------------------------------------------
// driver

type callRec struct {
	fn    *core.Func
	call  *ast.CallExpr
	facts factSet
}

// boundsReport is one index/slice site with its verdict.
type boundsReport struct {
	Fn   *core.Func
	Pos  token.Pos
	Desc string
	OK   bool
	Why  string
	Via  string // "local", "precondition at <caller>"
}

// runBounds analyses every function in scope and returns one report per site.
func runBounds(c *Ctx, scope map[*core.Func]bool, inScope func(ast.Expr) bool) []boundsReport {
	b := &boundsAnalysis{c: c, p: c.P, terms: map[string]termInfo{}, funcs: scope, pre: map[*core.Func][]precond{}}
	p := c.P
	sitesByFn := map[*core.Func][]*bsite{}
	calls := map[*core.Func][]callRec{} // callee -> call records
	var fns []*core.Func
	for fn := range scope {
		fns = append(fns, fn)
	}
	sort.Slice(fns, func(i, j int) bool { return fns[i].Name < fns[j].Name })
	for _, fn := range fns {
		sites := b.analyseFunc(fn, fn.Decl.Body, inScope, factSet{})
		// function literals are analysed as separate bodies (no facts flow in)
		ast.Inspect(fn.Decl.Body, func(n ast.Node) bool {
			if fl, ok := n.(*ast.FuncLit); ok {
				sites = append(sites, b.analyseFunc(fn, fl.Body, inScope, factSet{})...)
			}
			return true
		})
		sitesByFn[fn] = sites
	}
	// call records: facts at each call to a function in scope (second pass with a recording scope)
	for _, fn := range fns {
		recs := b.callFacts(fn)
		for _, r := range recs {
			if callee := p.ByObj[p.Callee(r.call)]; callee != nil {
				calls[callee] = append(calls[callee], r)
			}
		}
	}
	var out []boundsReport
	for _, fn := range fns {
		params := map[string]int{}
		i := 0
		for _, f := range fn.Decl.Type.Params.List {
			for _, n := range f.Names {
				params[p.Canon(n)] = i
				i++
			}
		}
		for _, s := range sitesByFn[fn] {
			rep := boundsReport{Fn: fn, Pos: s.pos, Desc: s.desc, OK: true, Via: "local"}
			for gi, g := range s.goals {
				if b.prove(g, s.facts) {
					continue
				}
				// try as a precondition on the callers
				if ok, via := b.proveAtCallers(fn, g, params, calls, 0); ok {
					rep.Via = via
					continue
				}
				// or: one local fact plus a residual that the callers establish
				lifted := false
				for _, f := range s.facts {
					if ok, via := b.proveAtCallers(fn, g.add(f, -1), params, calls, 0); ok {
						rep.Via = "local fact " + f.String() + " and " + via
						lifted = true
						break
					}
				}
				if lifted {
					continue
				}
				rep.OK = false
				rep.Why = fmt.Sprintf("%s not implied: need %s >= 0; known: %s", s.gdesc[gi], g.String(), factsString(s.facts, g))
				break
			}
			out = append(out, rep)
		}
	}
	return out
}

func factsString(f factSet, goal lin) string {
	var ks []string
	for k, l := range f {
		rel := false
		for t := range goal.co {
			if l.mentions(t) || l.co[t] != 0 {
				rel = true
			}
		}
		if rel {
			ks = append(ks, k+" >= 0")
		}
	}
	sort.Strings(ks)
	if len(ks) == 0 {
		return "(no fact about these terms)"
	}
	return strings.Join(ks, "; ")
}

// callFacts re-runs the dataflow of fn recording the facts at every call to a
// declared function.
func (b *boundsAnalysis) callFacts(fn *core.Func) []callRec {
	var recs []callRec
	rec := func(ast.Expr) bool { return false }
	_ = rec
	bodies := []*ast.BlockStmt{fn.Decl.Body}
	ast.Inspect(fn.Decl.Body, func(n ast.Node) bool {
		if fl, ok := n.(*ast.FuncLit); ok {
			bodies = append(bodies, fl.Body)
		}
		return true
	})
	for _, body := range bodies {
		b.withCallHook(fn, body, func(call *ast.CallExpr, facts factSet) {
			recs = append(recs, callRec{fn: fn, call: call, facts: facts.clone()})
		})
	}
	return recs
}

// withCallHook runs the dataflow and invokes hook at every call expression.
func (b *boundsAnalysis) withCallHook(fn *core.Func, body *ast.BlockStmt, hook func(*ast.CallExpr, factSet)) {
	p := b.p
	old := b.hook
	b.hook = func(n ast.Node, facts factSet) {
		ast.Inspect(n, func(m ast.Node) bool {
			if _, ok := m.(*ast.FuncLit); ok {
				return false
			}
			if call, ok := m.(*ast.CallExpr); ok {
				if f := p.Callee(call); f != nil && p.ByObj[f] != nil {
					hook(call, facts)
				}
			}
			return true
		})
	}
	b.analyseFunc(fn, body, func(ast.Expr) bool { return false }, factSet{})
	b.hook = old
}

// proveAtCallers: goal mentions only parameters of fn; prove it at every call site.
func (b *boundsAnalysis) proveAtCallers(fn *core.Func, goal lin, params map[string]int, calls map[*core.Func][]callRec, depth int) (bool, string) {
	p := b.p
	if depth > 3 {
		return false, ""
	}
	// every term must be len(param) or param
	type ref struct {
		idx    int
		isLen  bool
		suffix string
	}
	refs := map[string]ref{}
	for t := range goal.co {
		if i, ok := params[t]; ok {
			refs[t] = ref{idx: i}
			continue
		}
		if strings.HasPrefix(t, "len(") && strings.HasSuffix(t, ")") {
			if i, ok := params[t[4:len(t)-1]]; ok {
				refs[t] = ref{idx: i, isLen: true}
				continue
			}
		}
		// a method call on a parameter, e.g. br.Buffered()
		matched := false
		for pn, i := range params {
			if strings.HasPrefix(t, pn+".") && strings.HasSuffix(t, "()") {
				refs[t] = ref{idx: i, suffix: t[len(pn):]}
				matched = true
			}
		}
		if matched {
			continue
		}
		return false, ""
	}
	sites := calls[fn]
	if len(sites) == 0 {
		return false, ""
	}
	var via []string
	for _, cs := range sites {
		g := lin{co: map[string]int64{}, k: goal.k}
		okSub := true
		for t, r := range refs {
			if r.idx >= len(cs.call.Args) {
				okSub = false
				break
			}
			var a lin
			var ok bool
			if r.suffix != "" {
				nt := p.Canon(cs.call.Args[r.idx]) + r.suffix
				b.noteTerm(nt, b.terms[t])
				a = newLin()
				a.co[nt] = 1
				ok = true
			} else if r.isLen {
				a, ok = b.lenOf(cs.call.Args[r.idx])
			} else {
				a, ok = b.linearise(cs.call.Args[r.idx])
			}
			if !ok {
				okSub = false
				break
			}
			g = g.add(a, goal.co[t])
		}
		if !okSub {
			return false, ""
		}
		if b.prove(g, cs.facts) {
			via = append(via, cs.fn.Name)
			continue
		}
		// lift once more
		cparams := map[string]int{}
		i := 0
		for _, f := range cs.fn.Decl.Type.Params.List {
			for _, n := range f.Names {
				cparams[p.Canon(n)] = i
				i++
			}
		}
		if ok, v := b.proveAtCallers(cs.fn, g, cparams, calls, depth+1); ok {
			via = append(via, cs.fn.Name+"<-"+v)
			continue
		}
		return false, ""
	}
	sort.Strings(via)
	return true, "precondition discharged at call sites in " + strings.Join(via, ", ")
}

// canon is Prog.Canon with the parameter substitution of a guard helper that is
// being read in place.
func (b *boundsAnalysis) canon(e ast.Expr) string {
	return b.p.Canon(e)
}

// replaceIdentIn replaces whole-identifier occurrences of k in s.
func replaceIdentIn(s, k, with string) string {
	var sb strings.Builder
	isId := func(c byte) bool {
		return c == '_' || c == '#' || (c >= '0' && c <= '9') || (c >= 'a' && c <= 'z') || (c >= 'A' && c <= 'Z')
	}
	for i := 0; i < len(s); {
		if strings.HasPrefix(s[i:], k) && (i == 0 || !isId(s[i-1])) && (i+len(k) == len(s) || !isId(s[i+len(k)])) {
			sb.WriteString(with)
			i += len(k)
			continue
		}
		sb.WriteByte(s[i])
		i++
	}
	return sb.String()
}

// operandFor: e is a parameter of the guard helper being read in place.
func (b *boundsAnalysis) operandFor(e ast.Expr) (ast.Expr, bool) {
	if len(b.substExpr) == 0 {
		return nil, false
	}
	id, ok := e.(*ast.Ident)
	if !ok {
		return nil, false
	}
	a, ok := b.substExpr[b.p.Info.Uses[id]]
	return a, ok
}

// sameFactKeys: the two fact sets contain exactly the same facts.
func sameFactKeys(a, b factSet) bool {
	if len(a) != len(b) {
		return false
	}
	for k := range a {
		if _, ok := b[k]; !ok {
			return false
		}
	}
	return true
}
