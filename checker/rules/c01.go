package rules

import (
	"fmt"
	"go/ast"
	"go/token"
	"strings"

	"mlverif/core"
	"mlverif/gea"
)

// atom names produced by the handler spec for the alive handler
const (
	aAddrEq  = "eq(c.Addr,rec.Node.Addr)"
	aPortCmp = "cmp(c.Port,rec.Node.Port)"
	aEvNil   = "m.config.Events==nil"
	aMetaEq  = "eq(c.Meta,rec.Node.Meta)"
	aSelfSig = "eq(c.From,c.Node)"
	lockL    = "LOCK:Lock:m.nodeLock"
	lockU    = "LOCK:Unlock:m.nodeLock"
)

func isLock(e *gea.Effect) bool { return strings.HasPrefix(e.Class, "LOCK:") }

// found / prior state helpers for the alive handler, where a missing record
// is replaced by a freshly inserted one
func aliveFound(g getf) bool { return isT(g, vOK) }
func alivePrior(g getf) string {
	if aliveFound(g) {
		return g(vS0)
	}
	return "StateDead" // the placeholder record is created dead
}
func aliveOrd(g getf) string {
	if aliveFound(g) {
		return g(vOrd)
	}
	return g(vOrd0)
}
func addrSame(g getf) bool { return isT(g, aAddrEq) && g(aPortCmp) == "EQ" }

// canReclaim: a left name, or a dead one whose age has passed the configured
// reclaim time. The boundary (age exactly equal) is accepted either way.
func canReclaim(g getf) bool {
	s := g(vS0)
	return s == "StateLeft" || (s == "StateDead" && isT(g, vReclCf) && g(vAge) != "LT")
}
func canReclaimStrict(g getf) bool {
	s := g(vS0)
	return s == "StateLeft" || (s == "StateDead" && isT(g, vReclCf) && g(vAge) == "GT")
}

// aliveAccepts is the SWIM precedence table for an alive claim: the claim may
// rewrite the record iff this holds.
func aliveAccepts(g getf) bool {
	if isT(g, vLeft) && isT(g, vSelf) {
		return false
	}
	if !aliveFound(g) {
		if !isT(g, vIPOK) {
			return false
		}
		if isT(g, vSelf) {
			return true // ord0 >= EQ always
		}
		return g(vOrd0) == "GT"
	}
	reclaim := false
	if !addrSame(g) {
		if !isT(g, vIPOK) || !canReclaim(g) {
			return false
		}
		reclaim = true
	}
	if isT(g, vSelf) {
		return geq(g, vOrd)
	}
	return g(vOrd) == "GT" || reclaim
}

func checkWriters(c *Ctx, prop string) {
	p := c.P
	hm := c.handlerModels()
	handlers := map[*core.Func]string{hm["alive"].fn: "alive", hm["suspect"].fn: "suspect", hm["dead"].fn: "dead"}
	rule := "closed writer set: only the claim handlers, the refutation helper (Incarnation only) and the reaper (delete/truncate only) modify records, the name table, the timer table or the member list"
	c.Rule(rule)
	n := 0
	for _, fn := range p.SortedFuncs() {
		for _, s := range c.G.Sites[fn] {
			k := s.Kind
			rec := strings.HasPrefix(k, "W:nodeState.")
			tab := k == "MAPINS:Memberlist.nodeMap" || k == "MAPDEL:Memberlist.nodeMap" || k == "MAPINS:Memberlist.nodeTimers" || k == "MAPDEL:Memberlist.nodeTimers" ||
				k == "W:Memberlist.nodes" || k == "WELEM:Memberlist.nodes" || k == "W:Memberlist.nodeMap" || k == "W:Memberlist.nodeTimers"
			if !rec && !tab {
				continue
			}
			n++
			ok := true
			why := ""
			for _, root := range c.rootsOf(fn) {
				sum := c.G.Summary(root)
				switch {
				case handlers[root] != "":
				case rec && k == "W:nodeState.Incarnation" && sum["ATOMICW:Memberlist.incarnation"] && sum["QB"]:
					// refutation helper
				case tab && (k == "MAPDEL:Memberlist.nodeMap" || k == "W:Memberlist.nodes" || k == "WELEM:Memberlist.nodes") && isReaper(c, root):
				default:
					ok = false
					why = fmt.Sprintf("%s in %s, which is not a claim handler, the refutation helper or the reaper", k, root.Name)
				}
			}
			c.Check(fmt.Sprintf("%s/writers/%s/%s", prop, fn.Name, k), rule, s.Pos, ok, why)
		}
	}
	c.Floor("record/table write sites", n, 30)
	// the name table never holds a nil record: every insertion stores the address of a
	// record literal, directly or through a variable assigned exactly that
	ruleN := "every insertion into the name table stores a record built in place (&nodeState{...}): the table holds no nil record, so a lookup yields nil exactly when it misses"
	c.Rule(ruleN)
	ni := 0
	for _, fn := range p.SortedFuncs() {
		for _, s := range c.G.Sites[fn] {
			if s.Kind != "MAPINS:Memberlist.nodeMap" {
				continue
			}
			ni++
			ok := false
			var stmt ast.Node = s.Node
			for i := 0; stmt != nil && i < 3; i++ {
				if _, isA := stmt.(*ast.AssignStmt); isA {
					break
				}
				stmt = p.Parent(stmt)
			}
			if as, isA := stmt.(*ast.AssignStmt); isA && len(as.Lhs) == 1 && len(as.Rhs) == 1 {
				rhs := ast.Unparen(as.Rhs[0])
				if cl := compositeLit(rhs); cl != nil {
					_, isAddr := rhs.(*ast.UnaryExpr)
					ok = isAddr
				} else if id, isId := rhs.(*ast.Ident); isId {
					o := p.Info.Uses[id]
					ok = o != nil
					nasg := 0
					ast.Inspect(fn.Decl.Body, func(n ast.Node) bool {
						a2, isA2 := n.(*ast.AssignStmt)
						if !isA2 {
							return true
						}
						for i, l := range a2.Lhs {
							lid, isL := ast.Unparen(l).(*ast.Ident)
							if !isL || (p.Info.Uses[lid] != o && p.Info.Defs[lid] != o) {
								continue
							}
							nasg++
							if len(a2.Rhs) != len(a2.Lhs) {
								// the lookup that precedes the insertion (v, ok := table[k]): the
								// insertion is then guarded by !ok and re-assigned; accept only when
								// another assignment stores a literal
								continue
							}
							r := ast.Unparen(a2.Rhs[i])
							if u, isU := r.(*ast.UnaryExpr); !isU || u.Op != token.AND || compositeLit(r) == nil {
								ok = false
							}
						}
						return true
					})
					if nasg == 0 {
						ok = false
					}
				}
			}
			c.Check(fmt.Sprintf("%s/table-values-non-nil/%s", prop, c.rootsOf(fn)[0].Name), ruleN, s.Pos, ok, "the value stored in the name table is not a record literal built in "+fn.Name)
		}
	}
	c.Floor("name-table insertions", ni, 1)
	// writes through *Node must target a Node built in the same function
	rule2 := "no record is modified through a *Node alias: every store to a Node field targets a literal built in the same function"
	c.Rule(rule2)
	for _, fn := range p.SortedFuncs() {
		for _, s := range c.G.Sites[fn] {
			if !strings.HasPrefix(s.Kind, "W:Node.") || handlers[fn] != "" {
				continue
			}
			// stores that were also counted as record writes are handled above
			isRec := false
			for _, s2 := range c.G.Sites[fn] {
				if s2.Pos == s.Pos && strings.HasPrefix(s2.Kind, "W:nodeState.") {
					isRec = true
				}
			}
			if isRec {
				continue
			}
			ok := baseIsLocalLiteral(p, fn, s)
			c.Check(fmt.Sprintf("%s/node-alias/%s/%s", prop, fn.Name, s.Kind), rule2, s.Pos, ok, "store to a Node field whose base is not a literal built in "+fn.Name)
		}
	}
}

// isReaper recognises the reaping function: it truncates the member list and
// deletes from the name table, and does nothing else to records.
func isReaper(c *Ctx, fn *core.Func) bool {
	has := map[string]bool{}
	for _, s := range c.sitesOf(fn) {
		has[s.Kind] = true
	}
	for k := range has {
		if strings.HasPrefix(k, "W:nodeState.") || k == "MAPINS:Memberlist.nodeMap" {
			return false
		}
	}
	return has["MAPDEL:Memberlist.nodeMap"] && has["W:Memberlist.nodes"]
}

func checkSerialised(c *Ctx, prop string) {
	rule := "every effect of a claim handler happens while nodeLock is held in write mode (acquired before the lookup, released by the deferred unlock)"
	for _, k := range []string{"alive", "suspect", "dead"} {
		hm := c.handlerModels()[k]
		c.mayRow(hm, prop+"/serialised", rule, func(e *gea.Effect) bool { return !isLock(e) }, func(g getf, e *gea.Effect) bool {
			return e.Seen[lockL] == 1 && e.Seen[lockU] == 0
		})
	}
}

func init() {
	register("C01", func(c *Ctx) {
		hm := c.handlerModels()
		checkProbeSuspectClaim(c, "C01")
		checkWriters(c, "C01")
		checkSerialised(c, "C01")
		c.Assume("a suspicion timer exists only for a record in state suspect (discharged under C06), so clearing a timer for a non-suspect record is a no-op")
		c.Assume("the name table is keyed by the record's own name (single insert site m.nodeMap[a.Node] = state with Name: a.Node, checked here)")

		// ---- dead handler
		d := hm["dead"]
		c.mayRow(d, "C01/dead/any-effect", "dead claim: nothing happens unless the record exists and the claim's incarnation is not older (ok and ord>=EQ)",
			classNotIn("LOCK:*"), func(g getf, e *gea.Effect) bool { return isT(g, vOK) && geq(g, vOrd) })
		c.mayRow(d, "C01/dead/accept", "dead claim rewrites/gossips/notifies only for a record that is alive or suspect (never already dead/left), and never for the local node unless it is leaving",
			classIn("W:*", "BCAST", "EVT:*", "CALL:*", "MAPINS", "MAPDEL", "APPEND", "TIMERNEW", "TIMERSET", "CONFLICT"), func(g getf, e *gea.Effect) bool {
				return !deadOrLeft(g(vS0)) && (!isT(g, vSelf) || isT(g, vLeft))
			})
		c.mayRow(d, "C01/dead/classes", "dead claim: only timer clearing, record (incarnation,state,time) writes, gossip, the leave event and refutation may occur",
			classNotIn("LOCK:*", "TIMERDEL", "BCAST", "W:Incarnation", "W:State", "W:StateChange", "EVT:Leave", "REFUTE"), func(g getf, e *gea.Effect) bool { return false })
		c.mayRow(d, "C01/dead/values", "dead claim: the incarnation stored is the claim's; the state stored is dead or left",
			classIn("W:Incarnation", "W:State"), func(g getf, e *gea.Effect) bool {
				if e.Class == "W:Incarnation" {
					return e.Detail["val"] == "c.Incarnation" && e.Detail["target"] == "rec"
				}
				return (e.Detail["val"] == "StateDead" || e.Detail["val"] == "StateLeft") && e.Detail["target"] == "rec"
			})
		c.mustRow(d, "C01/dead/accept-complete", "dead claim that is not older, about an alive/suspect non-local record: state, incarnation and time are written, the timer cleared and the claim re-gossiped on every path",
			[]string{"W:State", "W:Incarnation", "W:StateChange", "BCAST", "TIMERDEL"}, func(g getf) bool {
				return isT(g, vOK) && geq(g, vOrd) && !deadOrLeft(g(vS0)) && !isT(g, vSelf)
			})

		// ---- suspect handler
		s := hm["suspect"]
		c.mayRow(s, "C01/suspect/any-effect", "suspect claim: nothing happens unless the record exists and the claim's incarnation is not older",
			classNotIn("LOCK:*"), func(g getf, e *gea.Effect) bool { return isT(g, vOK) && geq(g, vOrd) })
		c.mayRow(s, "C01/suspect/timer", "suspect claim with a suspicion already running: only a confirmation (and its re-gossip) may occur",
			classNotIn("LOCK:*", "CONFIRM", "BCAST"), func(g getf, e *gea.Effect) bool { return !isT(g, vTimer) })
		c.mayRow(s, "C01/suspect/accept", "suspect claim rewrites the record / arms a timer only for an alive, non-local record with no timer",
			classIn("W:*", "TIMERNEW", "TIMERSET", "EVT:*", "MAPINS", "MAPDEL", "APPEND", "CALL:*", "CONFLICT", "TIMERDEL"), func(g getf, e *gea.Effect) bool {
				return !isT(g, vTimer) && g(vS0) == "StateAlive" && !isT(g, vSelf)
			})
		c.mayRow(s, "C01/suspect/gossip", "suspect claim is re-gossiped only when it confirmed a running suspicion as new information or started one for an alive non-local record",
			classIn("BCAST"), func(g getf, e *gea.Effect) bool {
				if isT(g, vTimer) {
					return e.Seen["CONFIRM"] == 1
				}
				return g(vS0) == "StateAlive" && !isT(g, vSelf)
			})
		c.mayRow(s, "C01/suspect/classes", "suspect claim: only confirmation, gossip, record (incarnation,state,time) writes, timer creation and refutation may occur",
			classNotIn("LOCK:*", "CONFIRM", "BCAST", "W:Incarnation", "W:State", "W:StateChange", "TIMERNEW", "TIMERSET", "REFUTE", "ATOMICW:Memberlist.numNodes"), func(g getf, e *gea.Effect) bool { return false })
		c.mayRow(s, "C01/suspect/values", "suspect claim: the incarnation stored is the claim's; the state stored is suspect",
			classIn("W:Incarnation", "W:State"), func(g getf, e *gea.Effect) bool {
				if e.Class == "W:Incarnation" {
					return e.Detail["val"] == "c.Incarnation" && e.Detail["target"] == "rec"
				}
				return e.Detail["val"] == "StateSuspect" && e.Detail["target"] == "rec"
			})
		c.mustRow(s, "C01/suspect/accept-complete", "suspect claim that is not older, about an alive non-local record with no timer: state, incarnation, time written, timer armed and registered, claim re-gossiped on every path",
			[]string{"W:State", "W:Incarnation", "W:StateChange", "BCAST", "TIMERNEW", "TIMERSET"}, func(g getf) bool {
				return isT(g, vOK) && geq(g, vOrd) && !isT(g, vTimer) && g(vS0) == "StateAlive" && !isT(g, vSelf)
			})

		// ---- alive handler
		a := hm["alive"]
		accept := classIn("W:*", "TIMERDEL", "BCAST", "EVT:*", "REFUTE", "TIMERNEW", "TIMERSET", "MAPDEL", "CALL:*")
		c.mayRow(a, "C01/alive/accept", "alive claim changes the record, clears a timer, gossips, notifies or refutes only when the precedence table accepts it: strictly newer incarnation (not older, for the local node), or a legitimate reclaim by a different allowed address of a left / long-dead name",
			func(e *gea.Effect) bool { return accept(e) && e.Class != "W:nodes" }, func(g getf, e *gea.Effect) bool {
				if strings.HasPrefix(e.Class, "W:") && e.Seen["MAPINS"] == 0 && !aliveFound(g) {
					// initialisation of the placeholder before it is published
					return isT(g, vIPOK) && !(isT(g, vLeft) && isT(g, vSelf))
				}
				return aliveAccepts(g)
			})
		c.mayRow(a, "C01/alive/insert", "alive claim inserts a record only for an unknown name with an allowed address",
			classIn("MAPINS", "APPEND", "NODESWAP", "W:nodes", "ATOMICW:Memberlist.numNodes"), func(g getf, e *gea.Effect) bool {
				return !aliveFound(g) && isT(g, vIPOK) && !(isT(g, vLeft) && isT(g, vSelf))
			})
		c.mayRow(a, "C01/alive/conflict", "the conflict callback fires only for a different address that may not take the name over, and nothing else happens on that path",
			classIn("CONFLICT"), func(g getf, e *gea.Effect) bool {
				return aliveFound(g) && !addrSame(g) && isT(g, vIPOK) && !canReclaimStrict(g) && !(isT(g, vLeft) && isT(g, vSelf))
			})
		c.Rule("after the conflict callback no record write, gossip, event or timer change happens")
		for _, ex := range a.x.Exits {
			if ex.Seen["CONFLICT"] == 0 {
				continue
			}
			bad := ""
			for k := range ex.Seen {
				if k != "CONFLICT" && !strings.HasPrefix(k, "LOCK:") && k != "ALIVEDELEGATE" {
					bad += k + " "
				}
			}
			c.Check("C01/alive/conflict-only", "after the conflict callback no record write, gossip, event or timer change happens", ex.Pos, bad == "", "conflict path also performs "+bad)
		}
		c.mayRow(a, "C01/alive/classes", "alive claim: only the listed effect classes may occur",
			classNotIn("LOCK:*", "ALIVEDELEGATE", "MAPINS", "APPEND", "NODESWAP", "W:*", "ATOMICW:Memberlist.numNodes", "TIMERDEL", "BCAST", "REFUTE", "EVT:Join", "EVT:Update", "CONFLICT"),
			func(g getf, e *gea.Effect) bool { return false })
		c.mayRow(a, "C01/alive/values", "alive claim: what is stored in the record is the claim's incarnation, address, port, metadata; the state stored is alive",
			classIn("W:Incarnation", "W:Addr", "W:Port", "W:Meta", "W:State"), func(g getf, e *gea.Effect) bool {
				if e.Seen["MAPINS"] == 0 && !aliveFound(g) {
					return true
				}
				want := map[string]string{"W:Incarnation": "c.Incarnation", "W:Addr": "c.Addr", "W:Port": "c.Port", "W:Meta": "c.Meta", "W:State": "StateAlive"}[e.Class]
				return e.Detail["val"] == want && e.Detail["target"] == "rec"
			})
		// existence of the accepting path and completeness of the update
		c.existsRow(a, "C01/alive/accept-complete", "alive claim with a strictly newer incarnation about a known non-local record at the same address: for every prior state there is a path (delegates consenting) that stores incarnation, metadata, address, port, clears the timer and re-gossips",
			[]string{"W:Incarnation", "W:Meta", "W:Addr", "W:Port", "BCAST", "TIMERDEL"}, []string{vOK, vS0, vOrd, vSelf, vLeft, aAddrEq, aPortCmp}, func(g getf) bool {
				return aliveFound(g) && !isT(g, vSelf) && addrSame(g) && g(vOrd) == "GT"
			})
		checkAliveVersions(c, "C01")
		c.Rule("alive claim: the update is all-or-nothing (incarnation, metadata, address, port written together with the re-gossip)")
		for _, ex := range a.x.Exits {
			set := []string{"W:Incarnation", "W:Meta", "W:Addr", "W:Port", "BCAST", "TIMERDEL"}
			nset := 0
			for _, k := range set {
				if ex.Seen[k] > 0 || (k == "TIMERDEL" && ex.Cube[vTimer] == "F") {
					nset++
				}
			}
			// the placeholder initialisation writes Addr/Port/Meta too; only
			// judge exits that stored the incarnation
			if ex.Seen["W:Incarnation"] > 0 {
				c.Check("C01/alive/update-atomic", "alive claim: the update is all-or-nothing (incarnation, metadata, address, port written together with the re-gossip)", ex.Pos, nset == len(set),
					fmt.Sprintf("exit at %s wrote the incarnation but only %d of %v", c.P.Pos(ex.Pos), nset, set))
			}
		}

		// ---- key = name invariant at the single insert site
		c.Rule("the record inserted under a name carries that name")
		nins := 0
		for _, e := range a.x.Effects {
			if e.Class == "MAPINS" {
				nins++
				name := e.Store["rec.Node.Name"]
				c.Check("C01/alive/key-is-name", "the record inserted under a name carries that name", e.Pos,
					e.Detail["key"] == "c.Node" && name.S == "c.Node", fmt.Sprintf("insert key %s, record name %s", e.Detail["key"], name.S))
			}
		}
		c.Floor("name-table insert effects", nins, 1)

		// ---- push/pull merge
		checkMerge(c, "C01")
		c.Floor("alive effects", len(a.x.Effects), 100)
		c.Floor("dead effects", len(d.x.Effects), 40)
		c.Floor("suspect effects", len(s.x.Effects), 20)
	})
}

// existsRow: for every completion over vars satisfying required there is an
// exit compatible with it on which all classes occurred.
func (c *Ctx) existsRow(hm *handlerModel, key, rule string, cls []string, vars []string, required func(g getf) bool) {
	c.Rule(rule)
	// enumerate total assignments over vars
	var rec func(i int, asg map[string]string)
	rec = func(i int, asg map[string]string) {
		if i == len(vars) {
			g := func(v string) string { return asg[v] }
			if !required(g) {
				return
			}
			found := false
			for _, ex := range hm.x.Exits {
				compat := true
				for k, v := range asg {
					if ev, ok := ex.Cube[k]; ok && ev != v {
						compat = false
						break
					}
				}
				if !compat {
					continue
				}
				all := true
				for _, k := range cls {
					if ex.Seen[k] == 0 && !(k == "TIMERDEL" && ex.Cube[vTimer] == "F") {
						all = false
						break
					}
				}
				if all {
					found = true
					break
				}
			}
			c.Check(key+"/"+hm.kind, rule, hm.fn.Decl.Pos(), found, fmt.Sprintf("no path performs %v under {%s}", cls, gea.CubeString(asg)))
			return
		}
		dom := gea.BoolDom
		if v, ok := hm.x.Vars[vars[i]]; ok {
			dom = v.Dom
		}
		for _, d := range dom {
			asg[vars[i]] = d
			rec(i+1, asg)
		}
		delete(asg, vars[i])
	}
	rec(0, map[string]string{})
}

// checkAliveVersions: the protocol / delegate version vector travels with the
// claim: when an accepted alive claim carries one (six or more entries) all six
// version fields of the record are rewritten, whatever the prior state - the
// protocol verifier of the push/pull exchange reads them.
func checkAliveVersions(c *Ctx, prop string) {
	a := c.handlerModels()["alive"]
	rule := "alive claim: an accepted update that carries a version vector records all six version fields, for every prior state (the push/pull protocol verifier computes the cluster's version range from them)"
	c.Rule(rule)
	n := 0
	for _, ex := range a.x.Exits {
		if ex.Seen["W:Incarnation"] == 0 {
			continue
		}
		if v, has := atomU(ex.Cube, "len(c.Vsn)>=6"); has && v == "T" {
			n++
			nv := 0
			for _, k := range []string{"W:PMin", "W:PMax", "W:PCur", "W:DMin", "W:DMax", "W:DCur"} {
				if ex.Seen[k] > 0 {
					nv++
				}
			}
			c.Check(prop+"/alive/update-versions", rule, ex.Pos, nv == 6,
				fmt.Sprintf("exit at %s accepted the claim (incarnation written) but recorded only %d of the 6 version fields {%s}", c.P.Pos(ex.Pos), nv, gea.CubeString(ex.Cube)))
		}
	}
	c.Floor("accepting exits of the alive handler with a version vector", n, 1)
}
