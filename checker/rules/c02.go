package rules

import (
	"fmt"
	"go/ast"
	"go/token"
	"go/types"
	"strconv"
	"strings"

	"mlverif/core"
	"mlverif/gea"
)

// refuteModel explores the refutation helper: the function that advances the
// local incarnation and gossips an alive message.
func (c *Ctx) refuteModel() *handlerModel {
	if m, ok := c.models["refute"]; ok {
		return m.(*handlerModel)
	}
	p := c.P
	var target *core.Func
	for _, fn := range p.SortedFuncs() {
		sum := c.G.Summary(fn)
		hasRec := false
		for _, f := range fn.Decl.Type.Params.List {
			if core.NamedOf(p.TypeOf(f.Type)) == "nodeState" {
				hasRec = true
			}
		}
		if hasRec && sum["ATOMICW:Memberlist.incarnation"] && sum["QB"] && !sum["W:nodeState.State"] {
			if target != nil {
				fail("anchor ambiguous: two refutation helpers (%s, %s)", target.Name, fn.Name)
			}
			target = fn
		}
	}
	if target == nil {
		fail("anchor unresolved: refutation helper (writes a record's incarnation, advances Memberlist.incarnation, gossips)")
	}
	spec := &hSpec{c: c, kind: "refute", fn: target}
	spec.recv = p.Info.Defs[target.Decl.Recv.List[0].Names[0]]
	x := gea.New(p, target.Name, target.Decl.Type, target.Decl.Body, spec)
	x.InlineCallee = c.inlinePolicy
	for _, f := range target.Decl.Type.Params.List {
		for _, n := range f.Names {
			switch {
			case core.NamedOf(p.TypeOf(f.Type)) == "nodeState":
				x.SetAlias(p.Info.Defs[n], "me")
			case isUint32(p.TypeOf(f.Type)):
				x.SetAlias(p.Info.Defs[n], "accused")
			}
		}
	}
	x.Run()
	if x.Trunc {
		fail("exploration of %s exceeded the state limit", target.Name)
	}
	c.Funcs[target.Name] = true
	m := &handlerModel{kind: "refute", fn: target, x: x, name: target.Name}
	c.models["refute"] = m
	return m
}

func isUint32(t types.Type) bool {
	b, ok := t.Underlying().(*types.Basic)
	return ok && b.Kind() == types.Uint32
}

// linear normalises an integer expression into coefficients over canonical
// operand names plus a constant; ok=false if it is not linear.
func linear(p *core.Prog, e ast.Expr, name func(ast.Expr) string) (map[string]int64, int64, bool) {
	e = ast.Unparen(e)
	if v, ok := p.ConstInt(e); ok {
		return map[string]int64{}, v, true
	}
	switch x := e.(type) {
	case *ast.BinaryExpr:
		if x.Op == token.ADD || x.Op == token.SUB {
			a, ca, ok1 := linear(p, x.X, name)
			b, cb, ok2 := linear(p, x.Y, name)
			if !ok1 || !ok2 {
				return nil, 0, false
			}
			sign := int64(1)
			if x.Op == token.SUB {
				sign = -1
			}
			for k, v := range b {
				a[k] += sign * v
			}
			return a, ca + sign*cb, true
		}
		if x.Op == token.MUL {
			if k, ok := p.ConstInt(x.X); ok {
				b, cb, ok2 := linear(p, x.Y, name)
				if !ok2 {
					return nil, 0, false
				}
				for n := range b {
					b[n] *= k
				}
				return b, cb * k, true
			}
			if k, ok := p.ConstInt(x.Y); ok {
				a, ca, ok1 := linear(p, x.X, name)
				if !ok1 {
					return nil, 0, false
				}
				for n := range a {
					a[n] *= k
				}
				return a, ca * k, true
			}
		}
		return nil, 0, false
	case *ast.CallExpr:
		if p.IsConversion(x) && len(x.Args) == 1 {
			return linear(p, x.Args[0], name)
		}
	}
	return map[string]int64{name(e): 1}, 0, true
}

// addHelper: fn's body is `return m.<field>.Add(<arg>)`; returns the field
// ("Type.field") and the argument expression.
func addHelper(p *core.Prog, fn *core.Func) (string, ast.Expr) {
	if fn == nil || len(fn.Decl.Body.List) != 1 {
		return "", nil
	}
	rs, ok := fn.Decl.Body.List[0].(*ast.ReturnStmt)
	if !ok || len(rs.Results) != 1 {
		return "", nil
	}
	call, ok := ast.Unparen(rs.Results[0]).(*ast.CallExpr)
	if !ok || len(call.Args) != 1 {
		return "", nil
	}
	se, ok := ast.Unparen(call.Fun).(*ast.SelectorExpr)
	if !ok || se.Sel.Name != "Add" {
		return "", nil
	}
	if f := p.Callee(call); f == nil || !strings.HasPrefix(core.FuncFullName(f), "sync/atomic.") {
		return "", nil
	}
	return p.FieldOwner(se.X), call.Args[0]
}

func init() {
	register("C02", func(c *Ctx) {
		hm := c.handlerModels()
		p := c.P
		c.Assume("uint32 wrap-around at the top of the incarnation range is excluded (as in the property statement)")
		c.Assume("atomic flags (leave) are sampled once per handler activation")

		// 1. a running node never marks itself non-alive; it refutes instead
		for _, k := range []string{"suspect", "dead"} {
			h := hm[k]
			c.mayRow(h, "C02/"+k+"/no-self-write", k+" claim about the local node never rewrites the local record while the node has not left",
				classIn("W:*", "TIMERNEW", "TIMERSET", "EVT:*"), func(g getf, e *gea.Effect) bool { return !isT(g, vSelf) || (k == "dead" && isT(g, vLeft)) })
			c.mayRow(h, "C02/"+k+"/refute-args", "the refutation is asked to beat the claim's own incarnation, for the local record",
				classIn("REFUTE"), func(g getf, e *gea.Effect) bool {
					return e.Detail["accused"] == "c.Incarnation" && e.Detail["rec"] == "rec" && isT(g, vSelf)
				})
		}
		c.mustRow(hm["dead"], "C02/dead/refute", "dead claim, not older, about the running local node: refuted on every path",
			[]string{"REFUTE"}, func(g getf) bool {
				return isT(g, vOK) && geq(g, vOrd) && isT(g, vSelf) && !isT(g, vLeft) && !deadOrLeft(g(vS0))
			})
		c.mustRow(hm["suspect"], "C02/suspect/refute", "suspect claim, not older, about the running (alive) local node: refuted on every path",
			[]string{"REFUTE"}, func(g getf) bool {
				return isT(g, vOK) && geq(g, vOrd) && isT(g, vSelf) && !isT(g, vLeft) && !isT(g, vTimer) && g(vS0) == "StateAlive"
			})
		a := hm["alive"]
		c.mayRow(a, "C02/alive/self-only-refute", "an alive claim from the network about the local node never rewrites the local record or gossips the foreign claim: the only reaction is a refutation",
			func(e *gea.Effect) bool {
				return (strings.HasPrefix(e.Class, "W:") && e.Class != "W:nodes") || e.Class == "BCAST"
			}, func(g getf, e *gea.Effect) bool {
				if e.Seen["MAPINS"] == 0 && !aliveFound(g) {
					return true // initialising a placeholder; judged by the insert rule below
				}
				return !isT(g, vSelf) || isT(g, vBoot)
			})
		c.mayRow(a, "C02/alive/refute-when", "alive handler refutes only a network claim about the running local node that is not older",
			classIn("REFUTE"), func(g getf, e *gea.Effect) bool {
				return isT(g, vSelf) && !isT(g, vBoot) && !isT(g, vLeft) && geq(g, func() string {
					if aliveFound(g) {
						return vOrd
					}
					return vOrd0
				}()) && e.Detail["accused"] == "c.Incarnation" && e.Detail["rec"] == "rec"
			})
		c.Rule("alive claim about the running local node that passed the incarnation gate and is newer or differs in metadata: refuted on every path")
		nEq := 0
		for _, ex := range a.x.Exits {
			ex := ex
			if ex.Seen["TIMERDEL"] == 0 {
				continue // did not pass the gates
			}
			ok, wit := a.x.ForAll(ex.Cube, func(g getf) bool {
				if !(isT(g, vSelf) && !isT(g, vBoot) && aliveFound(g)) {
					return true
				}
				if !(g(vOrd) == "GT" || !isT(g, aMetaEq)) {
					return true
				}
				return ex.Seen["REFUTE"] > 0
			})
			w := ""
			if !ok {
				w = fmt.Sprintf("exit at %s without refutation under {%s}", p.Pos(ex.Pos), gea.CubeString(wit))
			}
			c.Check("C02/alive/refute", "alive claim about the running local node that passed the incarnation gate and is newer or differs in metadata: refuted on every path", ex.Pos, ok, w)
			// "differs" covers the whole announced identity: an equal-incarnation claim is let
			// pass unrefuted only where metadata and all six protocol / delegate version
			// fields were compared and found equal (a restart with changed version ranges
			// announces the same incarnation 1 as the process before it)
			if ex.Seen["REFUTE"] == 0 && ex.Cube[vSelf] == "T" && ex.Cube[vBoot] == "F" && ex.Cube[vOK] == "T" && ex.Cube[vLeft] != "T" {
				nEq++
				missing := versionFieldsNotCompared(ex.Cube)
				if v, has := ex.Cube[aMetaEq]; !has || v != "T" {
					missing = append([]string{"Meta"}, missing...)
				}
				c.Check("C02/alive/unrefuted-only-if-identical", "an alive claim about the running local node at its own incarnation goes unrefuted only if metadata and all six protocol/delegate version fields equal the local record's", ex.Pos, len(missing) == 0,
					fmt.Sprintf("exit at %s without refutation although %v of the claim were not found equal to the record's {%s}", p.Pos(ex.Pos), missing, gea.CubeString(ex.Cube)))
			}
		}
		c.Floor("unrefuted exits for claims about the running local node", nEq, 1)
		c.existsRow(a, "C02/alive/refute-exists", "alive claim about the running local node, same address, newer or equal-with-different-metadata: a refuting path exists (delegates consenting)",
			[]string{"REFUTE"}, []string{vOK, vSelf, vBoot, vLeft, aAddrEq, aPortCmp, vOrd, aMetaEq}, func(g getf) bool {
				return aliveFound(g) && isT(g, vSelf) && !isT(g, vBoot) && !isT(g, vLeft) && addrSame(g) && (g(vOrd) == "GT" || (g(vOrd) == "EQ" && !isT(g, aMetaEq)))
			})
		c.mayRow(a, "C02/alive/self-insert", "the local node's own record is created only by its bootstrap announcement, never from network data",
			classIn("MAPINS", "APPEND"), func(g getf, e *gea.Effect) bool { return !isT(g, vSelf) || isT(g, vBoot) })

		// 2. the refutation beats the accusation
		r := c.refuteModel()
		name := func(e ast.Expr) string { return r.x.Canon(e, nil) }
		nW, nB := 0, 0
		for _, e := range r.x.Effects {
			switch e.Class {
			case "W:Incarnation":
				nW++
				ok, why := refuteBeats(c, r, e, name)
				c.Check("C02/refute/beats-accusation", "refutation: on every path the incarnation stored and gossiped is strictly above the accused one (guard negation entails it, or the counter is advanced by accused-inc+k, k>=1)", e.Pos, ok && e.Detail["target"] == "me", why)
				c.models["refute.incval"] = e.Detail["val"]
			case "BCAST":
				nB++
				d := e.Detail
				incv, _ := c.models["refute.incval"].(string)
				_ = incv
				wInc := ""
				for _, e2 := range r.x.Effects {
					if e2.Class == "W:Incarnation" && gea.CubeString(e2.Cube) == gea.CubeString(e.Cube) {
						wInc = e2.Detail["val"]
					}
				}
				ok := d["type"] == "aliveMsg" && d["msg.Incarnation"] == wInc && wInc != "" && d["msg.Node"] == "me.Node.Name" && d["msg.Addr"] == "me.Node.Addr" &&
					d["msg.Port"] == "me.Node.Port" && d["msg.Meta"] == "me.Node.Meta" &&
					strings.Contains(d["msg.Vsn"], "PMin") && strings.Contains(d["msg.Vsn"], "PMax") && strings.Contains(d["msg.Vsn"], "PCur") &&
					strings.Contains(d["msg.Vsn"], "DMin") && strings.Contains(d["msg.Vsn"], "DMax") && strings.Contains(d["msg.Vsn"], "DCur")
				c.Check("C02/refute/gossips-alive", "refutation gossips an alive message carrying the new incarnation and the record's own name, address, port, metadata and version bytes", e.Pos, ok,
					fmt.Sprintf("broadcast %v (stored incarnation %s)", d, wInc))
				c.Check("C02/refute/order", "refutation stores the new incarnation before gossiping it", e.Pos, e.Seen["W:Incarnation"] > 0, "broadcast before the record's incarnation is written")
			}
		}
		c.Floor("refutation: incarnation stores", nW, 1)
		c.Floor("refutation: broadcasts", nB, 1)
		c.mustRow(r, "C02/refute/always-gossips", "refutation stores the incarnation and gossips on every path", []string{"W:Incarnation", "BCAST"}, func(g getf) bool { return true })

		// 3. the local incarnation only ever advances
		rule := "the local incarnation counter is only advanced: every write is an atomic Add of 1 or of a helper's positive offset"
		c.Rule(rule)
		n := 0
		for _, s := range c.G.SitesOfKind("ATOMICW:Memberlist.incarnation") {
			n++
			ok := false
			if s.Call != nil && len(s.Call.Args) == 1 {
				if se, isSel := ast.Unparen(s.Call.Fun).(*ast.SelectorExpr); isSel && se.Sel.Name == "Add" {
					if v, isC := p.ConstInt(s.Call.Args[0]); isC && v >= 1 {
						ok = true
					} else if id, isId := ast.Unparen(s.Call.Args[0]).(*ast.Ident); isId {
						// a parameter of an add-helper; its call sites are judged by beats-accusation
						if fld, arg := addHelper(p, s.Fn); fld == "Memberlist.incarnation" && arg == s.Call.Args[0] && isUint32(p.TypeOf(id)) {
							ok = true
						}
					}
				}
			}
			c.Check("C02/counter-monotone/"+s.Fn.Name, rule, s.Pos, ok, "write to Memberlist.incarnation that is not a positive Add")
		}
		c.Floor("incarnation counter writes", n, 2)

		// 4. every accusation carrier enters through the three handlers: closed caller set
		checkLeaveFlagMonotone(c, "C02")
		checkClaimSources(c, "C02")
		checkMerge(c, "C02")
		checkPacketDelivery(c, "C02") // an accusation filtered out in front of its handler is never refuted

		// 5. local announcements take a fresh incarnation
		rule5 := "every local self-announcement (bootstrap alive claim) takes its incarnation from the advancing counter and is marked as bootstrap"
		c.Rule(rule5)
		nb := 0
		for _, s := range c.G.Callers(hm["alive"].fn) {
			if s.Call == nil || len(s.Call.Args) < 3 {
				continue
			}
			if v, ok := p.Info.Types[s.Call.Args[2]]; !ok || v.Value == nil || v.Value.String() != "true" {
				continue
			}
			nb++
			ok, why := bootstrapClaimFresh(c, s)
			c.Check("C02/announce-fresh/"+s.Fn.Name, rule5, s.Pos, ok, why)
		}
		c.Floor("bootstrap announcements", nb, 2)
	})
}

// refuteBeats decides, for one path's store to the record's incarnation,
// whether the stored value is provably above the accused incarnation.
func refuteBeats(c *Ctx, r *handlerModel, e *gea.Effect, name func(ast.Expr) string) (bool, string) {
	return beatsIn(c, r.fn, r.x, e.Detail["val"], e.Cube, 0)
}

// beatsIn: inside fn (explored as x, with the accused incarnation aliased
// "accused"), the value named val is above the accused incarnation under the
// path condition cube. val is the advanced counter (then the path condition
// must entail counter > accused), the counter skipped forward by
// accused - counter + k, k >= 1, or the result of a same-package helper that
// is given the accused incarnation and whose every return beats it (so the
// arithmetic may live in a helper).
func beatsIn(c *Ctx, fn *core.Func, x *gea.Exec, val string, cube map[string]string, depth int) (bool, string) {
	p := c.P
	name := func(e ast.Expr) string { return x.Canon(e, nil) }
	// find the calls that produced candidate values
	var first, skip *ast.CallExpr
	var helpers []*ast.CallExpr
	inspectFn(fn, func(n ast.Node) bool {
		call, ok := n.(*ast.CallExpr)
		if !ok {
			return true
		}
		if f := p.Callee(call); f != nil && f.Pkg() == p.Types && p.ByObj[f] != nil {
			if fld, arg := addHelper(p, p.ByObj[f]); fld == "Memberlist.incarnation" {
				if v, isC := p.ConstInt(arg); isC && v >= 1 && len(call.Args) == 0 {
					first = call
				} else if len(call.Args) == 1 {
					skip = call
				}
			} else if len(call.Args) == 1 && name(call.Args[0]) == "accused" && isUint32(p.TypeOf(call)) {
				helpers = append(helpers, call)
			}
		}
		return true
	})
	// the value is produced by a helper that is handed the accused incarnation
	for _, h := range helpers {
		if depth < 3 && strings.HasPrefix(val, x.Canon(h.Fun, nil)+"(accused)") {
			hf := p.ByObj[p.Callee(h)]
			alias := map[string]string{}
			for _, f := range hf.Decl.Type.Params.List {
				for _, n := range f.Names {
					alias[n.Name] = "accused"
				}
			}
			hx := c.flow(hf, alias)
			n := 0
			for _, ex := range hx.Exits {
				if len(ex.Ret) != 1 {
					continue
				}
				n++
				if ok, why := beatsIn(c, hf, hx, ex.Ret[0], ex.Cube, depth+1); !ok {
					return false, hf.Name + ": " + why
				}
			}
			if n == 0 {
				return false, hf.Name + " has no analysable return"
			}
			return true, ""
		}
	}
	if first == nil {
		return false, "no call to the incarnation-advancing helper (Add(1)) found in " + fn.Name
	}
	// call results are named by the value of their receiver; inside a helper
	// explored in place that is the caller's receiver
	firstName := x.Canon(first.Fun, nil) + "()" + x.Tok(first.Pos())
	if se, ok := ast.Unparen(first.Fun).(*ast.SelectorExpr); ok {
		alt := "m." + se.Sel.Name + "()" + x.Tok(first.Pos())
		if val == alt || strings.Contains(val, alt) {
			firstName = alt
		}
		for k := range cube {
			if strings.Contains(k, alt) {
				firstName = alt
			}
		}
	}
	skipSel := ""
	if skip != nil {
		if se, ok := ast.Unparen(skip.Fun).(*ast.SelectorExpr); ok {
			skipSel = "." + se.Sel.Name + "("
		}
	}
	switch {
	case val == firstName:
		// not skipped: the path condition must entail inc > accused
		rel := relOf(cube, "accused", firstName)
		if rel == "LT" {
			return true, ""
		}
		return false, fmt.Sprintf("path yields the un-skipped incarnation although accused %s inc is possible {%s}", map[string]string{"": "?", "EQ": "==", "GT": ">"}[rel], gea.CubeString(cube))
	case skipSel != "" && strings.Contains(val, skipSel):
		// the offset, read from the value's own name: accused - counter + k, k >= 1
		i := strings.Index(val, skipSel) + len(skipSel)
		j := strings.LastIndex(val, ")")
		if j <= i {
			return false, "cannot read the skip offset from " + val
		}
		co, k, ok := linearName(val[i:j])
		if !ok || co["accused"] != 1 || co[firstName] != -1 || len(nonzero(co)) != 2 || k < 1 {
			return false, fmt.Sprintf("skip offset %s is not accused - inc + k with k >= 1", val[i:j])
		}
		return true, ""
	}
	return false, "incarnation " + val + " is neither the advanced counter, the skipped counter, nor the result of a helper proven to beat the accused incarnation"
}

func nonzero(m map[string]int64) []string {
	var out []string
	for k, v := range m {
		if v != 0 {
			out = append(out, k)
		}
	}
	return out
}

// checkClaimSources: the complete set of functions that deliver claims to the
// handlers (gossip handlers, push/pull merge, own probe, suspicion timer,
// local announcements, Leave).
func checkClaimSources(c *Ctx, prop string) {
	hm := c.handlerModels()
	p := c.P
	rule := "claims reach the handlers only from the decoded gossip handlers, the push/pull merge, the node's own probe, its suspicion timer, its self-announcements and Leave"
	c.Rule(rule)
	n := 0
	for _, k := range []string{"alive", "suspect", "dead"} {
		for _, s := range c.G.Callers(hm[k].fn) {
			n++
			from := s.Fn
			ok := false
			switch {
			case from == c.mergeModel().fn:
				ok = true
			case from == hm["suspect"].fn && k == "dead": // suspicion timer
				ok = true
			default:
				// packet handler: decodes its buffer into the claim it forwards
				// own probe / announcements / Leave: builds the claim locally
				ok = decodesClaim(p, from, s) || buildsClaimLocally(p, from, s)
			}
			c.Check(fmt.Sprintf("%s/claim-source/%s->%s", prop, from.Name, k), rule, s.Pos, ok && !s.Ref, "unexpected delivery path into the "+k+" handler from "+from.Name)
		}
	}
	c.Floor("handler call sites", n, 9)
}

// decodesClaim: the claim argument is a local variable filled by decode().
func decodesClaim(p *core.Prog, fn *core.Func, s *core.Site) bool {
	if s.Call == nil || len(s.Call.Args) == 0 {
		return false
	}
	arg := ast.Unparen(s.Call.Args[0])
	if u, ok := arg.(*ast.UnaryExpr); ok && u.Op == token.AND {
		arg = ast.Unparen(u.X)
	}
	id, ok := arg.(*ast.Ident)
	if !ok {
		return false
	}
	return decodeTarget(p, fn, p.Info.Uses[id], 0)
}

// decodeTarget: the variable (a claim, or a pointer to one) is what a decode
// call in fn - or in a helper extracted from fn that hands the pointer back -
// fills in.
func decodeTarget(p *core.Prog, fn *core.Func, obj types.Object, depth int) bool {
	if obj == nil || depth > 3 {
		return false
	}
	found := false
	isObj := func(e ast.Expr) bool {
		e = ast.Unparen(e)
		if u, ok := e.(*ast.UnaryExpr); ok && u.Op == token.AND {
			e = ast.Unparen(u.X)
		}
		id, ok := e.(*ast.Ident)
		return ok && (p.Info.Uses[id] == obj || p.Info.Defs[id] == obj)
	}
	inspectFn(fn, func(n ast.Node) bool {
		switch v := n.(type) {
		case *ast.CallExpr:
			if len(v.Args) >= 2 {
				if f := p.Callee(v); f != nil && f.Pkg() == p.Types && f.Name() == "decode" && isObj(v.Args[1]) {
					found = true
				}
			}
		case *ast.AssignStmt:
			// obj, ... := helper(...): the helper's matching result is a decode target there
			if len(v.Rhs) != 1 {
				return true
			}
			call, ok := ast.Unparen(v.Rhs[0]).(*ast.CallExpr)
			if !ok {
				return true
			}
			f := p.Callee(call)
			if f == nil || f.Pkg() != p.Types || p.ByObj[f] == nil || pinnedFuncs[p.ByObj[f].Name] || p.ByObj[f].Decl.Body == nil {
				return true
			}
			h := p.ByObj[f]
			for i, l := range v.Lhs {
				if !isObj(l) {
					continue
				}
				all, any := true, false
				ast.Inspect(h.Decl.Body, func(m ast.Node) bool {
					if _, isLit := m.(*ast.FuncLit); isLit {
						return false
					}
					rs, ok := m.(*ast.ReturnStmt)
					if !ok || i >= len(rs.Results) {
						return true
					}
					r := ast.Unparen(rs.Results[i])
					if isNilIdent(p, r) {
						return true
					}
					if u, ok := r.(*ast.UnaryExpr); ok && u.Op == token.AND {
						r = ast.Unparen(u.X)
					}
					rid, ok := r.(*ast.Ident)
					if !ok || !decodeTarget(p, h, p.Info.Uses[rid], depth+1) {
						all = false
						return true
					}
					any = true
					return true
				})
				if all && any {
					found = true
				}
			}
		}
		return true
	})
	return found
}

// buildsClaimLocally: the claim argument is a variable assigned from a
// composite literal in the same function.
func buildsClaimLocally(p *core.Prog, fn *core.Func, s *core.Site) bool {
	if s.Call == nil || len(s.Call.Args) == 0 {
		return false
	}
	arg := ast.Unparen(s.Call.Args[0])
	if u, ok := arg.(*ast.UnaryExpr); ok && u.Op == token.AND {
		arg = ast.Unparen(u.X)
	}
	id, ok := arg.(*ast.Ident)
	if !ok {
		return false
	}
	obj := p.Info.Uses[id]
	found := false
	inspectFn(fn, func(n ast.Node) bool {
		switch v := n.(type) {
		case *ast.AssignStmt:
			for i, l := range v.Lhs {
				if lid, ok := l.(*ast.Ident); ok && i < len(v.Rhs) {
					o := p.Info.Defs[lid]
					if o == nil {
						o = p.Info.Uses[lid]
					}
					if o == obj && compositeLit(v.Rhs[i]) != nil {
						found = true
					}
				}
			}
		}
		return true
	})
	return found
}

// bootstrapClaimFresh: the alive literal passed to the handler takes its
// Incarnation from a call to the Add(1) helper.
func bootstrapClaimFresh(c *Ctx, s *core.Site) (bool, string) {
	p := c.P
	arg := ast.Unparen(s.Call.Args[0])
	if u, ok := arg.(*ast.UnaryExpr); ok && u.Op == token.AND {
		arg = ast.Unparen(u.X)
	}
	id, ok := arg.(*ast.Ident)
	if !ok {
		return false, "claim argument is not a local variable"
	}
	obj := p.Info.Uses[id]
	res, why := false, "no literal found"
	inspectFn(s.Fn, func(n ast.Node) bool {
		as, ok := n.(*ast.AssignStmt)
		if !ok {
			return true
		}
		for i, l := range as.Lhs {
			lid, ok := l.(*ast.Ident)
			if !ok || i >= len(as.Rhs) {
				continue
			}
			o := p.Info.Defs[lid]
			if o == nil {
				o = p.Info.Uses[lid]
			}
			cl := compositeLit(as.Rhs[i])
			if o != obj || cl == nil {
				continue
			}
			for _, el := range cl.Elts {
				kv, ok := el.(*ast.KeyValueExpr)
				if !ok {
					continue
				}
				k, _ := kv.Key.(*ast.Ident)
				if k == nil {
					continue
				}
				switch k.Name {
				case "Incarnation":
					call, ok := ast.Unparen(kv.Value).(*ast.CallExpr)
					if !ok {
						why = "Incarnation is not taken from a call"
						continue
					}
					f := p.Callee(call)
					fld, a := "", ast.Expr(nil)
					if f != nil {
						fld, a = addHelper(p, p.ByObj[f])
					}
					if v, isC := p.ConstInt(a); fld == "Memberlist.incarnation" && isC && v >= 1 {
						res = true
					} else {
						why = "Incarnation is not the advancing counter"
					}
				case "Node":
					if p.Canon(kv.Value) != p.Canon(ast.NewIdent("_")) {
						// checked below by name
					}
				}
			}
		}
		return true
	})
	return res, why
}

// linearName reads a sum/difference of atoms and integer constants from a
// canonical value name ("((accused-X)+1)").
func linearName(s string) (map[string]int64, int64, bool) {
	co := map[string]int64{}
	var k int64
	var walk func(s string, sign int64, depth int) bool
	walk = func(s string, sign int64, depth int) bool {
		if depth > 8 {
			return false
		}
		if v, err := strconv.ParseInt(s, 10, 64); err == nil {
			k += sign * v
			return true
		}
		if l, op, r, ok := splitBinName(s); ok {
			rs := sign
			if op == "-" {
				rs = -sign
			}
			return walk(l, sign, depth+1) && walk(r, rs, depth+1)
		}
		if s == "" {
			return false
		}
		co[s] += sign
		return true
	}
	ok := walk(s, 1, 0)
	return co, k, ok
}

var versionFields = []string{"PMin", "PMax", "PCur", "DMin", "DMax", "DCur"}

// versionFieldsNotCompared lists the version fields of the record that the
// path did not establish as equal to the claim's vector: either one equality
// between the claim's vector and a literal holding all six fields in wire
// order, or one equality per field with the vector's element.
func versionFieldsNotCompared(cube map[string]string) []string {
	have := map[string]bool{}
	for k, v := range cube {
		if v != "T" || !strings.HasPrefix(k, "eq(") {
			continue
		}
		u := untok(k)
		if strings.Contains(u, "c.Vsn)") || strings.Contains(u, "(c.Vsn,") {
			// whole-vector comparison: the other operand lists the fields in order
			pos := 0
			okAll := true
			for _, f := range versionFields {
				i := strings.Index(u[pos:], "."+f)
				if i < 0 {
					okAll = false
					break
				}
				pos += i + 1
			}
			if okAll {
				for _, f := range versionFields {
					have[f] = true
				}
			}
			continue
		}
		for i, f := range versionFields {
			if strings.Contains(u, fmt.Sprintf("c.Vsn[%d]", i)) && (strings.Contains(u, "."+f+",") || strings.Contains(u, "."+f+")")) {
				have[f] = true
			}
		}
	}
	var missing []string
	for _, f := range versionFields {
		if !have[f] {
			missing = append(missing, f)
		}
	}
	return missing
}
