package rules

import (
	"go/ast"
	"go/token"
	"go/types"
	"strings"

	"golang.org/x/tools/go/cfg"

	"mlverif/core"
	"mlverif/gea"
)

// relOf reads the relation of value a to value b (LT/EQ/GT, "" when the path
// did not compare them) from a cube's cmp atoms, whichever operand order the
// atom was recorded in.
func relOf(cube map[string]string, a, b string) string {
	if v, ok := cube["cmp("+a+","+b+")"]; ok {
		return v
	}
	switch cube["cmp("+b+","+a+")"] {
	case "LT":
		return "GT"
	case "GT":
		return "LT"
	case "EQ":
		return "EQ"
	}
	return ""
}

func init() {
	register("C03", func(c *Ctx) {
		c.Assume("the time bound itself, 'every survivor', message loss, the shuffle's fairness when membership changes between passes, and that the partition's tail holds exactly the moved entries are not decided: this check covers the links of the detection chain, each a necessary condition (cut any one and a crashed peer is listed forever)")
		hm := c.handlerModels()

		// 1. the probe scheduler
		checkProbeScheduler(c, "C03")

		// 2. a failed probe ends in a suspect claim about the probed record, signed by the local node
		checkProbeNode(c, "C03")
		checkLockOrder(c, "C03") // a handler that deadlocks on the node lock never removes anybody
		checkStreamPingAnswer(c, "C03") // a fallback ping meant for another name is not acknowledged
		checkDeadlines(c) // a stream wait without a read deadline stalls the whole probe loop
		checkPacketDelivery(c, "C03") // suspicions and failures learned by gossip reach the handlers

		// 3. the suspect handler arms a timer for an alive non-local record (must row)
		s := hm["suspect"]
		c.mustRow(s, "C03/suspect/arms-timer", "a suspect claim that is not older, about an alive non-local record with no timer, marks it suspect and arms and registers a suspicion timer on every path",
			[]string{"W:State", "TIMERNEW", "TIMERSET"}, func(g getf) bool {
				return isT(g, vOK) && geq(g, vOrd) && !isT(g, vTimer) && g(vS0) == "StateAlive" && !isT(g, vSelf)
			})
		c.mayRow(s, "C03/suspect/state-suspect", "the state written by the suspect handler is suspect", classIn("W:State"), func(g getf, e *gea.Effect) bool { return e.Detail["val"] == "StateSuspect" })

		// 4. the timer closure calls the dead handler as a failure claim by the local node, and the dead handler accepts it
		t := hm["timer"]
		nd := 0
		for _, e := range t.x.Effects {
			if e.Class != "CALL:dead" {
				continue
			}
			nd++
			d := e.Detail
			c.Check("C03/timer/claim", "when the suspicion timer fires for a record that is still suspect, the dead handler is called with the record's own incarnation and name and From = the local node (a failure, not a departure)", e.Pos,
				d["Incarnation"] == "rec.Incarnation" && d["Node"] == "rec.Node.Name" && d["From"] == "m.config.Name", d["Incarnation"]+","+d["Node"]+","+d["From"])
		}
		c.Check("C03/timer/calls-dead", "the suspicion timer's callback reaches the dead handler", t.fn.Decl.Pos(), nd >= 1, "no dead-handler call in the timer callback")
		c.existsRow(t, "C03/timer/fires-for-suspect", "for a record that still exists, is still suspect and whose suspicion is the one that armed the timer, the callback calls the dead handler", []string{"CALL:dead"}, []string{vOK, vS0}, func(g getf) bool {
			return isT(g, vOK) && g(vS0) == "StateSuspect"
		})
		dd := hm["dead"]
		c.mustRow(dd, "C03/dead/accepts-equal-incarnation", "a dead claim at the record's own incarnation about a suspect non-local record is accepted: state dead/left written, leave event emitted (when configured) on every path",
			[]string{"W:State", "W:StateChange", "TIMERDEL"}, func(g getf) bool {
				return isT(g, vOK) && g(vOrd) == "EQ" && g(vS0) == "StateSuspect" && !isT(g, vSelf)
			})
		c.mayRow(dd, "C03/dead/failure-not-leave", "a dead claim signed by someone else records the member as dead (failed), not left", classIn("W:State"), func(g getf, e *gea.Effect) bool {
			if !isT(g, aSelfSig) {
				return e.Detail["val"] == "StateDead"
			}
			return true
		})

		// 5. timer durations come from the configuration (constructor and remaining-time helper)
		ns := c.MustFunc("newSuspicion")
		xn := c.flow(ns, map[string]string{})
		c.flowMay(xn, "C03/timer/initial-duration", "the suspicion timer is armed with min (no confirmations expected) or max, never anything else", func(e *gea.Effect) bool { return e.Class == "TIMER" },
			func(e *gea.Effect) (bool, string) {
				k := e.Cube["k>=1"]
				want := map[string]string{"T": "max", "F": "min"}[k]
				return want != "" && e.Detail["arg0"] == want, "armed with " + e.Detail["arg0"]
			})
		c.mayRow(s, "C03/timer/wiring", "min and max passed to the timer derive from SuspicionMult, the node estimate, ProbeInterval and SuspicionMaxTimeoutMult only (a configuration-fixed bound)", classIn("TIMERNEW"), func(g getf, e *gea.Effect) bool {
			min := untok(e.Detail["min"])
			return min == "suspicionTimeout(m.config.SuspicionMult,m.estNumNodes(),m.config.ProbeInterval)" && untok(e.Detail["max"]) == "(time.Duration(m.config.SuspicionMaxTimeoutMult)*"+min+")"
		})
		// the per-probe deadline is the awareness-scaled probe interval, bounded by the multiplier
		sc := c.MustFunc("awareness.ScaleTimeout")
		xs := c.flow(sc, map[string]string{})
		okScale := false
		for _, ex := range xs.Exits {
			if len(ex.Ret) != 1 {
				continue
			}
			r := untok(ex.Ret[0])
			if strings.HasPrefix(r, "(timeout*(time.Duration(m.score)+1))") {
				okScale = true
			}
			// the score may be read through an accessor method that returns the field
			for _, fn := range c.P.SortedFuncs() {
				if !strings.HasPrefix(fn.Name, "awareness.") || fn.Decl.Type.Params.NumFields() != 0 {
					continue
				}
				short := strings.TrimPrefix(fn.Name, "awareness.")
				if !strings.HasPrefix(r, "(timeout*(time.Duration(m."+short+"())+1))") {
					continue
				}
				ax := c.flow(fn, map[string]string{})
				all := len(ax.Exits) > 0
				for _, aex := range ax.Exits {
					if len(aex.Ret) != 1 || untok(aex.Ret[0]) != "m.score" {
						all = false
					}
				}
				if all {
					okScale = true
				}
			}
		}
		c.Check("C03/probe/scaled-deadline", "the per-probe deadline is ProbeInterval x (health score + 1), and the score is clamped to [0, max-1] (C19), so the deadline is bounded by AwarenessMaxMultiplier x ProbeInterval", sc.Decl.Pos(), okScale, "ScaleTimeout does not return timeout * (score + 1)")
		checkAwareness(c)

		checkFallbackDeadline(c, "C03")
		checkTimerCancel(c, "C03")
		// 6. live peers stay in the probe list: only old dead/left records are moved to the reaped tail
		checkReaper(c, "C03")
	})
}

// checkProbeScheduler analyses the probe round-robin.
func checkProbeScheduler(c *Ctx, prop string) {
	p := c.P
	fn := c.MustFunc("Memberlist.probe")
	x := c.flow(fn, map[string]string{})
	rule := "probe scheduler: a node is probed only if it is not the local node and neither dead nor left; the cursor advances by exactly one past every record looked at; it is reset to zero only on wrap-around, after the reaper ran; every retry counts towards the bound of one pass"
	c.Rule(rule)
	n := 0
	for _, e := range x.Effects {
		switch e.Class {
		case "CALL:Memberlist.probeNode":
			n++
			// the record copied for this probe
			arg := strings.TrimPrefix(e.Detail["arg0"], "&")
			src := e.Store[arg].S // "*m.nodes[<index>]"
			self, state := "", ""
			names := []string{arg + "."}
			if src != "" {
				names = append(names, strings.TrimPrefix(src, "*")+".")
			}
			mentions := func(u string) bool {
				for _, nm := range names {
					if strings.Contains(u, nm) {
						return true
					}
				}
				return false
			}
			for k, v := range e.Cube {
				if strings.HasPrefix(k, "eq(") && strings.Contains(k, "config.Name") && mentions(k) {
					self = v
				}
				if strings.HasPrefix(k, "enum:") && strings.Contains(k, ".State") && mentions(k) {
					state = v
				}
			}
			ok := self == "F" && state != "" && !gea.EnumIs(state, "StateDead") && !gea.EnumIs(state, "StateLeft")
			c.Check(prop+"/scheduler/probe-target", rule, e.Pos, ok, "probe of "+untok(src)+" reachable with local-name test="+self+" state="+state+" (a dead or departed member, or the local node, can be probed: false suspicion / wasted pass)")
			// cursor advanced by exactly one past the record probed
			idx := ""
			if i, j := strings.Index(src, "["), strings.LastIndex(src, "]"); i >= 0 && j > i {
				idx = src[i+1 : j]
			}
			cur := e.Store["m.probeIndex"].S
			c.Check(prop+"/scheduler/cursor-advance", rule, e.Pos, e.Seen["W:Memberlist.probeIndex"] >= 1 && (cur == "("+idx+"+1)" || strings.HasPrefix(cur, "incdec")), "cursor is "+untok(cur)+" after probing index "+untok(idx))
		case "CALL:Memberlist.resetNodes":
			// reaping (and the reset that follows it) happens only when the cursor
			// has reached the end of the list: cursor >= len(nodes) on this path
			cur := e.Store["m.probeIndex"].S
			if cur == "" {
				cur = "m.probeIndex"
			}
			rel := relOf(e.Cube, cur, "len(m.nodes)")
			c.Check(prop+"/scheduler/reset-on-wrap", rule, e.Pos, rel == "GT" || rel == "EQ", "reaper / cursor reset reachable with cursor "+untok(cur)+" "+map[string]string{"": "?", "LT": "<"}[rel]+" len(nodes): the pass restarts before every record was visited")
		case "W:Memberlist.probeIndex":
			if e.Detail["val"] == "0" {
				// the reset follows a reaper call on this path (that call is judged below)
				c.Check(prop+"/scheduler/reset-on-wrap", rule, e.Pos, e.Seen["CALL:Memberlist.resetNodes"] >= 1, "cursor reset without reaping first")
			} else {
				c.Check(prop+"/scheduler/cursor-step", rule, e.Pos, strings.HasSuffix(e.Detail["val"], "+1)") || strings.HasPrefix(e.Detail["val"], "incdec"), "cursor written with "+untok(e.Detail["val"]))
			}
		}
	}
	c.Floor("probe calls in the scheduler", n, 1)
	// every way back to the start counts towards the bound: every cycle of the
	// control-flow graph passes through an increment of the counter that the
	// exit test compares with the list length
	g := cfg.New(fn.Decl.Body, func(call *ast.CallExpr) bool { return p.Builtin(call) != "panic" })
	uncounted := token.NoPos
	incBlocks := map[*cfg.Block]bool{}
	for _, b := range g.Blocks {
		for _, nd := range b.Nodes {
			if inc, ok := nd.(*ast.IncDecStmt); ok && inc.Tok == token.INC {
				if id, ok := ast.Unparen(inc.X).(*ast.Ident); ok {
					if v, ok := p.Info.Uses[id].(*types.Var); ok && v.Parent() != p.Types.Scope() && !v.IsField() {
						incBlocks[b] = true
					}
				}
			}
		}
	}
	// a cycle avoiding every counting block = a retry that is not counted
	color := map[*cfg.Block]int{}
	var dfs func(b *cfg.Block)
	dfs = func(b *cfg.Block) {
		color[b] = 1
		for _, sc := range b.Succs {
			if incBlocks[sc] {
				continue
			}
			switch color[sc] {
			case 0:
				dfs(sc)
			case 1:
				if len(sc.Nodes) > 0 {
					uncounted = sc.Nodes[0].Pos()
				} else {
					uncounted = fn.Decl.Pos()
				}
			}
		}
		color[b] = 2
	}
	for _, b := range g.Blocks {
		if color[b] == 0 && !incBlocks[b] && b.Live {
			dfs(b)
		}
	}
	c.Check(prop+"/scheduler/retry-counted", rule, fn.Decl.Pos(), uncounted == token.NoPos, "a path leads back to the start of the scheduler without incrementing a local counter (around "+p.Pos(uncounted)+"): the pass is no longer bounded by the list length")
	c.Floor("scheduler counting blocks", len(incBlocks), 1)
	// the bound: returns when the count reaches the list length
	bounded := false
	for _, ex := range x.Exits {
		for k, v := range ex.Cube {
			u := untok(k)
			if ex.Seen["CALL:Memberlist.probeNode"] == 0 && ((u == "len(m.nodes)>=1" && v == "F") || (strings.HasPrefix(u, "cmp((0+1),len(m.nodes))") && v != "LT") || (strings.HasPrefix(u, "cmp(incdec") && strings.Contains(u, "len(m.nodes)") && v != "LT")) {
				bounded = true
			}
		}
	}
	c.Check(prop+"/scheduler/bounded", rule, fn.Decl.Pos(), bounded, "no exit on 'checked as many entries as the list holds'")
	_ = core.RootPath
}
