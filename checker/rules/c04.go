package rules

import (
	"go/ast"
	"strings"

	"mlverif/core"
	"mlverif/gea"
)

func init() {
	register("C04", func(c *Ctx) {
		p := c.P
		c.Assume("absence of suspicion over all schedules under a latency bound is not decided; this check covers the code-shape conditions without which a healthy, timely peer is suspected (or the health score of a healthy node rises)")
		hm := c.handlerModels()
		checkMerge(c, "C04") // a departure / accusation learned by push/pull becomes the right kind of claim (no spurious suspicion)

		// 1. probe traffic is answered inline by the listener, never through the hand-off queue
		hc := c.MustFunc("Memberlist.handleCommand")
		x := c.flow(hc, map[string]string{})
		rule1 := "ping, indirect ping, ack and nack are handled inline by the packet listener (no hand-off queue, so answers are not delayed behind membership traffic); only suspect, alive, dead and user messages are queued"
		c.Rule(rule1)
		inline := map[string]string{"CALL:Memberlist.handlePing": "pingMsg", "CALL:Memberlist.handleIndirectPing": "indirectPingMsg", "CALL:Memberlist.handleAck": "ackRespMsg", "CALL:Memberlist.handleNack": "nackRespMsg"}
		seenInline := map[string]bool{}
		for _, e := range x.Effects {
			typ := ""
			for k, v := range e.Cube {
				if strings.HasPrefix(norm(k), "enum:buf[0]") {
					typ = v
				}
			}
			if want, ok := inline[e.Class]; ok {
				seenInline[e.Class] = true
				c.Check("C04/inline/"+e.Class, rule1, e.Pos, typ == want && e.Seen["LIST:PushBack"] == 0 && e.Seen["LOCK:Lock:m.msgQueueLock"] == 0, "dispatched for type "+typ+" after queue activity")
			}
			if e.Class == "LIST:PushBack" {
				okT := typ == "suspectMsg" || typ == "aliveMsg" || typ == "deadMsg" || typ == "userMsg"
				c.Check("C04/queued-types", rule1, e.Pos, okT, "message type "+typ+" is queued for the hand-off goroutine")
			}
		}
		for cl := range inline {
			c.Check("C04/inline-present/"+cl, rule1, hc.Decl.Pos(), seenInline[cl], "no inline dispatch "+cl)
		}
		// no write-mode acquisition of the node lock on the answering path
		rule1b := "answering a ping never waits for the node write lock: no function on the synchronous path of the four inline handlers takes nodeLock in write mode"
		c.Rule(rule1b)
		for _, name := range []string{"Memberlist.handlePing", "Memberlist.handleIndirectPing", "Memberlist.handleAck", "Memberlist.handleNack"} {
			fn := c.MustFunc(name)
			bad := ""
			for f := range c.G.SyncReach(fn) {
				inspectFn(f, func(n ast.Node) bool {
					if _, isGo := n.(*ast.GoStmt); isGo {
						return false
					}
					if call, ok := n.(*ast.CallExpr); ok {
						if mu, op := mutexName(p, call); mu == "Memberlist.nodeLock" && op == "Lock" {
							bad = f.Name
						}
					}
					return true
				})
			}
			c.Check("C04/inline-no-write-lock/"+name, rule1b, fn.Decl.Pos(), bad == "", "write lock on nodeLock taken in "+bad)
		}

		// 2. the ack answers the ping: own sequence number, to the ping's source address when given
		hp := c.MustFunc("Memberlist.handlePing")
		xp := c.flow(hp, map[string]string{})
		n := c.flowMay(xp, "C04/ack", "the ack carries the ping's own sequence number and is sent to the source address the ping names (else to the packet's origin), and only for a ping addressed to this node", func(e *gea.Effect) bool { return e.Class == "CALL:Memberlist.encodeAndSendMsg" },
			func(e *gea.Effect) (bool, string) {
				base := strings.TrimPrefix(e.Detail["arg2"], "&")
				if e.Detail["arg1"] != "ackRespMsg" || norm(e.Store[base+".SeqNo"].S) != "p.SeqNo" {
					return false, "ack does not carry the ping's sequence number"
				}
				addr := ""
				for k, t := range e.Store {
					if strings.HasSuffix(k, ".Addr") && strings.HasPrefix(norm(k), "a.") {
						addr = norm(t.S)
						// the address variable's own current value
						if vt, ok := e.Store[t.S]; ok {
							addr = norm(vt.S)
						}
					}
				}
				hasSrc := ""
				for k, v := range e.Cube {
					if u := norm(k); u == "len(p.SourceAddr)>=1" {
						hasSrc = v
					}
				}
				port := ""
				for k, v := range e.Cube {
					if u := norm(k); u == "p.SourcePort>=1" {
						port = v
					}
				}
				if hasSrc == "T" && port == "T" {
					if !strings.HasPrefix(addr, "joinHostPort(") || !strings.Contains(addr, "p.SourceAddr") || !strings.Contains(addr, ",p.SourcePort)") {
						return false, "reply address " + addr
					}
				} else if !strings.HasPrefix(addr, "from.String()") {
					return false, "reply address " + addr
				}
				// addressed to us (or unnamed)
				for k, v := range e.Cube {
					u := norm(k)
					if strings.HasPrefix(u, "eq(") && strings.Contains(u, "m.config.Name") && strings.Contains(u, "p.Node") && v == "F" {
						if emp, ok := e.Cube[`eq("",p.Node)`]; !ok || emp != "T" {
							return false, "ping for another node is answered"
						}
					}
				}
				return true, ""
			})
		c.Floor("ack sends in the ping handler", n, 2)
		usesSrc := false
		for _, e := range xp.Effects {
			if e.Class == "CALL:Memberlist.encodeAndSendMsg" {
				for k, v := range e.Cube {
					if norm(k) == "len(p.SourceAddr)>=1" && v == "T" {
						usesSrc = true
					}
				}
			}
		}
		c.Check("C04/ack/uses-source-address", "the ping's source address is consulted for the reply", hp.Decl.Pos(), usesSrc, "the reply address never depends on the ping's source address")

		// 3. suspicion only after the whole scaled interval passed without an ack; first wait = ProbeTimeout
		checkProbeNode(c, "C04")
		checkStreamPingAnswer(c, "C04")
		pn := c.MustFunc("Memberlist.probeNode")
		first := false
		inspectFn(pn, func(nd ast.Node) bool {
			if call, ok := nd.(*ast.CallExpr); ok {
				if f := p.Callee(call); f != nil && core.FuncFullName(f) == "time.After" && len(call.Args) == 1 && strings.HasSuffix(p.Canon(call.Args[0]), ".config.ProbeTimeout") {
					first = true
				}
			}
			return true
		})
		c.Check("C04/probe/first-wait", "the probe waits ProbeTimeout for the direct ack before escalating", pn.Decl.Pos(), first, "no time.After(config.ProbeTimeout) in the probe")

		// 4. departed / dead members and the local node are never probed
		checkProbeScheduler(c, "C04")

		// 5. the health score of a healthy node does not rise: refutation only for claims that are not older
		for _, k := range []string{"alive", "suspect", "dead"} {
			c.mayRow(hm[k], "C04/no-spurious-refute", "a refutation (which raises the health score) happens only for a claim about the local node that is not older than the node's own incarnation", classIn("REFUTE"), func(g getf, e *gea.Effect) bool {
				if k == "alive" && !aliveFound(g) {
					return true // judged under C02 (known finding)
				}
				return isT(g, vSelf) && geq(g, vOrd)
			})
		}
		checkAwareness(c)
	})
}
