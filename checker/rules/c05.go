package rules

import (
	"fmt"
	"os"
	"regexp"
	"go/ast"
	"go/types"
	"sort"
	"strings"

	"golang.org/x/tools/go/cfg"

	"mlverif/core"
	"mlverif/gea"
)

// C05 - views re-converge once faults stop. The statement is a liveness
// property of a randomised protocol over fault histories and is NOT decided.
// What is decided are the wiring conditions of the anti-entropy machinery the
// property names, each necessary for re-convergence in some configuration or
// history (cut one and two nodes that still list each other never agree
// again): the periodic activities are started and repeat; push/pull may pick
// every live peer and ships the complete member list; gossip reaches every
// live, suspect and recently dead peer; whatever is learned reaches the merge
// rules (C01/C02) and every accepted change is re-gossiped.
func init() {
	register("C05", func(c *Ctx) {
		c.Assume("convergence itself (a liveness property over fault schedules, random peer selection, timing, bounded settling time) is NOT decided; only the wiring of the anti-entropy mechanisms the property names is: each obligation is a necessary condition in some configuration (e.g. gossip to the recently dead is the only way a falsely accused node learns of it when push/pull is disabled)")
		checkSchedulerStarts(c)
		checkPeerSelection(c)
		checkFullStateSent(c)
		checkSuspectPiggyback(c)
		checkReaper(c, "C05") // dead / left records are kept (gossiped to, shipped by push/pull, able to reject stale claims) for GossipToTheDeadTime
		// what is learned is merged and re-gossiped
		checkMerge(c, "C05")
		checkPacketDelivery(c, "C05")
		hm := c.handlerModels()
		c.existsRow(hm["alive"], "C05/regossip/alive", "an alive claim with a strictly newer incarnation about a known non-local record at the same address: for every prior state there is a path (delegates consenting) that updates the record and re-gossips the claim",
			[]string{"W:Incarnation", "BCAST"}, []string{vOK, vS0, vOrd, vSelf, vLeft, aAddrEq, aPortCmp}, func(g getf) bool {
				return aliveFound(g) && !isT(g, vSelf) && addrSame(g) && g(vOrd) == "GT"
			})
		c.mustRow(hm["suspect"], "C05/regossip/suspect", "an accepted suspicion is re-gossiped on every path", []string{"BCAST"}, func(g getf) bool {
			return isT(g, vOK) && geq(g, vOrd) && !isT(g, vTimer) && g(vS0) == "StateAlive" && !isT(g, vSelf)
		})
		c.mustRow(hm["dead"], "C05/regossip/dead", "an accepted death or departure is re-gossiped on every path", []string{"BCAST"}, func(g getf) bool {
			return isT(g, vOK) && geq(g, vOrd) && !deadOrLeft(g(vS0)) && !isT(g, vSelf)
		})
		for _, k := range []string{"suspect", "dead"} {
			c.mustRow(hm[k], "C05/refute/"+k, "a false accusation about the running local node (not older) is refuted on every path: none sticks", []string{"REFUTE"}, func(g getf) bool {
				return isT(g, vOK) && geq(g, vOrd) && isT(g, vSelf) && !isT(g, vLeft) && !isT(g, vTimer) && g(vS0) == "StateAlive"
			})
		}
	})
}

var suspectEncRe = regexp.MustCompile(`encode\(suspectMsg,&([A-Za-z_0-9#]+),`)

// loopTargets: the periodic activities of the protocol.
var loopTargets = []string{"Memberlist.probe", "Memberlist.gossip", "Memberlist.pushPull"}

// checkSchedulerStarts: Create schedules; schedule starts, for every enabled
// interval, a goroutine that reaches the activity; each trigger calls its
// activity inside a loop (so it repeats until stopped).
func checkSchedulerStarts(c *Ctx) {
	p := c.P
	rule := "the periodic activities run: Create calls schedule; for each of probe, gossip and push/pull whose interval is enabled, schedule starts a goroutine that reaches it; each trigger calls its activity on a cycle of its control-flow graph (it repeats until the stop channel closes)"
	c.Rule(rule)
	sc := c.MustFunc("Memberlist.schedule")
	cr := c.MustFunc("Create")
	c.Check("C05/schedule/created", rule, cr.Decl.Pos(), c.G.SyncReach(cr)[sc], "Create does not reach schedule: nothing is ever probed, gossiped or exchanged")

	// what a go statement can reach: the callee, and functions referenced in its arguments
	reachOf := func(s *ast.GoStmt) map[string]bool {
		out := map[string]bool{}
		add := func(f *types.Func) {
			fi := p.ByObj[f]
			if fi == nil {
				return
			}
			out[fi.Name] = true
			for g := range c.G.SyncReach(fi) {
				out[g.Name] = true
			}
		}
		if f := p.Callee(s.Call); f != nil {
			add(f)
		}
		var nodes []ast.Node
		for _, a := range s.Call.Args {
			nodes = append(nodes, a)
		}
		if fl, ok := ast.Unparen(s.Call.Fun).(*ast.FuncLit); ok {
			nodes = append(nodes, fl.Body)
		}
		for _, nd := range nodes {
			ast.Inspect(nd, func(n ast.Node) bool {
				switch x := n.(type) {
				case *ast.Ident:
					if f, ok := p.Info.Uses[x].(*types.Func); ok {
						add(f)
					}
				case *ast.SelectorExpr:
					if f, ok := p.Info.Uses[x.Sel].(*types.Func); ok {
						add(f)
					}
				}
				return true
			})
		}
		return out
	}
	spec := &flowSpec{c: c, alias: map[types.Object]string{}, quiet: map[string]bool{}}
	if sc.Decl.Recv != nil && len(sc.Decl.Recv.List[0].Names) > 0 {
		spec.recv = p.Info.Defs[sc.Decl.Recv.List[0].Names[0]]
	}
	x := gea.New(p, sc.Name+"$loops", sc.Decl.Type, sc.Decl.Body, spec)
	x.InlineCallee = c.inlinePolicy
	x.GoHook = func(st *gea.State, s *ast.GoStmt, env *gea.Env) *gea.State {
		r := reachOf(s)
		for _, t := range loopTargets {
			if r[t] {
				st = x.Effect(st, "GOLOOP:"+t, s.Pos(), nil)
			}
		}
		return st
	}
	x.Run()
	if x.Trunc {
		fail("exploration of %s exceeded the state limit", sc.Name)
	}
	c.Funcs[sc.Name] = true
	enabled := map[string]func(cube map[string]string) (bool, bool){
		"Memberlist.probe": func(cube map[string]string) (bool, bool) {
			v, ok := atomU(cube, "m.config.ProbeInterval>=1")
			return v == "T", ok
		},
		"Memberlist.pushPull": func(cube map[string]string) (bool, bool) {
			v, ok := atomU(cube, "m.config.PushPullInterval>=1")
			return v == "T", ok
		},
		"Memberlist.gossip": func(cube map[string]string) (bool, bool) {
			v, ok := atomU(cube, "m.config.GossipInterval>=1")
			w, ok2 := atomU(cube, "m.config.GossipNodes>=1")
			return v == "T" && w == "T", ok && ok2
		},
	}
	started := map[string]int{}
	for _, ex := range x.Exits {
		infeasible := false
		for k, v := range ex.Cube {
			if u := untok(k); strings.HasPrefix(u, "len(append(") && strings.HasSuffix(u, ">=1") && v == "F" {
				infeasible = true
			}
		}
		if infeasible {
			continue
		}
		for _, t := range loopTargets {
			on, consulted := enabled[t](ex.Cube)
			if ex.Seen["GOLOOP:"+t] > 0 {
				started[t]++
			}
			if consulted && on {
				c.Check("C05/schedule/starts/"+t, rule, ex.Pos, ex.Seen["GOLOOP:"+t] > 0, "schedule returns at "+p.Pos(ex.Pos)+" with the interval of "+t+" enabled but without having started a goroutine that reaches it {"+untok(gea.CubeString(ex.Cube))+"}")
			}
		}
	}
	for _, t := range loopTargets {
		c.Check("C05/schedule/starts-somewhere/"+t, rule, sc.Decl.Pos(), started[t] > 0, "no path of schedule starts a goroutine that reaches "+t)
	}

	// each activity is called on a cycle of the function that triggers it
	for _, t := range loopTargets {
		target := c.MustFunc(t)
		onCycle := false
		var where []string
		for _, fn := range p.SortedFuncs() {
			if !c.G.SyncReach(fn)[target] && fn != target {
				continue
			}
			// direct calls of the target, or calls of a func-typed parameter in a function that is
			// handed the target as that argument (the generic trigger)
			var calls []*ast.CallExpr
			ast.Inspect(fn.Decl.Body, func(n ast.Node) bool {
				call, ok := n.(*ast.CallExpr)
				if !ok {
					return true
				}
				if f := p.Callee(call); f == target.Obj {
					calls = append(calls, call)
				}
				return true
			})
			for _, call := range calls {
				if callOnCycle(p, fn, call) {
					onCycle = true
					where = append(where, fn.Name)
				}
			}
		}
		// the generic trigger: a function with a func() parameter called on a cycle, that some go
		// statement hands the target
		if !onCycle {
			for _, fn := range p.SortedFuncs() {
				for _, fl := range fn.Decl.Type.Params.List {
					if _, isFn := p.TypeOf(fl.Type).Underlying().(*types.Signature); !isFn {
						continue
					}
					for _, nm := range fl.Names {
						po := p.Info.Defs[nm]
						var pc *ast.CallExpr
						ast.Inspect(fn.Decl.Body, func(n ast.Node) bool {
							if call, ok := n.(*ast.CallExpr); ok {
								if id, ok := ast.Unparen(call.Fun).(*ast.Ident); ok && p.Info.Uses[id] == po {
									pc = call
								}
							}
							return true
						})
						if pc == nil || !callOnCycle(p, fn, pc) {
							continue
						}
						// is the target handed to fn somewhere?
						for _, s := range c.G.Callers(fn) {
							if s.Call == nil {
								continue
							}
							for _, a := range s.Call.Args {
								ast.Inspect(a, func(n ast.Node) bool {
									if se, ok := n.(*ast.SelectorExpr); ok {
										if f, ok := p.Info.Uses[se.Sel].(*types.Func); ok && f == target.Obj {
											onCycle = true
											where = append(where, fn.Name)
										}
									}
									return true
								})
							}
						}
					}
				}
			}
		}
		sort.Strings(where)
		c.Check("C05/schedule/repeats/"+t, rule, target.Decl.Pos(), onCycle, t+" is not called on a cycle of any trigger function: it runs at most once")
	}
}

// callOnCycle: the block of fn's control-flow graph that holds the call can reach itself.
func callOnCycle(p *core.Prog, fn *core.Func, call *ast.CallExpr) bool {
	g := cfg.New(fn.Decl.Body, func(c *ast.CallExpr) bool { return p.Builtin(c) != "panic" })
	var home *cfg.Block
	for _, b := range g.Blocks {
		for _, nd := range b.Nodes {
			if nd.Pos() <= call.Pos() && call.End() <= nd.End() {
				home = b
			}
		}
	}
	if home == nil {
		return false
	}
	seen := map[*cfg.Block]bool{}
	var dfs func(b *cfg.Block) bool
	dfs = func(b *cfg.Block) bool {
		for _, s := range b.Succs {
			if s == home {
				return true
			}
			if !seen[s] {
				seen[s] = true
				if dfs(s) {
					return true
				}
			}
		}
		return false
	}
	return dfs(home)
}

// filterTable explores a peer-selection filter func(n *nodeState) bool and
// returns, per exit, whether the record is excluded, with the cube.
func filterTable(c *Ctx, owner *core.Func, lit *ast.FuncLit) *gea.Exec {
	p := c.P
	spec := &flowSpec{c: c, alias: map[types.Object]string{}, quiet: map[string]bool{}}
	if owner.Decl.Recv != nil && len(owner.Decl.Recv.List[0].Names) > 0 {
		spec.recv = p.Info.Defs[owner.Decl.Recv.List[0].Names[0]]
	}
	for _, f := range lit.Type.Params.List {
		for _, nm := range f.Names {
			spec.alias[p.Info.Defs[nm]] = "n"
		}
	}
	x := gea.New(p, owner.Name+"$filter", lit.Type, lit.Body, spec)
	x.InlineCallee = c.inlinePolicy
	x.BoolReturns = true
	x.Run()
	if x.Trunc {
		fail("exploration of the selection filter in %s exceeded the state limit", owner.Name)
	}
	if os.Getenv("MLDEBUG") != "" {
		for _, ex := range x.Exits {
			fmt.Fprintln(os.Stderr, "FILTER", owner.Name, ex.Ret, gea.CubeString(ex.Cube))
		}
	}
	return x
}

// checkPeerSelection: who may be picked for push/pull and for gossip.
func checkPeerSelection(c *Ctx) {
	p := c.P
	sel := c.MustFunc("kRandomNodes")
	find := func(fn *core.Func) (*ast.CallExpr, *ast.FuncLit) {
		var call *ast.CallExpr
		var lit *ast.FuncLit
		inspectFn(fn, func(n ast.Node) bool {
			if cl, ok := n.(*ast.CallExpr); ok && p.Callee(cl) == sel.Obj && len(cl.Args) == 3 {
				call = cl
				if fl, ok := ast.Unparen(cl.Args[2]).(*ast.FuncLit); ok {
					lit = fl
				}
			}
			return true
		})
		return call, lit
	}
	stateOf := func(cube map[string]string) string {
		for k, v := range cube {
			if strings.HasPrefix(k, "enum:") && strings.Contains(untok(k), "n.State") {
				return v
			}
		}
		return ""
	}
	selfOf := func(cube map[string]string) string {
		for k, v := range cube {
			if u := untok(k); strings.HasPrefix(u, "eq(") && strings.Contains(u, "m.config.Name") && strings.Contains(u, "n.") {
				return v
			}
		}
		return ""
	}

	// push/pull: every alive peer other than the local node may be picked; the exchange is a
	// periodic one (join=false) with the picked node's address
	ruleP := "push/pull may pick every alive member other than the local node (a narrower filter leaves pairs of nodes that list each other without ever exchanging state), takes candidates from the whole member list, and runs a non-join exchange with the picked node's own address"
	c.Rule(ruleP)
	pp := c.MustFunc("Memberlist.pushPull")
	call, lit := find(pp)
	if call == nil || lit == nil {
		fail("anchor unresolved: peer selection (kRandomNodes with a filter literal) in %s", pp.Name)
	}
	c.Check("C05/pushpull/candidates", ruleP, call.Pos(), p.FieldOwner(call.Args[1]) == "Memberlist.nodes", "candidates are "+p.Canon(call.Args[1])+", not the member list")
	if v, ok := p.ConstInt(call.Args[0]); ok {
		c.Check("C05/pushpull/count", ruleP, call.Pos(), v >= 1, fmt.Sprintf("%d peers requested", v))
	}
	x := filterTable(c, pp, lit)
	n := 0
	for _, ex := range x.Exits {
		if len(ex.Ret) != 1 {
			continue
		}
		n++
		st, self := stateOf(ex.Cube), selfOf(ex.Cube)
		excluded := ex.Ret[0] == "true"
		mayBeAlive := st == "" || st == "StateAlive" || (strings.HasPrefix(st, "!") && !strings.Contains(st, "StateAlive"))
		c.Check("C05/pushpull/filter", ruleP, ex.Pos, !(excluded && self != "T" && mayBeAlive), "the filter excludes a record that may be an alive peer {"+untok(gea.CubeString(ex.Cube))+"}")
	}
	c.Floor("exits of the push/pull filter", n, 2)
	xf := c.flow(pp, map[string]string{})
	ne := 0
	for _, e := range xf.Effects {
		if e.Class != "CALL:Memberlist.pushPullNode" {
			continue
		}
		ne++
		a0 := untok(e.Detail["arg0"])
		c.Check("C05/pushpull/exchange", ruleP, e.Pos, strings.HasPrefix(a0, "kRandomNodes(") && strings.Contains(a0, ".FullAddress()") && e.Detail["arg1"] == "false", "exchange with "+a0+", join="+e.Detail["arg1"])
	}
	c.Check("C05/pushpull/exchange-present", ruleP, pp.Decl.Pos(), ne > 0, "the periodic push/pull never starts an exchange")

	// gossip: alive and suspect peers, and peers dead for no longer than GossipToTheDeadTime
	ruleG := "gossip may pick every alive or suspect member other than the local node, and every member that has been dead for no longer than GossipToTheDeadTime (so that a falsely accused node hears of it and refutes); candidates come from the whole member list, GossipNodes of them; every picked node is sent what the broadcast queues hand out"
	c.Rule(ruleG)
	gs := c.MustFunc("Memberlist.gossip")
	call, lit = find(gs)
	if call == nil || lit == nil {
		fail("anchor unresolved: peer selection (kRandomNodes with a filter literal) in %s", gs.Name)
	}
	c.Check("C05/gossip/candidates", ruleG, call.Pos(), p.FieldOwner(call.Args[1]) == "Memberlist.nodes" && strings.HasSuffix(p.Canon(call.Args[0]), ".config.GossipNodes"), "candidates "+p.Canon(call.Args[1])+", count "+p.Canon(call.Args[0]))
	x = filterTable(c, gs, lit)
	n = 0
	for _, ex := range x.Exits {
		if len(ex.Ret) != 1 {
			continue
		}
		n++
		st, self := stateOf(ex.Cube), selfOf(ex.Cube)
		excluded := ex.Ret[0] == "true"
		if !excluded || self == "T" {
			continue
		}
		// an exclusion of a non-local record: allowed for a departed member, and for a dead one past the window
		ok := false
		why := "state " + st
		switch {
		case strings.HasPrefix(st, "!"):
			// "none of the listed states": fine only if alive, suspect and dead are among the listed ones
			ok = strings.Contains(st, "StateAlive") && strings.Contains(st, "StateSuspect") && strings.Contains(st, "StateDead")
		case st == "StateLeft":
			ok = true
		case st == "StateDead":
			for k, v := range ex.Cube {
				u := untok(k)
				if strings.HasPrefix(u, "cmp(") && strings.Contains(u, "time.Since(n.StateChange)") && strings.Contains(u, "m.config.GossipToTheDeadTime") {
					if strings.Index(u, "time.Since(") < strings.Index(u, "m.config.GossipToTheDeadTime") {
						ok = v == "GT"
					} else {
						ok = v == "LT"
					}
					why = "dead, age test " + u + "=" + v
				}
			}
		}
		c.Check("C05/gossip/filter", ruleG, ex.Pos, ok, "the filter excludes a peer it must be able to reach ("+why+") {"+untok(gea.CubeString(ex.Cube))+"}")
	}
	c.Floor("exits of the gossip filter", n, 4)
	xg := c.flow(gs, map[string]string{})
	ns := 0
	for _, e := range xg.Effects {
		if e.Class != "CALL:Memberlist.rawSendMsgPacket" {
			continue
		}
		ns++
		a0, a2 := untok(e.Detail["arg0"]), untok(e.Detail["arg2"])
		c.Check("C05/gossip/sends-queued", ruleG, e.Pos, strings.Contains(a0, ".FullAddress()") && (strings.Contains(a2, "m.getBroadcasts(") || strings.HasPrefix(a2, "rangeval")), "gossip sends "+a2+" to "+a0)
	}
	c.Check("C05/gossip/sends-present", ruleG, gs.Decl.Pos(), ns > 0, "gossip never sends anything")
}

// checkFullStateSent: a push/pull ships every record of the member list,
// whatever its state, with the record's own fields.
func checkFullStateSent(c *Ctx) {
	p := c.P
	rule := "a push/pull ships the complete member list: one entry per record of the list, in every state (dead and left records included - that is how a falsely accused node learns of the accusation), carrying the record's own name, address, port, incarnation, state, metadata and version vector"
	c.Rule(rule)
	fn := c.MustFunc("Memberlist.sendLocalState")
	var loop *ast.RangeStmt
	inspectFn(fn, func(n ast.Node) bool {
		if rs, ok := n.(*ast.RangeStmt); ok && p.FieldOwner(rs.X) == "Memberlist.nodes" && loop == nil {
			loop = rs
		}
		return true
	})
	if loop == nil {
		fail("anchor unresolved: loop over the member list in %s", fn.Name)
	}
	spec := &flowSpec{c: c, alias: map[types.Object]string{}, quiet: map[string]bool{}}
	if fn.Decl.Recv != nil && len(fn.Decl.Recv.List[0].Names) > 0 {
		spec.recv = p.Info.Defs[fn.Decl.Recv.List[0].Names[0]]
	}
	if id, ok := loop.Value.(*ast.Ident); ok && id.Name != "_" {
		spec.alias[p.Info.Defs[id]] = "n"
	}
	x := c.Explore(fn.Name+"$iteration", fn.Decl.Type, loop.Body, spec)
	want := map[string]string{"Name": "n.Node.Name", "Addr": "n.Node.Addr", "Port": "n.Node.Port", "Incarnation": "n.Incarnation", "State": "n.State", "Meta": "n.Node.Meta"}
	n := 0
	for _, ex := range x.Exits {
		n++
		var missing []string
		for f := range want {
			if ex.Seen["W:pushNodeState."+f] == 0 {
				missing = append(missing, f)
			}
		}
		if ex.Seen["W:pushNodeState.Vsn"] == 0 {
			missing = append(missing, "Vsn")
		}
		sort.Strings(missing)
		c.Check("C05/full-state/every-record", rule, ex.Pos, len(missing) == 0, fmt.Sprintf("an iteration over the member list ends without filling %v of the entry {%s}: the record is skipped or sent incomplete", missing, untok(gea.CubeString(ex.Cube))))
	}
	c.Floor("iterations of the state-packing loop", n, 1)
	for _, e := range x.Effects {
		if !strings.HasPrefix(e.Class, "W:pushNodeState.") {
			continue
		}
		f := strings.TrimPrefix(e.Class, "W:pushNodeState.")
		val := strings.ReplaceAll(norm(e.Detail["val"]), "~", "")
		if w, ok := want[f]; ok {
			c.Check("C05/full-state/field/"+f, rule, e.Pos, val == w || val == strings.Replace(w, ".Node.", ".", 1), "entry field "+f+" is filled from "+val)
		}
		if f == "Vsn" {
			pos, okV := 0, true
			for _, vf := range versionFields {
				i := strings.Index(val[pos:], "."+vf)
				if i < 0 {
					okV = false
					break
				}
				pos += i + 1
			}
			c.Check("C05/full-state/field/Vsn", rule, e.Pos, okV, "the version vector is filled from "+val)
		}
	}
	// the header announces, and the encoder writes, as many entries as the list holds
	xf := c.flow(fn, map[string]string{})
	okSize := false
	for _, e := range xf.Effects {
		if e.Class == "MAKE" && untok(e.Detail["size"]) == "len(m.nodes)" {
			okSize = true
		}
	}
	c.Check("C05/full-state/sized-by-list", rule, fn.Decl.Pos(), okSize, "the entry array is not sized by the member list's length")
}

// checkSuspectPiggyback: probing a member that is not alive tells it so.
func checkSuspectPiggyback(c *Ctx) {
	rule := "probing a member that is not alive sends, together with the ping, a suspect claim about that member (its incarnation, its name, signed by the prober) so that a live target can refute at once"
	c.Rule(rule)
	fn := c.MustFunc("Memberlist.probeNode")
	x := c.flow(fn, map[string]string{})
	n := 0
	for _, e := range x.Effects {
		if e.Class != "CALL:makeCompoundMessage" {
			continue
		}
		n++
		st := ""
		for k, v := range e.Cube {
			if strings.HasPrefix(k, "enum:") && strings.Contains(untok(k), "node.State") {
				st = v
			}
		}
		ok := false
		if m := suspectEncRe.FindStringSubmatch(untok(e.Detail["arg0"])); m != nil {
			base := m[1]
			lit := strings.ReplaceAll(norm(e.Store[base].S), "~", "")
			field := func(f string) string {
				if t, has := e.Store[base+"."+f]; has {
					return strings.ReplaceAll(norm(t.S), "~", "")
				}
				if k := strings.Index(lit, f+":"); k >= 0 {
					rest := lit[k+len(f)+1:]
					if q := strings.IndexAny(rest, ",}"); q >= 0 {
						return rest[:q]
					}
				}
				return ""
			}
			inc, node, from := field("Incarnation"), field("Node"), field("From")
			ok = strings.HasSuffix(inc, "node.Incarnation") && (node == "node.Node.Name" || node == "node.Name") && from == "m.config.Name"
		}
		c.Check("C05/probe/suspect-piggyback", rule, e.Pos, ok && st != "" && !gea.EnumIs(st, "StateAlive"), "the compound sent with the ping (target state "+st+") does not carry a suspect claim {incarnation: the record's, node: the record's name, from: the local node}")
	}
	c.Check("C05/probe/suspect-piggyback-present", rule, fn.Decl.Pos(), n > 0, "the probe never sends a compound of ping and suspicion")
}
