package rules

import (
	"fmt"
	"go/ast"
	"go/types"
	"regexp"
	"strings"

	"mlverif/core"
	"mlverif/gea"
)

var tokRe = regexp.MustCompile(`@[0-9]+:[0-9]+@`)

// untok strips position tokens (and modification markers) from a value name.
func untok(s string) string { return tokRe.ReplaceAllString(unmark(s), "") }

var lineRe = regexp.MustCompile(`#[0-9]+`)

// norm strips position tokens, markers and the declaration-line suffixes of local variables.
func norm(s string) string { return lineRe.ReplaceAllString(untok(s), "") }

func init() {
	register("C06", func(c *Ctx) {
		p := c.P
		hm := c.handlerModels()
		checkMerge(c, "C06") // each push/pull entry gets its own claim (the timer closure keeps the claim it was given)
		checkNodeCount(c, "C06") // k, min and max are computed from the cluster-size estimate
		checkLockOrder(c, "C06") // the timeout callback takes the node lock: it must never run on the goroutine that holds it
		c.mayRow(hm["suspect"], "C06/confirm/only-current-claims", "a suspect claim counts as a confirmation only if it is not older than the record: an accusation about an incarnation that was already refuted confirms nothing", classIn("CONFIRM"), func(g getf, e *gea.Effect) bool {
			return isT(g, vOK) && geq(g, vOrd)
		})
		c.Assume("the logarithmic schedule itself (float64 log(n+1)/log(k+1)), time.Timer punctuality and suspicionTimeout's numeric value are not decided")

		// ---- 1. Confirm: counted once per distinct confirmer, never beyond k, registered before returning
		conf := c.MustFunc("suspicion.Confirm")
		x := c.flow(conf, map[string]string{})
		under := func(e *gea.Effect) (nLtK, fresh bool) {
			if v, ok := cubeAtom(e.Cube, "cmp(m.k,m.n.Load()", ")"); ok && v == "GT" {
				nLtK = true
			}
			if v, ok := e.Cube["has:m.confirmations[from]"]; ok && v == "F" {
				fresh = true
			}
			return
		}
		n := c.flowMay(x, "C06/confirm/count-guard", "a confirmation is counted (and anything else done) only while fewer than k were counted and only for a confirmer not yet in the set",
			func(e *gea.Effect) bool { return true }, func(e *gea.Effect) (bool, string) {
				a, b := under(e)
				return a && b, "effect outside the n<k / new-confirmer region"
			})
		c.Floor("effects in Confirm", n, 5)
		c.flowMay(x, "C06/confirm/increment", "the counter is incremented by exactly one, after the confirmer was added to the set", func(e *gea.Effect) bool { return e.Class == "ATOMICW:suspicion.n" },
			func(e *gea.Effect) (bool, string) {
				return e.Detail["arg0"] == "1" && e.Seen["MAPINS:suspicion.confirmations"] == 1 && e.Seen["ATOMICW:suspicion.n"] == 0, "increment not preceded by the set insertion, or not by one"
			})
		c.flowMay(x, "C06/confirm/set-key", "the confirmer itself is what is added to the set", func(e *gea.Effect) bool { return e.Class == "MAPINS:suspicion.confirmations" },
			func(e *gea.Effect) (bool, string) { return e.Detail["key"] == "from", "key " + e.Detail["key"] })
		for _, ex := range x.Exits {
			if len(ex.Ret) != 1 {
				continue
			}
			counted := ex.Seen["ATOMICW:suspicion.n"] > 0
			ok := (ex.Ret[0] == "true") == counted && (!counted || ex.Seen["MAPINS:suspicion.confirmations"] > 0)
			c.Check("C06/confirm/result", "Confirm reports true exactly when it counted a new confirmer", ex.Pos, ok, "returns "+ex.Ret[0]+" with counted="+boolStr(counted))
		}
		// re-arming
		c.flowMay(x, "C06/confirm/rearm", "the timer is re-armed only with the helper's remaining time computed from (new count, k, time since start, min, max), only if it could be stopped and time remains; it is fired directly only if it could be stopped and no time remains (no double fire)",
			func(e *gea.Effect) bool {
				return e.Class == "TIMERCALL:Reset" || e.Class == "GO" || e.Class == "CALLVALUE" || e.Class == "CALL:remainingSuspicionTime"
			},
			func(e *gea.Effect) (bool, string) {
				stop, _ := cubeAtom(e.Cube, "?m.timer.Stop()", "")
				rem, okr := cubeAtom(e.Cube, "remainingSuspicionTime(", ">=1")
				switch e.Class {
				case "CALL:remainingSuspicionTime":
					d := e.Detail
					ok := strings.HasPrefix(d["arg0"], "m.n.Add(1)") && d["arg1"] == "m.k" && strings.HasPrefix(d["arg2"], "time.Since(m.start)") && d["arg3"] == "m.min" && d["arg4"] == "m.max"
					return ok, "arguments are not (new count, k, time since start, min, max)"
				case "TIMERCALL:Reset":
					return stop == "T" && okr && rem == "T" && strings.HasPrefix(e.Detail["arg0"], "remainingSuspicionTime(") && e.Detail["recv"] == "m.timer", "reset without successful stop / positive remaining time / helper value"
				default:
					return stop == "T" && okr && rem == "F" && e.Detail["fn"] == "m.timeoutFn", "direct fire without successful stop or with time remaining"
				}
			})

		// ---- 2. remaining time never below min - elapsed
		rem := c.MustFunc("remainingSuspicionTime")
		xr := c.flow(rem, map[string]string{})
		nr := 0
		for _, ex := range xr.Exits {
			if len(ex.Ret) != 1 {
				continue
			}
			nr++
			r := ex.Ret[0]
			ok := false
			why := "returned value is not (timeout - elapsed)"
			if strings.HasSuffix(r, "-elapsed)") && strings.HasPrefix(r, "(") {
				t := strings.TrimSuffix(strings.TrimPrefix(r, "("), "-elapsed)")
				if t == "min" || hasTopArg(t, "max", "min") {
					ok = true // the minimum itself, or the builtin max(..., min)
				} else {
					// the path must know timeout >= min
					for k, v := range ex.Cube {
						if strings.HasPrefix(k, "cmp(") && strings.Contains(k, t) {
							inner := strings.TrimSuffix(strings.TrimPrefix(k, "cmp("), ")")
							if inner == t+",min" && v != "LT" {
								ok = true
							}
							if inner == "min,"+t && v != "GT" {
								ok = true
							}
						}
					}
					why = "timeout may be below min on this path"
				}
			}
			c.Check("C06/remaining/clamped", "the remaining time is (timeout - elapsed) with timeout >= min on every path (confirmations never shorten the wait below the minimum)", ex.Pos, ok, why+": "+untok(r))
		}
		c.Floor("exits of the remaining-time helper", nr, 1) // one exit when the clamp is an expression (max builtin), two when it is a branch

		// ---- 3. constructor: accuser excluded, min when k<1 else max, fields from parameters
		ns := c.MustFunc("newSuspicion")
		xn := c.flow(ns, map[string]string{})
		nt := c.flowMay(xn, "C06/new/initial-timeout", "the timer starts with min when no confirmations are expected (k < 1) and with max otherwise, after the original accuser was put in the confirmer set",
			func(e *gea.Effect) bool { return e.Class == "TIMER" }, func(e *gea.Effect) (bool, string) {
				k := e.Cube["k>=1"]
				want := map[string]string{"T": "max", "F": "min"}[k]
				return want != "" && e.Detail["arg0"] == want && e.Seen["MAPINS:suspicion.confirmations"] == 1, "armed with " + e.Detail["arg0"] + " under k>=1=" + k
			})
		c.Floor("timer creations in the constructor", nt, 2)
		c.flowMay(xn, "C06/new/accuser-excluded", "the original accuser is entered in the confirmer set (so it never counts)", func(e *gea.Effect) bool { return e.Class == "MAPINS:suspicion.confirmations" },
			func(e *gea.Effect) (bool, string) { return e.Detail["key"] == "from", "key " + e.Detail["key"] })
		for _, ex := range xn.Exits {
			if len(ex.Ret) != 1 {
				continue
			}
			r := ex.Ret[0]
			ok := strings.Contains(r, "k:int32(k)") && strings.Contains(r, "min:min") && strings.Contains(r, "max:max") && ex.Seen["TIMER"] == 1 && ex.Seen["MAPINS:suspicion.confirmations"] == 1
			c.Check("C06/new/fields", "the constructor stores k, min and max from its like-named parameters and returns with the timer armed once", ex.Pos, ok, untok(r))
		}

		// ---- 4. the single construction site wires (from, k, min, max)
		s := hm["suspect"]
		c.mayRow(s, "C06/site/wiring", "suspicion is constructed with from = the claim's accuser, k = SuspicionMult-2 (0 when fewer than k other nodes could confirm), min = suspicionTimeout(SuspicionMult, node estimate, ProbeInterval), max = SuspicionMaxTimeoutMult x min",
			classIn("TIMERNEW"), func(g getf, e *gea.Effect) bool {
				d := e.Detail
				if d["from"] != "c.From" {
					return false
				}
				rel := ""
				for k, v := range e.Cube {
					if untok(k) == "cmp((m.config.SuspicionMult-2),(m.estNumNodes()-2))" {
						rel = v
					}
				}
				wantK := "(m.config.SuspicionMult-2)"
				if rel == "GT" {
					wantK = "0"
				}
				if rel == "" || d["k"] != wantK {
					return false
				}
				min := untok(d["min"])
				if min != "suspicionTimeout(m.config.SuspicionMult,m.estNumNodes(),m.config.ProbeInterval)" {
					return false
				}
				return untok(d["max"]) == "(time.Duration(m.config.SuspicionMaxTimeoutMult)*"+min+")"
			})
		c.mayRow(s, "C06/site/registered", "the new suspicion is registered under the suspected name in the same locked region that marks the record suspect", classIn("TIMERSET"), func(g getf, e *gea.Effect) bool {
			return e.Detail["key"] == "c.Node" && strings.HasPrefix(e.Detail["val"], "newSuspicion(") && e.Seen["W:State"] == 1 && e.Seen[lockL] == 1 && e.Seen[lockU] == 0
		})
		// the helper's argument order matches its parameter meaning
		if st := c.MustFunc("suspicionTimeout"); st != nil {
			// by use, not by spelling: the node count (2nd parameter) is what goes into the
			// logarithm; the multiplier (1st) and the interval (3rd, a Duration) are not
			var ps []types.Object
			for _, f := range st.Decl.Type.Params.List {
				for _, nm := range f.Names {
					ps = append(ps, p.Info.Defs[nm])
				}
			}
			logUses := map[types.Object]bool{}
			inspectFn(st, func(n ast.Node) bool {
				if call, ok := n.(*ast.CallExpr); ok {
					if f := p.Callee(call); f != nil && strings.HasPrefix(core.FuncFullName(f), "math.Log") {
						ast.Inspect(call, func(m ast.Node) bool {
							if id, ok := m.(*ast.Ident); ok {
								logUses[p.Info.Uses[id]] = true
							}
							return true
						})
					}
				}
				return true
			})
			okP := len(ps) == 3 && logUses[ps[1]] && !logUses[ps[0]] && !logUses[ps[2]] && core.NamedPkgOf(ps[2].Type()) == "time.Duration"
			c.Check("C06/site/helper-params", "suspicionTimeout takes (multiplier, node count, interval) in that order: the second parameter is the one scaled logarithmically, the third is the interval", st.Decl.Pos(), okP, "parameter roles do not match (multiplier, node count, interval)")
		}

		// ---- 5. the timer closure re-validates before declaring dead
		t := hm["timer"]
		var eqCond string
		inspectFn(s.fn, func(n ast.Node) bool {
			if call, ok := n.(*ast.CallExpr); ok {
				if f := p.Callee(call); f != nil && core.FuncFullName(f) == "time.Time.Equal" {
					eqCond = p.Canon(call)
					if se, ok := ast.Unparen(call.Fun).(*ast.SelectorExpr); ok && len(call.Args) == 1 {
						// a captured variable that became a parameter of an extracted helper is
						// traced back to the argument the handler passes
						eqCond = p.Canon(se.X) + ".Equal(" + p.Canon(c.traceParam(call.Args[0])) + ")"
					}
				}
			}
			return true
		})
		// the captured time is the value stored in StateChange by the suspect handler
		var stored string
		for _, e := range s.x.Effects {
			if e.Class == "W:StateChange" {
				stored = e.Detail["val"]
			}
		}
		nd := 0
		for _, e := range t.x.Effects {
			if e.Class != "CALL:dead" {
				continue
			}
			nd++
			same := false
			for k, v := range e.Cube {
				if strings.Contains(k, ".StateChange.Equal(") && v == "T" {
					same = true
				}
			}
			ok := e.Cube[vOK] == "T" && e.Cube[vS0] == "StateSuspect" && same
			c.Check("C06/timer/revalidates", "the timer declares the node dead only if its record still exists, is still suspect and its StateChange equals the time captured when this suspicion began (a stale timer cannot kill a re-suspicion)", e.Pos, ok, gea.CubeString(e.Cube))
			d := e.Detail
			c.Check("C06/timer/claim", "the timer's dead claim carries the record's own incarnation and name and is signed by the local node (a failure, not a leave)", e.Pos,
				d["Incarnation"] == "rec.Incarnation" && d["Node"] == "rec.Node.Name" && d["From"] == "m.config.Name", gea.CubeString(d))
		}
		c.Floor("dead-handler calls in the timer closure", nd, 1)
		// the compared time is the captured variable, which holds what was stored
		capOK := false
		if eqCond != "" && stored != "" {
			// eqCond like state#N.StateChange.Equal(changeTime#M); the stored value must be the same variable
			if i := strings.Index(eqCond, ".Equal("); i > 0 {
				arg := strings.TrimSuffix(eqCond[i+len(".Equal("):], ")")
				capOK = untok(stored) == untok(arg) || strings.HasPrefix(stored, arg)
				if !capOK {
					// stored is the value name of the variable: compare through the store
					for _, e := range s.x.Effects {
						if e.Class == "W:StateChange" {
							if tv, ok := e.Store[arg]; ok && tv.S == e.Detail["val"] {
								capOK = true
							}
						}
					}
				}
			}
		}
		c.Check("C06/timer/captured-time", "the time the timer compares against is the very value the suspect handler stored in StateChange", s.fn.Decl.Pos(), capOK, "compared "+eqCond+" stored "+stored)
		c.mayRow(t, "C06/timer/only-dead", "the timer closure does nothing but (possibly) call the dead handler", classNotIn("LOCK:*", "CALL:dead"), func(g getf, e *gea.Effect) bool { return false })
		c.Rule("the timer's read of the record happens under the node lock and the dead handler is called after releasing it")
		for _, e := range t.x.Effects {
			if e.Class == "CALL:dead" {
				c.Check("C06/timer/lock-discipline", "the timer's read of the record happens under the node lock and the dead handler is called after releasing it", e.Pos, e.Seen[lockL] == 1 && e.Seen[lockU] == 1, "lock state at the call")
			}
		}

		// ---- 6. invariant: a suspicion timer exists only while the record is suspect
		c.mayRow(s, "C06/invariant/timer-with-suspect", "a timer is registered only together with the write of state suspect", classIn("TIMERSET", "TIMERNEW"), func(g getf, e *gea.Effect) bool {
			if e.Class == "TIMERSET" {
				return e.Seen["W:State"] == 1
			}
			return true
		})
		for _, k := range []string{"alive", "dead"} {
			h := hm[k]
			c.mayRow(h, "C06/invariant/clear-before-state", "every write of a non-suspect state is preceded by clearing the suspicion timer on that path", classIn("W:State"), func(g getf, e *gea.Effect) bool {
				if e.Seen["MAPINS"] == 0 && k == "alive" && !aliveFound(g) {
					return true
				}
				// clearing is moot on a path that established that no timer exists
				return e.Seen["TIMERDEL"] >= 1 || g(vTimer) == "F"
			})
		}
		checkTimerCancel(c, "C06")
		nts := 0
		for _, st := range c.G.SitesOfKind("MAPINS:Memberlist.nodeTimers") {
			nts++
			c.Check("C06/invariant/timer-writers/"+st.Fn.Name, "only the suspect handler registers suspicion timers", st.Pos, c.allRoots(st.Fn, func(r *core.Func) bool { return r == s.fn }), st.Fn.Name)
		}
		c.Floor("timer registrations", nts, 1)
	})
}

func boolStr(b bool) string {
	if b {
		return "true"
	}
	return "false"
}

// checkTimerCancel: a running suspicion is cancelled only by a claim that is
// accepted. On every path through the alive and dead handlers that clears the
// suspicion timer of a record that is suspect (and not the local node), the
// record's state is rewritten on that path - otherwise the record would stay
// suspect with no timer, and nothing would ever declare it dead.
func checkTimerCancel(c *Ctx, prop string) {
	hm := c.handlerModels()
	rule := "a running suspicion is cancelled only by an accepted claim: whenever the alive or dead handler clears the timer of a suspect (non-local) record, it rewrites the record's state on that path"
	c.Rule(rule)
	// ... and while it runs nothing re-stamps the record: the timer revalidates against
	// the state-change time captured when it was armed, so a rewrite of that time (or of the
	// incarnation / state) by a later suspect claim would turn the timer into a no-op that
	// nobody re-arms
	c.mayRow(hm["suspect"], prop+"/invariant/no-restamp-while-suspected", "a suspect claim that finds a suspicion already running changes nothing in the record (the running timer revalidates against the state-change time it captured)",
		classIn("W:State", "W:StateChange", "W:Incarnation", "TIMERDEL", "TIMERSET", "TIMERNEW"), func(g getf, e *gea.Effect) bool { return !isT(g, vTimer) })
	for _, k := range []string{"alive", "dead"} {
		h := hm[k]
		for _, ex := range h.x.Exits {
			ex := ex
			if ex.Seen["TIMERDEL"] == 0 {
				continue
			}
			ok, wit := h.x.ForAll(ex.Cube, func(g getf) bool {
				if g(vS0) != "StateSuspect" || isT(g, vSelf) || !isT(g, vOK) {
					return true
				}
				if k == "alive" && !aliveFound(g) {
					return true
				}
				return ex.Seen["W:State"] > 0
			})
			w := ""
			if !ok {
				w = fmt.Sprintf("exit at %s cleared the suspicion timer of a suspect record without changing its state {%s}", c.P.Pos(ex.Pos), gea.CubeString(wit))
			}
			c.Check(prop+"/invariant/cancel-only-with-state-change/"+k, rule, ex.Pos, ok, w)
		}
	}
}

// hasTopArg: name is the rendering of fn(a1, ..., an) and one ai is exactly arg.
func hasTopArg(name, fn, arg string) bool {
	if !strings.HasPrefix(name, fn+"(") || !strings.HasSuffix(name, ")") {
		return false
	}
	body := name[len(fn)+1 : len(name)-1]
	depth, start := 0, 0
	var args []string
	for i, r := range body {
		switch r {
		case '(', '[', '{':
			depth++
		case ')', ']', '}':
			depth--
			if depth < 0 {
				return false // the closing parenthesis of fn( is not the last character
			}
		case ',':
			if depth == 0 {
				args = append(args, strings.TrimSpace(body[start:i]))
				start = i + 1
			}
		}
	}
	args = append(args, strings.TrimSpace(body[start:]))
	for _, a := range args {
		if a == arg {
			return true
		}
	}
	return false
}

// checkNodeCount: the cluster-size estimate (numNodes) follows the member
// list. The suspicion parameters (k, min, max), the retransmit limit and the
// push/pull scaling are all computed from it; an estimate that keeps counting
// reaped records makes a shrunken cluster wait for confirmations that can
// never arrive.
func checkNodeCount(c *Ctx, prop string) {
	p := c.P
	rule := "the cluster-size estimate follows the member list: every append to the list is counted (+1) on the same path, and after the reaper truncates the list the estimate is set to the truncated length"
	c.Rule(rule)
	// 1. appends (alive handler)
	a := c.handlerModels()["alive"]
	na := 0
	for _, ex := range a.x.Exits {
		if ex.Seen["APPEND"] == 0 {
			continue
		}
		na++
		c.Check(prop+"/node-count/append-counted", rule, ex.Pos, ex.Seen["ATOMICW:Memberlist.numNodes"] > 0, "exit at "+p.Pos(ex.Pos)+" appended a record to the member list without advancing the estimate")
	}
	c.Floor("exits of the alive handler that appended a record", na, 1)
	// 2. truncations
	nt := 0
	for _, fn := range p.SortedFuncs() {
		if !pinnedFuncs[fn.Name] || fn == a.fn || !c.G.Summary(fn)["W:Memberlist.nodes"] {
			continue
		}
		x := c.flow(fn, map[string]string{})
		for _, ex := range x.Exits {
			if ex.Seen["W:Memberlist.nodes"] == 0 {
				continue
			}
			// the list's final value on this path
			var lastW, lastC *gea.Effect
			for _, e := range x.Effects {
				if !subCube(e.Cube, ex.Cube) {
					continue
				}
				switch e.Class {
				case "W:Memberlist.nodes":
					lastW = e
				case "ATOMICW:Memberlist.numNodes":
					lastC = e
				}
			}
			if lastW == nil {
				continue
			}
			val := untok(lastW.Detail["val"])
			hi := ""
			if i := strings.Index(val, "["); i >= 0 && strings.HasSuffix(val, "]") {
				if j := strings.Index(val[i:], ":"); j >= 0 {
					hi = val[i+j+1 : len(val)-1]
				}
			}
			if hi == "" {
				continue // not a re-slice (appends are judged above)
			}
			nt++
			got := ""
			if lastC != nil {
				got = untok(lastC.Detail["arg0"])
				for _, conv := range []string{"uint32(", "int(", "uint64(", "int32("} {
					if strings.HasPrefix(got, conv) && strings.HasSuffix(got, ")") {
						got = got[len(conv) : len(got)-1]
					}
				}
			}
			ok := lastC != nil && (got == hi || got == "len("+val+")")
			c.Check(prop+"/node-count/truncate-recounted/"+fn.Name, rule, ex.Pos, ok, "the member list is cut to ["+hi+"] entries but the estimate is set to "+map[bool]string{true: got, false: "(nothing)"}[lastC != nil]+": it keeps counting records that were reaped")
		}
	}
	c.Floor("paths that truncate the member list", nt, 1)
}

// subCube: every atom of a that b also decides has the same value there.
func subCube(a, b map[string]string) bool {
	for k, v := range a {
		if w, ok := b[k]; ok && w != v {
			return false
		}
	}
	return true
}
