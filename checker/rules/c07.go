package rules

import (
	"fmt"
	"go/ast"
	"go/types"
	"strings"

	"mlverif/core"
	"mlverif/gea"
)

func isMember(s string) bool { return s == "StateAlive" || s == "StateSuspect" }

// curState resolves the record's state at an effect/exit (a constant, or the
// entry state when it has not been written).
func curState(store map[string]gea.Term, g getf) string {
	t, ok := store["rec.State"]
	if !ok {
		return g(vS0)
	}
	switch t.K {
	case gea.KConst:
		return t.S
	case gea.KRef:
		return g(t.S)
	}
	return "?"
}

func init() {
	register("C07", func(c *Ctx) {
		hm := c.handlerModels()
		p := c.P
		c.Assume("for the running local node the own record is alive (self and not left implies S0 = alive): discharged by C02's no-self-write rows with the bootstrap announcement as base case")
		c.Assume("what a delegate does inside a callback (re-entering the API) is out of scope")

		// 1. every event call site sits in a claim handler and runs under the write lock
		rule := "every EventDelegate notification is issued from a claim handler while nodeLock is held in write mode (never concurrently, atomically with the state change)"
		c.Rule(rule)
		handlers := map[*core.Func]bool{hm["alive"].fn: true, hm["suspect"].fn: true, hm["dead"].fn: true}
		n := 0
		for _, s := range c.G.SitesOfKind("EVT:") {
			n++
			c.Check("C07/event-site/"+s.Fn.Name+"/"+s.Kind, rule, s.Pos, c.onlyWithin(s.Fn, handlers, 0) && p.EnclosingFunc(s.Node) == ast.Node(s.Fn.Decl), "event notification outside the claim handlers' locked region: "+s.Fn.Name)
		}
		c.Floor("EventDelegate call sites", n, 3)
		for _, k := range []string{"alive", "suspect", "dead"} {
			h := hm[k]
			c.mayRow(h, "C07/locked", rule, classIn("EVT:*"), func(g getf, e *gea.Effect) bool { return e.Seen[lockL] == 1 && e.Seen[lockU] == 0 })
			c.mayRow(h, "C07/single-event", "no path through a handler emits two events", classIn("EVT:*"), func(g getf, e *gea.Effect) bool {
				for k, v := range e.Seen {
					if strings.HasPrefix(k, "EVT:") && v > 0 {
						return false
					}
				}
				return true
			})
			c.mayRow(h, "C07/event-arg", "the event carries the live record's Node (what Members() shows), evaluated after the writes", classIn("EVT:*"), func(g getf, e *gea.Effect) bool {
				return e.Detail["arg"] == "&rec.Node"
			})
		}
		c.mayRow(hm["suspect"], "C07/suspect-silent", "a suspect claim never emits an event (a suspect is still a member)", classIn("EVT:*"), func(g getf, e *gea.Effect) bool { return false })
		c.mayRow(hm["timer"], "C07/timer-silent", "the suspicion timer emits no event itself (it goes through the dead handler)", classIn("EVT:*"), func(g getf, e *gea.Effect) bool { return false })

		checkLeaveFlagMonotone(c, "C07")
		// 2. Members()/NumMembers() filter exactly on dead/left
		checkMembersFilter(c)

		// 3. events <=> boundary crossings
		a, d := hm["alive"], hm["dead"]
		assume := func(g getf) bool { // invariant: running local node's record is alive
			return !(aliveFound(g) && isT(g, vSelf) && !isT(g, vLeft) && g(vS0) != "StateAlive")
		}
		newSelf := func(g getf) bool { return !aliveFound(g) && isT(g, vSelf) && !isT(g, vBoot) }
		c.mayRow(a, "C07/join-iff", "a join event is emitted only when a dead/left (or new) record has just become alive", classIn("EVT:Join"), func(g getf, e *gea.Effect) bool {
			if !assume(g) || newSelf(g) {
				return true
			}
			return deadOrLeft(alivePrior(g)) && curState(e.Store, g) == "StateAlive"
		})
		c.mayRow(a, "C07/join-iff-unknown-self", "a network alive claim naming the local node while no local record exists emits no join event (nothing became alive)", classIn("EVT:Join"), func(g getf, e *gea.Effect) bool {
			if !newSelf(g) {
				return true
			}
			return curState(e.Store, g) == "StateAlive"
		})
		c.mayRow(a, "C07/update-iff", "an update event is emitted only for a record that was and stays a member and whose metadata changed (saved metadata compared with the stored one)", classIn("EVT:Update"), func(g getf, e *gea.Effect) bool {
			if !assume(g) {
				return true
			}
			return isMember(alivePrior(g)) && isMember(curState(e.Store, g)) && aliveFound(g) && !isT(g, aMetaEq)
		})
		c.mayRow(a, "C07/alive-no-leave", "the alive handler never emits a leave event", classIn("EVT:Leave"), func(g getf, e *gea.Effect) bool { return false })
		c.mayRow(d, "C07/leave-iff", "a leave event is emitted only when a member record (alive/suspect) has just become dead/left", classIn("EVT:Leave"), func(g getf, e *gea.Effect) bool {
			return isMember(g(vS0)) && deadOrLeft(curState(e.Store, g))
		})
		c.mayRow(d, "C07/dead-only-leave", "the dead handler emits only leave events", classIn("EVT:Join", "EVT:Update"), func(g getf, e *gea.Effect) bool { return false })
		// must: every boundary crossing has its event (Events configured)
		c.Rule("every change of Members() is announced: a record crossing the dead/left boundary on a handler exit has its join / leave event on that path (when an EventDelegate is configured)")
		for _, ex := range a.x.Exits {
			ex := ex
			ok, wit := a.x.ForAll(ex.Cube, func(g getf) bool {
				if !assume(g) || isT(g, aEvNil) {
					return true
				}
				if ex.Seen["MAPINS"] == 0 && !aliveFound(g) {
					return true // nothing inserted
				}
				if deadOrLeft(alivePrior(g)) && curState(ex.Store, g) == "StateAlive" {
					return ex.Seen["EVT:Join"] > 0
				}
				return true
			})
			w := ""
			if !ok {
				w = fmt.Sprintf("exit at %s: record became alive without a join event under {%s}", p.Pos(ex.Pos), gea.CubeString(wit))
			}
			c.Check("C07/join-complete", "every change of Members() is announced (join)", ex.Pos, ok, w)
			ok2, wit2 := a.x.ForAll(ex.Cube, func(g getf) bool {
				if !assume(g) || isT(g, aEvNil) || !aliveFound(g) {
					return true
				}
				// metadata stored from the claim and different from the saved one
				if isMember(g(vS0)) && ex.Seen["W:Meta"] > 0 && !isT(g, aMetaEq) {
					return ex.Seen["EVT:Update"] > 0
				}
				return true
			})
			w2 := ""
			if !ok2 {
				w2 = fmt.Sprintf("exit at %s: member's metadata changed without an update event under {%s}", p.Pos(ex.Pos), gea.CubeString(wit2))
			}
			c.Check("C07/update-complete", "a member's metadata change is announced by an update event", ex.Pos, ok2, w2)
		}
		for _, ex := range d.x.Exits {
			ex := ex
			ok, wit := d.x.ForAll(ex.Cube, func(g getf) bool {
				if isT(g, aEvNil) {
					return true
				}
				if isT(g, vOK) && isMember(g(vS0)) && deadOrLeft(curState(ex.Store, g)) {
					return ex.Seen["EVT:Leave"] > 0
				}
				return true
			})
			w := ""
			if !ok {
				w = fmt.Sprintf("exit at %s: member became dead/left without a leave event under {%s}", p.Pos(ex.Pos), gea.CubeString(wit))
			}
			c.Check("C07/leave-complete", "every change of Members() is announced (leave)", ex.Pos, ok, w)
		}
		// the suspect handler never moves a record across the boundary
		c.mayRow(hm["suspect"], "C07/suspect-no-crossing", "the suspect handler never moves a record across the member boundary", classIn("W:State"), func(g getf, e *gea.Effect) bool {
			return isMember(g(vS0)) && e.Detail["val"] == "StateSuspect"
		})
		// 4. the only other way the member set changes is reaping of dead/left records
		checkWriters(c, "C07")
		checkReaper(c, "C07")
	})
}

// checkMembersFilter: Members and NumMembers iterate the node list and keep
// exactly the records that are not dead/left.
func checkMembersFilter(c *Ctx) {
	p := c.P
	rule := "Members()/NumMembers() list exactly the records of the node list that are neither dead nor left"
	c.Rule(rule)
	for _, name := range []string{"Memberlist.Members", "Memberlist.NumMembers"} {
		fn := c.MustFunc(name)
		ok := false
		why := "no loop over the node list that includes exactly the records that are neither dead nor left"
		inspectFn(fn, func(n ast.Node) bool {
			rs, isR := n.(*ast.RangeStmt)
			if !isR || p.FieldOwner(rs.X) != "Memberlist.nodes" {
				return true
			}
			// one iteration of the loop body, explored for an element in each of the four states:
			// the element is included (appended to the result / counted) iff it is neither dead nor left
			spec := &memberIterSpec{}
			x := gea.New(p, name+"$iteration", fn.Decl.Type, rs.Body, spec)
			x.InlineCallee = c.inlinePolicy
			x.DeclareVar("S", stateDom)
			if id, isId := rs.Value.(*ast.Ident); isId && id.Name != "_" {
				spec.elem = p.Info.Defs[id]
			}
			if id, isId := rs.Key.(*ast.Ident); isId && id.Name != "_" {
				spec.key = p.Info.Defs[id]
			}
			x.Run()
			if x.Trunc {
				fail("exploration of %s exceeded the state limit", name+"$iteration")
			}
			good := len(x.Exits) > 0
			for _, ex := range x.Exits {
				ex := ex
				okx, wit := x.ForAll(ex.Cube, func(g getf) bool {
					inc := ex.Seen["INCLUDE"]
					if inc > 1 {
						return false
					}
					return (inc == 1) == !deadOrLeft(g("S"))
				})
				if !okx {
					good = false
					why = fmt.Sprintf("an iteration ending at %s includes the record=%v under {%s}", p.Pos(ex.Pos), ex.Seen["INCLUDE"] > 0, gea.CubeString(wit))
				}
			}
			for _, e := range x.Effects {
				if e.Class == "INCLUDE" && e.Detail["what"] != "" && e.Detail["what"] != "&n.Node" {
					good = false
					why = "the entry listed is " + e.Detail["what"] + ", not the element's own Node"
				}
			}
			if good {
				ok = true
			}
			return true
		})
		c.Check("C07/members-filter/"+name, rule, fn.Decl.Pos(), ok, why)
	}
}

// memberIterSpec explores one iteration of a loop over the node list: the
// element (range value, or a local loaded from nodes[key]) is named "n" with
// its state the free variable S; appending to a slice or counting up a
// variable is the effect INCLUDE.
type memberIterSpec struct {
	gea.Base
	elem, key types.Object
}

func (s *memberIterSpec) Init(x *gea.Exec, st *gea.State) *gea.State {
	if s.elem != nil {
		x.SetAlias(s.elem, "n")
	}
	return st.Bind("n.State", gea.Ref("S"))
}

func (s *memberIterSpec) Assign(x *gea.Exec, st *gea.State, lhs, rhs ast.Expr, val gea.Term) *gea.State {
	p := x.P
	if rhs == nil {
		// counting: v++ on an integer variable
		if id, ok := ast.Unparen(lhs).(*ast.Ident); ok && isIntegerT(p.TypeOf(id)) {
			return x.Effect(st, "INCLUDE", lhs.Pos(), map[string]string{})
		}
		return st
	}
	if ix, ok := ast.Unparen(rhs).(*ast.IndexExpr); ok && p.FieldOwner(ix.X) == "Memberlist.nodes" {
		if kid, ok := ast.Unparen(ix.Index).(*ast.Ident); ok && s.key != nil && p.Info.Uses[kid] == s.key {
			// elem := m.nodes[key]
			return st.Bind(x.LocKey(st, lhs, nil), gea.Sym("n"))
		}
	}
	return st
}

func (s *memberIterSpec) Call(x *gea.Exec, st *gea.State, call *ast.CallExpr, env *gea.Env) ([]*gea.State, bool) {
	if x.P.Builtin(call) == "append" && len(call.Args) == 2 {
		return []*gea.State{x.Effect(st, "INCLUDE", call.Pos(), map[string]string{"what": x.ValueName(st, call.Args[1], env)})}, true
	}
	return nil, false
}

// checkReaper: the reaper removes from the tables only the tail the partition
// helper produced, and the helper moves only dead/left records that are older
// than the gossip-to-the-dead time.
func checkReaper(c *Ctx, prop string) {
	p := c.P
	var reaper *core.Func
	for _, fn := range p.SortedFuncs() {
		if isReaper(c, fn) {
			reaper = fn
		}
	}
	if reaper == nil {
		fail("anchor unresolved: reaper (truncates the member list and deletes from the name table)")
	}
	c.Funcs[reaper.Name] = true
	rule := "records leave the tables only by reaping, and only dead/left records past the gossip-to-the-dead time are reaped (so reaping never changes Members())"
	c.Rule(rule)
	// the partition helper: called by the reaper with the node list
	var part *core.Func
	for _, s := range c.G.Sites[reaper] {
		if s.Kind == "CALL" && s.Call != nil && len(s.Call.Args) > 0 && p.FieldOwner(s.Call.Args[0]) == "Memberlist.nodes" {
			if t := p.ByObj[s.To]; t != nil {
				if r := t.Decl.Type.Results; r != nil && len(r.List) == 1 {
					part = t
				}
			}
		}
	}
	if part == nil {
		fail("anchor unresolved: partition helper called by the reaper")
	}
	c.Funcs[part.Name] = true
	// in the helper every swap (element assignment) is reached only with DeadOrLeft && age > limit
	// one iteration of the helper's loop, explored on its own (so that atoms
	// of earlier iterations cannot be confused with the current element's)
	var loopBody *ast.BlockStmt
	inspectFn(part, func(n ast.Node) bool {
		if fs, ok := n.(*ast.ForStmt); ok && loopBody == nil {
			loopBody = fs.Body
		}
		return true
	})
	if loopBody == nil {
		fail("anchor unresolved: loop of the partition helper %s", part.Name)
	}
	x := gea.New(p, part.Name+"$iteration", part.Decl.Type, loopBody, &swapSpec{})
	x.Run()
	nsw := 0
	for _, e := range x.Effects {
		if e.Class != "SWAP" {
			continue
		}
		nsw++
		e := e
		ok, wit := x.ForAll(e.Cube, func(g getf) bool {
			dl, aged := false, false
			for k, v := range e.Cube {
				if strings.HasPrefix(k, "enum:") && strings.Contains(k, ".State") {
					dl = deadOrLeft(v)
				}
				if strings.HasPrefix(k, "cmp(") && strings.Contains(k, "time.Since(") && strings.Contains(k, "StateChange") {
					// cmp(limit, time.Since(...)) or the reverse, by name order
					if strings.Index(k, "time.Since(") < strings.Index(k, ",") {
						aged = v == "GT"
					} else {
						aged = v == "LT"
					}
				}
			}
			_ = g
			return dl && aged
		})
		w := ""
		if !ok {
			w = "record moved to the reaped tail under {" + gea.CubeString(wit) + "}"
		}
		c.Check(prop+"/reaper/partition-guard", rule, e.Pos, ok, w)
	}
	c.Floor("partition swaps", nsw, 1)
	// in the reaper: deletes are inside a loop starting at the helper's result
	okLoop := false
	inspectFn(reaper, func(n ast.Node) bool {
		fs, isF := n.(*ast.ForStmt)
		if !isF || fs.Init == nil {
			return true
		}
		as, isA := fs.Init.(*ast.AssignStmt)
		if !isA || len(as.Rhs) != 1 {
			return true
		}
		id, isId := ast.Unparen(as.Rhs[0]).(*ast.Ident)
		if !isId {
			return true
		}
		// id must be the variable holding the helper's result
		src := false
		inspectFn(reaper, func(m ast.Node) bool {
			if a2, ok := m.(*ast.AssignStmt); ok && len(a2.Rhs) == 1 && len(a2.Lhs) == 1 {
				if call, ok := ast.Unparen(a2.Rhs[0]).(*ast.CallExpr); ok && p.Callee(call) == part.Obj {
					if l, ok := a2.Lhs[0].(*ast.Ident); ok && p.Info.Defs[l] == p.Info.Uses[id] {
						src = true
					}
				}
			}
			return true
		})
		hasDel := false
		ast.Inspect(fs.Body, func(m ast.Node) bool {
			if call, ok := m.(*ast.CallExpr); ok && p.Builtin(call) == "delete" && p.FieldOwner(call.Args[0]) == "Memberlist.nodeMap" {
				hasDel = true
			}
			return true
		})
		if src && hasDel {
			okLoop = true
		}
		return true
	})
	ndel := 0
	for _, s := range c.G.Sites[reaper] {
		if s.Kind == "MAPDEL:Memberlist.nodeMap" {
			ndel++
		}
	}
	c.Check(prop+"/reaper/deletes-tail-only", rule, reaper.Decl.Pos(), okLoop && ndel == 1, "the reaper's name-table delete is not confined to the loop over the partitioned tail")
	checkReaperTablesInSync(c, prop, reaper)
}

// checkReaperTablesInSync: name table and member list stay in step. One
// iteration of the reaper's loop over the partitioned tail is explored on its
// own: every record dropped from the list also loses its name-table entry,
// except the local node's own record (kept for the query API). A record that
// stays findable by name after it left the list can be revived by the alive
// handler - with a join event - without ever being listed by Members() again.
func checkReaperTablesInSync(c *Ctx, prop string, reaper *core.Func) {
	p := c.P
	rule := "name table and member list stay in step: every record the reaper drops from the list also loses its name-table entry on every path, except the local node's own"
	c.Rule(rule)
	n := 0
	inspectFn(reaper, func(nd ast.Node) bool {
		fs, isF := nd.(*ast.ForStmt)
		if !isF {
			return true
		}
		hasDel := false
		ast.Inspect(fs.Body, func(m ast.Node) bool {
			if call, ok := m.(*ast.CallExpr); ok && p.Builtin(call) == "delete" && p.FieldOwner(call.Args[0]) == "Memberlist.nodeMap" {
				hasDel = true
			}
			return true
		})
		if !hasDel {
			return true
		}
		spec := &flowSpec{c: c, alias: map[types.Object]string{}, quiet: map[string]bool{}}
		if reaper.Decl.Recv != nil && len(reaper.Decl.Recv.List[0].Names) > 0 {
			spec.recv = p.Info.Defs[reaper.Decl.Recv.List[0].Names[0]]
		}
		x := c.Explore(reaper.Name+"$iteration", reaper.Decl.Type, fs.Body, spec)
		for _, ex := range x.Exits {
			n++
			self := ""
			for k, v := range ex.Cube {
				if strings.HasPrefix(k, "eq(") && strings.Contains(k, "m.config.Name") {
					self = v
				}
			}
			ok := ex.Seen["MAPDEL:Memberlist.nodeMap"] > 0 || self == "T"
			c.Check(prop+"/reaper/tables-in-sync", rule, ex.Pos, ok, "an iteration over the reaped tail ends at "+p.Pos(ex.Pos)+" without deleting the record's name-table entry {"+gea.CubeString(ex.Cube)+"}: the record stays findable by name after it left the member list")
		}
		return true
	})
	c.Floor("iterations of the reaper's loop explored", n, 2)
}

// swapSpec records element swaps in the partition helper.
type swapSpec struct{ gea.Base }

func (s *swapSpec) Assign(x *gea.Exec, st *gea.State, lhs, rhs ast.Expr, val gea.Term) *gea.State {
	if ix, ok := ast.Unparen(lhs).(*ast.IndexExpr); ok {
		if _, isSlice := x.P.TypeOf(ix.X).Underlying().(interface{ Elem() interface{} }); isSlice || true {
			return x.Effect(st, "SWAP", lhs.Pos(), nil)
		}
	}
	return st
}
