package rules

import (
	"fmt"
	"go/ast"
	"go/token"
	"strings"

	"mlverif/core"
	"mlverif/gea"
)

// leaveModel explores the graceful-leave entry point: the exported method
// that stores the leave flag and submits a dead claim.
func (c *Ctx) leaveModel() *handlerModel {
	if m, ok := c.models["leave"]; ok {
		return m.(*handlerModel)
	}
	p := c.P
	hm := c.handlerModels()
	var target *core.Func
	for _, fn := range p.SortedFuncs() {
		direct := map[string]bool{}
		callsDead := false
		for _, s := range c.G.Sites[fn] {
			direct[s.Kind] = true
			if s.Kind == "CALL" && s.To == hm["dead"].fn.Obj {
				callsDead = true
			}
		}
		// ... and uses the departure-notification channel (receives from it, or hands it
		// to a helper that does)
		waits := false
		inspectFn(fn, func(n ast.Node) bool {
			if e, ok := n.(ast.Expr); ok && p.FieldOwner(e) == "Memberlist.leaveBroadcast" {
				waits = true
			}
			return true
		})
		if waits && callsDead {
			if target != nil {
				fail("anchor ambiguous: two functions submit a dead claim and wait for the departure notification")
			}
			target = fn
		}
	}
	if target == nil {
		fail("anchor unresolved: Leave (submits a dead claim and waits for the departure notification)")
	}
	spec := &hSpec{c: c, kind: "leave", fn: target}
	spec.recv = p.Info.Defs[target.Decl.Recv.List[0].Names[0]]
	x := gea.New(p, target.Name, target.Decl.Type, target.Decl.Body, spec)
	x.InlineCallee = c.inlinePolicy
	x.Run()
	if x.Trunc {
		fail("exploration of %s exceeded the state limit", target.Name)
	}
	c.Funcs[target.Name] = true
	m := &handlerModel{kind: "leave", fn: target, x: x, name: target.Name}
	c.models["leave"] = m
	return m
}

func init() {
	register("C08", func(c *Ctx) {
		hm := c.handlerModels()
		checkMerge(c, "C08") // a departure learned by push/pull is delivered as a self-signed claim (left, not failed)
		p := c.P
		c.Assume("that the departure reaches a peer (network) and ordering against in-flight traffic on peers beyond the per-claim rows are not decided")

		// 1. Leave: flag before claim, self-signed claim from the local record, serialised, no-op when repeated
		l := c.leaveModel()
		c.mayRow(l, "C08/leave/flag-first", "Leave stores the leave flag before it submits its departure claim", classIn("CALL:dead"), func(g getf, e *gea.Effect) bool {
			return e.Seen["ATOMICW:Memberlist.leave"] > 0
		})
		c.mayRow(l, "C08/leave/self-signed", "the departure claim is self-signed (Node and From are the local record's own name) and carries the local record's incarnation, read under the node lock after the flag is stored", classIn("CALL:dead"), func(g getf, e *gea.Effect) bool {
			d := e.Detail
			return d["Node"] == "rec.Node.Name" && d["From"] == "rec.Node.Name" && d["Incarnation"] == "rec.Incarnation"
		})
		c.mayRow(l, "C08/leave/serialised", "Leave is serialised by its own lock", classNotIn("LOCK:*"), func(g getf, e *gea.Effect) bool {
			return e.Seen["LOCK:Lock:m.leaveLock"] == 1 && e.Seen["LOCK:Unlock:m.leaveLock"] == 0
		})
		c.mayRow(l, "C08/leave/once", "a repeated Leave is a no-op: the flag store and the claim happen only if the node had not left", classIn("ATOMICW:Memberlist.leave", "CALL:dead"), func(g getf, e *gea.Effect) bool {
			return !isT(g, vLeft)
		})
		c.mustRow(l, "C08/leave/submits", "a first Leave of a running node whose record exists stores the flag and submits the claim on every path",
			[]string{"ATOMICW:Memberlist.leave", "CALL:dead"}, func(g getf) bool {
				return !isT(g, vLeft) && isT(g, vOK) && !isT(g, "shutdown")
			})
		checkLeaveFlagMonotone(c, "C08")
		checkLeaveWait(c, l)

		// 2. dead handler: left <=> self-signed; own departure is gossiped with the notification channel Leave waits on
		d := hm["dead"]
		c.mayRow(d, "C08/dead/left-iff-selfsigned", "a member is recorded as left exactly when the dead claim is self-signed (Node == From), otherwise as dead", classIn("W:State"), func(g getf, e *gea.Effect) bool {
			if isT(g, aSelfSig) {
				return e.Detail["val"] == "StateLeft"
			}
			return e.Detail["val"] == "StateDead"
		})
		// the leaving node is retired only by its own (self-signed) departure claim: an
		// accusation by somebody else that slips in between Leave setting its flag and
		// submitting the claim must not mark the local record dead, gossip "failed" and
		// complete Leave's wait in place of the real leave message
		c.mayRow(d, "C08/dead/self-retired-only-by-own-claim", "while leaving, the local node's record is rewritten (and Leave's notification armed) only by its own self-signed departure claim, never by another node's accusation", classIn("W:State", "W:Incarnation", "BCAST", "EVT:*"), func(g getf, e *gea.Effect) bool {
			if isT(g, vSelf) && isT(g, vLeft) {
				return isT(g, aSelfSig)
			}
			return true
		})
		waitCh := ""
		for _, e := range l.x.Effects {
			if e.Class == "RECV" && strings.Contains(e.Detail["chan"], "leaveBroadcast") {
				waitCh = e.Detail["chan"]
			}
		}
		c.mayRow(d, "C08/dead/own-departure-notifies", "the leaving node gossips its own departure with the notification channel Leave waits on", classIn("BCAST"), func(g getf, e *gea.Effect) bool {
			if isT(g, vSelf) {
				return isT(g, vLeft) && e.Detail["notify"] != "" && e.Detail["notify"] == waitCh && e.Detail["type"] == "deadMsg"
			}
			return e.Detail["type"] == "deadMsg"
		})

		// 3. once left, the node neither refutes nor lets an alive claim about itself through
		for _, k := range []string{"alive", "suspect", "dead"} {
			c.mayRow(hm[k], "C08/no-refute-once-left", "sibling agreement: in all three handlers a refutation requires that the node has not left", classIn("REFUTE"), func(g getf, e *gea.Effect) bool {
				return !isT(g, vLeft)
			})
		}
		c.mayRow(hm["suspect"], "C08/suspect/departure-is-final", "a departure is final: a suspect claim never rewrites a record that has left (or is dead) and never starts a suspicion for it - only an alive record can become suspect", classIn("W:*", "TIMERNEW", "TIMERSET"), func(g getf, e *gea.Effect) bool {
			return g(vS0) == "StateAlive"
		})
		c.mayRow(hm["alive"], "C08/alive/left-self-inert", "once the node has left, an alive claim about itself (queued or from the network) has no effect at all", classNotIn("LOCK:*"), func(g getf, e *gea.Effect) bool {
			return !(isT(g, vLeft) && isT(g, vSelf))
		})

		// 4. anti-hijack: a different address never replaces a live / recently dead holder
		a := hm["alive"]
		c.mayRow(a, "C08/alive/addr-change", "an alive claim from a different address changes the record only for a holder that has left, or has been dead longer than the (configured, positive) reclaim time, and only to an allowed address", classIn("W:Addr", "W:Port", "W:State", "W:Incarnation", "W:Meta", "BCAST", "EVT:*", "TIMERDEL", "REFUTE"), func(g getf, e *gea.Effect) bool {
			if !aliveFound(g) || addrSame(g) {
				return true
			}
			return isT(g, vIPOK) && canReclaim(g)
		})
		c.mayRow(a, "C08/alive/conflict", "otherwise the conflict callback (when configured) is told about the existing record and the claimed node, and nothing else happens", classIn("CONFLICT"), func(g getf, e *gea.Effect) bool {
			return aliveFound(g) && !addrSame(g) && !canReclaimStrict(g) && e.Detail["existing"] == "&rec.Node" && e.Detail["other.Addr"] == "c.Addr" && e.Detail["other.Name"] == "c.Node" && e.Detail["other.Port"] == "c.Port"
		})
		c.existsRow(a, "C08/alive/conflict-exists", "a different-address claim for a live holder reaches the conflict callback (delegates consenting)", []string{"CONFLICT"},
			[]string{vOK, vS0, aAddrEq, vIPOK, vLeft, vSelf, "m.config.Conflict==nil"}, func(g getf) bool {
				return aliveFound(g) && !isT(g, aAddrEq) && isT(g, vIPOK) && isMember(g(vS0)) && !isT(g, "m.config.Conflict==nil") && !(isT(g, vLeft) && isT(g, vSelf))
			})
		checkReclaimExists(c, "C08")
		// the reclaim predicate is built from the same configuration field on both sides
		checkReclaimDefUse(c, a)

		// 5. alive claims no newer than the departure never bring a left member back
		c.mayRow(a, "C08/alive/no-resurrection", "an alive claim no newer than the recorded departure, from the same address, changes nothing", classIn("W:*", "BCAST", "EVT:*", "TIMERDEL"), func(g getf, e *gea.Effect) bool {
			if aliveFound(g) && !isT(g, vSelf) && addrSame(g) && deadOrLeft(g(vS0)) {
				return g(vOrd) == "GT"
			}
			return true
		})
		c.mayRow(d, "C08/dead/departure-incarnation", "the departure is recorded at the incarnation the claim carries (so that only strictly newer alive claims can override it)", classIn("W:Incarnation"), func(g getf, e *gea.Effect) bool {
			return e.Detail["val"] == "c.Incarnation"
		})
		c.mustRow(d, "C08/dead/records-incarnation", "every accepted dead/leave claim stores the claim's incarnation together with the state", []string{"W:Incarnation"}, func(g getf) bool {
			// accepted: about another node, or the leaving node's own self-signed claim
			return isT(g, vOK) && geq(g, vOrd) && !deadOrLeft(g(vS0)) && (!isT(g, vSelf) || (isT(g, vLeft) && isT(g, aSelfSig)))
		})
		// the leaving node's own claim is accepted on every path (otherwise Leave would wait for a
		// notification nobody arms)
		c.mustRow(d, "C08/dead/own-claim-accepted", "the leaving node's own self-signed departure claim is accepted on every path: record marked left, departure gossiped with the notification channel", []string{"W:State", "BCAST"}, func(g getf) bool {
			return isT(g, vOK) && geq(g, vOrd) && !deadOrLeft(g(vS0)) && isT(g, vSelf) && isT(g, vLeft) && isT(g, aSelfSig)
		})
		_ = p
	})
}

// checkLeaveWait: the blocking wait for the departure notification has a
// timeout arm armed from the timeout parameter whenever it is positive, and
// is entered only if another live member exists.
func checkLeaveWait(c *Ctx, l *handlerModel) {
	p := c.P
	rule := "Leave never blocks past its timeout: the wait for the departure notification sits in a select with a timer arm armed (time.After(timeout)) whenever timeout > 0, and is entered only when another live member exists"
	c.Rule(rule)
	// the select in which the exploration receives the departure notification (the
	// receive may sit in a helper that is handed the channel)
	recvAt := map[token.Pos]bool{}
	for _, e := range l.x.Effects {
		if e.Class == "RECV" && e.Detail["chan"] == "m.leaveBroadcast" {
			recvAt[e.Pos] = true
		}
	}
	var sel *ast.SelectStmt
	var waitArm ast.Expr
	inspectFn(l.fn, func(n ast.Node) bool {
		if s, ok := n.(*ast.SelectStmt); ok {
			for _, cc := range s.Body.List {
				if comm := cc.(*ast.CommClause).Comm; comm != nil {
					if es, ok := comm.(*ast.ExprStmt); ok {
						if u, ok := ast.Unparen(es.X).(*ast.UnaryExpr); ok && u.Op == token.ARROW && (recvAt[u.Pos()] || p.FieldOwner(u.X) == "Memberlist.leaveBroadcast") {
							sel = s
							waitArm = u.X
						}
					}
				}
			}
		}
		return true
	})
	if sel == nil {
		c.Check("C08/leave/wait-timeout", rule, l.fn.Decl.Pos(), false, "no select receiving the departure notification found in "+l.fn.Name)
		return
	}
	// the other arm receives from a channel variable
	var chObj ast.Expr
	for _, cc := range sel.Body.List {
		if comm := cc.(*ast.CommClause).Comm; comm != nil {
			if es, ok := comm.(*ast.ExprStmt); ok {
				if u, ok := ast.Unparen(es.X).(*ast.UnaryExpr); ok && u.Op == token.ARROW && u.X != waitArm {
					chObj = u.X
					// that arm must return an error
					ret := false
					for _, st := range cc.(*ast.CommClause).Body {
						if rs, ok := st.(*ast.ReturnStmt); ok && len(rs.Results) == 1 && !isNilIdent(p, rs.Results[0]) {
							ret = true
						}
					}
					if !ret {
						chObj = nil
					}
				}
			}
		}
	}
	// the exploration of Leave (helpers extracted from it are followed in place):
	// every wait on the departure notification
	var tparam *ast.Ident
	for _, f := range l.fn.Decl.Type.Params.List {
		for _, n := range f.Names {
			if core.NamedPkgOf(p.TypeOf(f.Type)) == "time.Duration" {
				tparam = n
			}
		}
	}
	chKey := ""
	if id, isId := chObj.(*ast.Ident); isId {
		chKey = l.x.Canon(id, nil)
	}
	tname := ""
	if tparam != nil {
		tname = l.x.Canon(tparam, nil)
	}
	nWait := 0
	for _, e := range l.x.Effects {
		if e.Class != "RECV" || e.Detail["chan"] != "m.leaveBroadcast" {
			continue
		}
		nWait++
		// (a) whenever timeout > 0 may hold on this path, the select's other arm waits on time.After(timeout)
		ok, why := true, ""
		if chKey == "" || tname == "" {
			ok, why = false, "the select has no second arm that receives from a timer channel variable and returns an error (or Leave has no timeout parameter)"
		} else if e.Cube[tname+">=1"] != "F" {
			v := e.Store[chKey]
			if v.K != gea.KSym || !strings.HasPrefix(v.S, "time.After("+tname+")") {
				ok, why = false, fmt.Sprintf("the wait can be entered with timeout > 0 while the timer arm's channel %s holds %s, not time.After(timeout) {%s}", untok(chKey), untok(v.String()), gea.CubeString(e.Cube))
			}
		}
		c.Check("C08/leave/wait-timeout", rule, e.Pos, ok, why)
		// (b) the wait is entered only when another live member exists
		guarded := false
		for k, v := range e.Cube {
			if v != "T" || !strings.HasPrefix(k, "?m.") {
				continue
			}
			name := strings.TrimPrefix(k, "?m.")
			if i := strings.Index(name, "("); i > 0 {
				if fi := p.Func("Memberlist." + name[:i]); fi != nil && rangesNodesForOtherLive(p, fi) {
					guarded = true
				}
			}
		}
		c.Check("C08/leave/wait-only-with-peers", rule, e.Pos, guarded, "the wait is not guarded by a test that another live member exists {"+gea.CubeString(e.Cube)+"}")
	}
	c.Floor("waits on the departure notification in Leave", nWait, 1)
}

func isNilIdent(p *core.Prog, e ast.Expr) bool {
	id, ok := ast.Unparen(e).(*ast.Ident)
	return ok && id.Name == "nil"
}

// rangesNodesForOtherLive: fn returns true iff some record of the node list is
// not dead/left and is not the local node.
func rangesNodesForOtherLive(p *core.Prog, fn *core.Func) bool {
	ok := false
	inspectFn(fn, func(n ast.Node) bool {
		rs, isR := n.(*ast.RangeStmt)
		if !isR || p.FieldOwner(rs.X) != "Memberlist.nodes" {
			return true
		}
		ast.Inspect(rs.Body, func(m ast.Node) bool {
			ifs, isIf := m.(*ast.IfStmt)
			if !isIf {
				return true
			}
			s := p.Canon(ifs.Cond)
			if strings.Contains(s, "DeadOrLeft") && strings.Contains(s, "config.Name") {
				for _, st := range ifs.Body.List {
					if r, isRet := st.(*ast.ReturnStmt); isRet && len(r.Results) == 1 && p.Canon(r.Results[0]) == "true" {
						ok = true
					}
				}
			}
			return true
		})
		return true
	})
	return ok
}

// checkReclaimDefUse: reclaimCfg and aged refer to the same configuration field.
func checkReclaimDefUse(c *Ctx, a *handlerModel) {
	rule := "the reclaim test compares the record's age (time since its last state change) with the same configuration field whose positivity enables reclaiming"
	c.Rule(rule)
	seenAge, seenCfg := false, false
	for v := range a.x.Vars {
		if v == vAge {
			seenAge = true
		}
		if v == vReclCf {
			seenCfg = true
		}
	}
	usedAge := false
	for _, e := range a.x.Effects {
		if _, ok := e.Cube[vAge]; ok {
			usedAge = true
		}
	}
	c.Check("C08/alive/reclaim-defuse", rule, a.fn.Decl.Pos(), seenAge && seenCfg && usedAge,
		fmt.Sprintf("age atom over (time.Since(record.StateChange), DeadNodeReclaimTime) consulted=%v, DeadNodeReclaimTime>0 atom present=%v", usedAge, seenCfg))
}

// checkLeaveFlagMonotone: the leave flag is only ever set, never cleared. The
// handlers' "once left" rows, and the invariant that the local node's record
// is alive while the node has not left, rest on this: if the flag could go
// back to zero while the own record is already marked left, later claims about
// the local node would be treated as if it were running (refutation, a join
// event without a membership change).
func checkLeaveFlagMonotone(c *Ctx, prop string) {
	p := c.P
	rule := "the leave flag is only ever set: every write to it stores the constant 1 (it is never cleared once Leave has begun)"
	c.Rule(rule)
	n := 0
	for _, s := range c.G.SitesOfKind("ATOMICW:Memberlist.leave") {
		n++
		ok := false
		if s.Call != nil && len(s.Call.Args) == 1 {
			if se, isSel := ast.Unparen(s.Call.Fun).(*ast.SelectorExpr); isSel && se.Sel.Name == "Store" {
				if v, isC := p.ConstInt(s.Call.Args[0]); isC && v == 1 {
					ok = true
				}
			}
		}
		c.Check(prop+"/leave-flag-monotone/"+s.Fn.Name, rule, s.Pos, ok, "the leave flag is written with something other than Store(1) in "+s.Fn.Name)
	}
	c.Floor("writes to the leave flag", n, 1)
}

// checkReclaimExists: a restarted process starts counting its incarnation from
// scratch, so the take-over of a departed (or long dead, reclaimable) holder's
// name from a new allowed address must not depend on the claim's incarnation:
// for every order of the two incarnations an accepting path exists. (C08: the
// name is reusable at once; C09: the host lists a re-joining member as soon as
// its handler finishes.)
func checkReclaimExists(c *Ctx, prop string) {
	a := c.handlerModels()["alive"]
	c.existsRow(a, prop+"/alive/reclaim-exists", "a name is reusable from a new allowed address immediately after a graceful leave, whatever incarnation the new holder announces (a restarted process starts from scratch)", []string{"W:Addr", "W:State", "W:Incarnation", "BCAST"},
		[]string{vOK, vS0, aAddrEq, vIPOK, vLeft, vSelf, vOrd}, func(g getf) bool {
			return aliveFound(g) && !isT(g, aAddrEq) && isT(g, vIPOK) && g(vS0) == "StateLeft" && !isT(g, vSelf)
		})
	c.existsRow(a, prop+"/alive/reclaim-dead-exists", "the name of a holder that has been dead longer than the configured reclaim time is reusable from a new allowed address, whatever incarnation the new holder announces", []string{"W:Addr", "W:State", "W:Incarnation", "BCAST"},
		[]string{vOK, vS0, aAddrEq, vIPOK, vLeft, vSelf, vOrd, vReclCf, vAge}, func(g getf) bool {
			return aliveFound(g) && !isT(g, aAddrEq) && isT(g, vIPOK) && g(vS0) == "StateDead" && isT(g, vReclCf) && g(vAge) == "GT" && !isT(g, vSelf)
		})
}
