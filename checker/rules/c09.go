package rules

import (
	"fmt"
	"go/ast"
	"go/token"
	"go/types"
	"sort"
	"strings"

	"mlverif/core"
	"mlverif/gea"
)

// kinds that change membership, gossip, or call back into the application
func isMutatingKind(k string) bool {
	switch {
	case strings.HasPrefix(k, "W:nodeState."), strings.HasPrefix(k, "MAPINS:Memberlist.node"), strings.HasPrefix(k, "MAPDEL:Memberlist.node"),
		k == "W:Memberlist.nodes", k == "WELEM:Memberlist.nodes", k == "QB", strings.HasPrefix(k, "EVT:"), k == "CONFLICT", k == "MERGEDELEGATE", k == "ALIVEDELEGATE",
		k == "DELEGATE:MergeRemoteState", k == "DELEGATE:NotifyMsg", k == "ATOMICW:Memberlist.incarnation", k == "W:awareness.score":
		return true
	}
	return false
}

func init() {
	register("C09", func(c *Ctx) {
		p := c.P
		c.Assume("that a cut stream surfaces as an error from codec/io (library contract) and concurrent gossip interleavings are not decided")

		// 1. the read phase is effect-free
		rule1 := "the read phase of a state exchange (stream reader, decryption, remote-state decoding, the initiator's send-and-receive, the protocol verifier) cannot reach any record write, gossip enqueue, event or merge/alive/conflict delegate callback"
		c.Rule(rule1)
		for _, name := range []string{"Memberlist.readStream", "Memberlist.decryptRemoteState", "Memberlist.readRemoteState", "Memberlist.sendAndReceiveState", "Memberlist.verifyProtocol", "Memberlist.sendLocalState", "decryptPayload", "decompressBuffer"} {
			fn := c.MustFunc(name)
			var bad []string
			for k := range c.G.Summary(fn) {
				if isMutatingKind(k) {
					bad = append(bad, k)
				}
			}
			sort.Strings(bad)
			why := ""
			if len(bad) > 0 {
				why = name + " can reach " + strings.Join(bad, ",") + " via " + strings.Join(c.G.PathTo(fn, bad[0]), " -> ")
			}
			c.Check("C09/read-phase-pure/"+name, rule1, fn.Decl.Pos(), len(bad) == 0, why)
		}

		// 2. everything is read (and, inbound, replied) before anything is merged
		hc := c.MustFunc("Memberlist.handleConn")
		xh := c.flow(hc, map[string]string{})
		// index of the error result of the two exchange helpers (their last result)
		lastResult := func(name string) int {
			sig := c.MustFunc(name).Obj.Type().(*types.Signature)
			return sig.Results().Len() - 1
		}
		rrLast, srLast := lastResult("Memberlist.readRemoteState"), lastResult("Memberlist.sendAndReceiveState")
		errNil := func(cube map[string]string, callPrefix, suffix string) string {
			for k, v := range cube {
				u := untok(k)
				if strings.HasPrefix(u, callPrefix) && strings.HasSuffix(u, suffix) {
					return v
				}
			}
			return ""
		}
		nm := c.flowMay(xh, "C09/inbound/merge-after-read-and-reply", "inbound exchange: the merge is reached only if the whole remote state was read without error and the local state was sent back without error",
			func(e *gea.Effect) bool { return e.Class == "CALL:Memberlist.mergeRemoteState" }, func(e *gea.Effect) (bool, string) {
				r := errNil(e.Cube, "m.readRemoteState(", fmt.Sprintf("#%d==nil", rrLast))
				s := errNil(e.Cube, "m.sendLocalState(", "==nil")
				if r != "T" {
					return false, "remote state read error not checked (or failed)"
				}
				if s != "T" {
					return false, "the reply's success is not a precondition of the merge (a failed reply still merges: one-sided membership)"
				}
				// the merge gets every decoded result (all but the error), in order
				d := e.Detail
				for i := 0; i < rrLast; i++ {
					a := d[fmt.Sprintf("arg%d", i)]
					if !strings.HasPrefix(untok(a), "m.readRemoteState(") || !strings.HasSuffix(a, fmt.Sprintf("#%d", i)) {
						return false, "merge arguments are not the decoded (join, nodes, user state)"
					}
				}
				if _, extra := d[fmt.Sprintf("arg%d", rrLast)]; extra {
					return false, "merge arguments are not the decoded (join, nodes, user state)"
				}
				return true, ""
			})
		c.Floor("merge calls in the inbound handler", nm, 1)
		c.Rule("inbound exchange: when read and reply succeeded the merge is reached on every path (the host lists the joiner as soon as its handler finishes)")
		for _, ex := range xh.Exits {
			r := errNil(ex.Cube, "m.readRemoteState(", fmt.Sprintf("#%d==nil", rrLast))
			s := errNil(ex.Cube, "m.sendLocalState(", "==nil")
			if r == "T" && s == "T" {
				c.Check("C09/inbound/merge-complete", "inbound exchange: when read and reply succeeded the merge is reached on every path", ex.Pos, ex.Seen["CALL:Memberlist.mergeRemoteState"] == 1, "exit without merging after a complete exchange")
			}
		}
		// concurrent inbound exchanges are capped before reading
		c.flowMay(xh, "C09/inbound/cap", "inbound exchange: the concurrent push/pull counter is incremented (decrement deferred) and compared with the cap before the remote state is read",
			func(e *gea.Effect) bool { return e.Class == "CALL:Memberlist.readRemoteState" }, func(e *gea.Effect) (bool, string) {
				if e.Seen["ATOMICW:Memberlist.pushPullReq"] < 1 {
					return false, "counter not incremented before the read"
				}
				for k, v := range e.Cube {
					u := untok(k)
					if strings.Contains(u, "m.pushPullReq.Add(1)") && strings.HasSuffix(u, ">=128") {
						return v == "F", "read reached with the counter at or above the cap"
					}
				}
				return false, "counter not compared with the cap on this path"
			})
		// the slot taken is given back exactly once on every way out
		nexit := 0
		for _, ex := range xh.Exits {
			inc, dec := ex.Seen["ATOMICINC:Memberlist.pushPullReq"], ex.Seen["ATOMICDEC:Memberlist.pushPullReq"]
			if inc == 0 && dec == 0 {
				continue
			}
			nexit++
			c.Check("C09/inbound/cap-release", "the push/pull counter is decremented exactly once on every way out of an exchange that incremented it", ex.Pos, inc == 1 && dec == 1,
				fmt.Sprintf("exit at %s with %d increment(s) and %d decrement(s) of the concurrent push/pull counter", p.Pos(ex.Pos), inc, dec))
		}
		c.Floor("exits of the inbound handler that took a push/pull slot", nexit, 1)

		checkAliveVersions(c, "C09")
		checkReclaimExists(c, "C09") // a restarted member re-joining from a new address is listed when the handler finishes
		pp := c.MustFunc("Memberlist.pushPullNode")
		xp := c.flow(pp, map[string]string{})
		// when the exchange hands back one value that carries the join flag, every successful
		// return of the exchange has stored its own join parameter in it
		joinInResult := false
		{
			sr := c.MustFunc("Memberlist.sendAndReceiveState")
			xs := c.flow(sr, map[string]string{})
			nOK := 0
			joinInResult = true
			for _, ex := range xs.Exits {
				if len(ex.Ret) == 0 || ex.Ret[len(ex.Ret)-1] != "nil" {
					continue
				}
				nOK++
				has := false
				for k, t := range ex.Store {
					if strings.HasSuffix(untok(k), ".join") && !strings.Contains(k, "$res") && !strings.HasPrefix(k, "~") {
						if t.S == "join" || ((t.S == "T" || t.S == "F") && ex.Cube["join"] == t.S) {
							has = true // the parameter itself, or its truth value on this path
						} else {
							joinInResult = false
						}
					}
				}
				if !has {
					joinInResult = false
				}
			}
			if nOK == 0 {
				joinInResult = false
			}
		}
		n2 := c.flowMay(xp, "C09/outbound/merge-after-read", "initiating side: the merge is reached only after the complete exchange returned without error, with exactly what it returned",
			func(e *gea.Effect) bool { return e.Class == "CALL:Memberlist.mergeRemoteState" }, func(e *gea.Effect) (bool, string) {
				if errNil(e.Cube, "m.sendAndReceiveState(", fmt.Sprintf("#%d==nil", srLast)) != "T" {
					return false, "exchange error not checked"
				}
				// the merge gets the initiator's own join flag - as an argument, or inside the
				// exchange's result (then the exchange must have put it there: checked below) -
				// and every result of the exchange but the error, in order
				d := e.Detail
				k := 0
				if d["arg0"] == "join" {
					k = 1
				} else if !joinInResult {
					return false, "merge arguments: the join flag is not the initiator's"
				}
				for i := 0; i < srLast; i++ {
					a := d[fmt.Sprintf("arg%d", k+i)]
					if !strings.HasPrefix(untok(a), "m.sendAndReceiveState(") || !strings.HasSuffix(a, fmt.Sprintf("#%d", i)) {
						return false, "merge arguments"
					}
				}
				if _, extra := d[fmt.Sprintf("arg%d", k+srLast)]; extra {
					return false, "merge arguments"
				}
				return true, ""
			})
		c.Floor("merge calls on the initiating side", n2, 1)
		for _, ex := range xp.Exits {
			if len(ex.Ret) == 1 && ex.Ret[0] == "nil" {
				c.Check("C09/outbound/success-means-merged", "initiating side: success is reported only after the merge returned without error", ex.Pos, ex.Seen["CALL:Memberlist.mergeRemoteState"] == 1 && errNil(ex.Cube, "m.mergeRemoteState(", "==nil") == "T", "nil returned without a successful merge")
			}
		}
		// Join counts a host only if its exchange succeeded
		jn := c.MustFunc("Memberlist.Join")
		okJoin := false
		inspectFn(jn, func(n ast.Node) bool {
			ifs, ok := n.(*ast.IfStmt)
			if !ok || ifs.Init == nil {
				return true
			}
			as, ok := ifs.Init.(*ast.AssignStmt)
			if !ok || len(as.Rhs) != 1 {
				return true
			}
			call, ok := ast.Unparen(as.Rhs[0]).(*ast.CallExpr)
			if !ok || p.Callee(call) != pp.Obj {
				return true
			}
			// body must end with continue (or return): the success counter is after the if
			if len(ifs.Body.List) > 0 {
				if br, ok := ifs.Body.List[len(ifs.Body.List)-1].(*ast.BranchStmt); ok && br.Tok == token.CONTINUE {
					okJoin = strings.Contains(p.Canon(ifs.Cond), "!=nil") || strings.HasSuffix(p.Canon(ifs.Cond), "!=nil)")
				}
			}
			return true
		})
		c.Check("C09/join/counts-only-success", "Join counts a host as contacted only if its exchange (including the merge) returned no error", jn.Decl.Pos(), okJoin, "the success counter is not skipped on an exchange error")

		// 3. veto order inside the merge
		mr := c.MustFunc("Memberlist.mergeRemoteState")
		xm := c.flow(mr, map[string]string{})
		// the roles of the merge's inputs, found by type among its parameters (or the fields
		// of a struct parameter): the remote list, the join flag, the user state
		nodesName, joinName, userName := "remoteNodes", "join", "userBuf"
		{
			found := map[string]string{}
			note := func(name string, t types.Type) {
				switch ts := core.TypeStr(p, t); {
				case strings.HasSuffix(ts, "[]pushNodeState"):
					found["nodes"] = name
				case ts == "bool":
					found["join"] = name
				case ts == "[]byte" || ts == "[]uint8":
					found["user"] = name
				}
			}
			for _, f := range mr.Decl.Type.Params.List {
				for _, n := range f.Names {
					pn := n.Name
					if r, ok := p.Rename[p.Info.Defs[n]]; ok {
						pn = r
					}
					t := p.TypeOf(f.Type)
					if st, isStruct := t.Underlying().(*types.Struct); isStruct {
						for i := 0; i < st.NumFields(); i++ {
							note(pn+"."+st.Field(i).Name(), st.Field(i).Type())
						}
					} else {
						note(pn, t)
					}
				}
			}
			if len(found) == 3 {
				nodesName, joinName, userName = found["nodes"], found["join"], found["user"]
			}
		}
		n3 := c.flowMay(xm, "C09/merge/veto-order", "merge: the membership merge runs only after the protocol verifier accepted the remote list and, on a join with a merge delegate, after the delegate accepted it",
			func(e *gea.Effect) bool { return e.Class == "CALL:Memberlist.mergeState" }, func(e *gea.Effect) (bool, string) {
				if errNil(e.Cube, "m.verifyProtocol("+nodesName+")", "==nil") != "T" {
					return false, "protocol verification not passed"
				}
				if e.Detail["arg0"] != nodesName {
					return false, "merges " + e.Detail["arg0"]
				}
				j, hasJ := e.Cube[joinName]
				md, hasM := e.Cube["m.config.Merge==nil"]
				if !hasJ {
					return false, "join flag not consulted"
				}
				if j == "T" {
					if !hasM {
						return false, "merge delegate presence not consulted"
					}
					if md == "F" {
						return e.Seen["MERGEDELEGATE"] == 1 && errNil(e.Cube, "m.config.Merge.NotifyMerge(", "==nil") == "T", "merge delegate did not accept"
					}
				}
				return true, ""
			})
		c.Floor("membership merges in mergeRemoteState", n3, 1)
		c.flowMay(xm, "C09/merge/verify-args", "the verifier is given the remote list that is later merged", func(e *gea.Effect) bool { return e.Class == "CALL:Memberlist.verifyProtocol" },
			func(e *gea.Effect) (bool, string) { return e.Detail["arg0"] == nodesName, e.Detail["arg0"] })
		c.flowMay(xm, "C09/merge/user-state-after", "the user-state delegate runs only after the membership merge", func(e *gea.Effect) bool { return e.Class == "DELEGATE:MergeRemoteState" },
			func(e *gea.Effect) (bool, string) {
				return e.Seen["CALL:Memberlist.mergeState"] == 1 && e.Detail["arg0"] == userName && (e.Detail["arg1"] == joinName || ((e.Detail["arg1"] == "T" || e.Detail["arg1"] == "F") && e.Cube[joinName] == e.Detail["arg1"])), "user state delegate before the merge or with wrong arguments"
			})
		for _, ex := range xm.Exits {
			if len(ex.Ret) == 1 && ex.Ret[0] != "nil" {
				c.Check("C09/merge/error-before-effect", "a vetoed or incompatible exchange changes nothing: every error return of the merge happens before the first effect", ex.Pos,
					ex.Seen["CALL:Memberlist.mergeState"] == 0 && ex.Seen["DELEGATE:MergeRemoteState"] == 0, "error returned after merging")
			} else if len(ex.Ret) == 1 {
				c.Check("C09/merge/nil-means-merged", "the merge reports success only after the membership merge ran", ex.Pos, ex.Seen["CALL:Memberlist.mergeState"] == 1, "nil returned without merging")
			}
		}

		// 4. hearsay never kills; every entry is delivered
		checkMerge(c, "C09")

		// 5. caps before buffering (shared with C13)
		checkStateCaps(c, "C09")

		// 6. structure of the protocol verifier's accumulators
		checkVerifyProtocol(c)
	})
}

// checkStateCaps: decoded sizes are range-checked against their caps before
// any allocation or bulk read that uses them.
func checkStateCaps(c *Ctx, prop string) {
	type capSpec struct {
		fn, size, cap string
	}
	rule := "declared sizes are refused before the data is buffered: every allocation / bulk read sized by a decoded integer is reached only after 0 <= n <= cap was established on that path"
	c.Rule(rule)
	for _, cs := range []capSpec{
		{"Memberlist.readRemoteState", "header.Nodes", "1048576"},
		{"Memberlist.readRemoteState", "header.UserStateLen", "20971520"},
		{"Memberlist.readUserMsg", "header.UserMsgLen", "20971520"},
	} {
		fn := c.MustFunc(cs.fn)
		x := c.flow(fn, map[string]string{})
		n := 0
		for _, e := range x.Effects {
			uses := false
			switch e.Class {
			case "MAKE":
				uses = norm(e.Detail["size"]) == cs.size
			case "IO:ReadAtLeast":
				uses = norm(e.Detail["arg2"]) == cs.size
			}
			if !uses {
				continue
			}
			n++
			lo, oklo := "", false
			hi, okhi := "", false
			for k, v := range e.Cube {
				u := norm(k)
				if u == cs.size+">=0" {
					lo, oklo = v, true
				}
				if strings.HasPrefix(u, cs.size+">=") && u != cs.size+">=0" && u != cs.size+">=1" {
					bound := strings.TrimPrefix(u, cs.size+">=")
					if bound == fmt.Sprint(mustAtoi(cs.cap)+1) {
						hi, okhi = v, true
					}
				}
			}
			ok := oklo && lo == "T" && okhi && hi == "F"
			c.Check(prop+"/caps/"+cs.fn+"/"+cs.size, rule, e.Pos, ok, fmt.Sprintf("%s sized by %s reached without 0 <= n <= %s {%s}", e.Class, cs.size, cs.cap, norm(gea.CubeString(e.Cube))))
		}
		if n == 0 {
			c.Check(prop+"/caps/"+cs.fn+"/"+cs.size, rule, fn.Decl.Pos(), false, "no allocation / read sized by "+cs.size+" found (anchor drift)")
		}
	}
	// encrypted stream length and decompression cap
	dr := c.MustFunc("Memberlist.decryptRemoteState")
	xd := c.flow(dr, map[string]string{})
	nn := 0
	for _, e := range xd.Effects {
		if e.Class == "IO:CopyN" && strings.Contains(norm(e.Detail["arg2"]), "moreBytes") || (e.Class == "IO:CopyN" && strings.Contains(norm(e.Detail["arg2"]), "binary.BigEndian.Uint32(")) {
			nn++
			ok := false
			for k, v := range e.Cube {
				u := norm(k)
				if strings.HasPrefix(u, "binary.BigEndian.Uint32(") && strings.HasSuffix(u, ">=20971521") && v == "F" {
					ok = true
				}
			}
			c.Check(prop+"/caps/encrypted-length", rule, e.Pos, ok, "bulk read of the encrypted payload reached without the length cap")
		}
	}
	if nn == 0 {
		c.Check(prop+"/caps/encrypted-length", rule, dr.Decl.Pos(), false, "no bulk read sized by the declared length found")
	}
	db := c.MustFunc("decompressBuffer")
	xb := c.flow(db, map[string]string{})
	okLim, okTest := false, false
	for _, e := range xb.Effects {
		if e.Class == "IO:CopyN" && e.Detail["arg2"] == "41943041" {
			okLim = true
		}
	}
	for _, ex := range xb.Exits {
		if len(ex.Ret) == 2 && ex.Ret[1] == "nil" {
			for k, v := range ex.Cube {
				if u := norm(k); strings.HasSuffix(u, ">=41943041") && v == "F" {
					okTest = true
				}
			}
		}
	}
	c.Check(prop+"/caps/decompressed-size", rule, db.Decl.Pos(), okLim && okTest, "decompression is not read through a copy limited to cap+1 followed by a > cap rejection")
}

func mustAtoi(s string) int {
	n := 0
	for _, ch := range s {
		n = n*10 + int(ch-'0')
	}
	return n
}

// checkVerifyProtocol: structural template of the version-range verifier.
// Four accumulators (max of minimums / min of maximums for protocol and
// delegate), each updated by the idiom `if x OP acc { acc = x }` with the same
// x and acc on both sides and fed only from its own family of sources; the
// final range checks pair the current versions with the right accumulators.
func checkVerifyProtocol(c *Ctx) {
	p := c.P
	fn := c.MustFunc("Memberlist.verifyProtocol")
	rule := "protocol verifier: each of the four bounds is accumulated with a consistent compare-and-assign (same operand and accumulator in the test and the assignment), fed only from its own family (protocol/delegate, min/max), and the current versions are range-checked against their own bounds"
	c.Rule(rule)
	type acc struct {
		op      token.Token
		sources map[string]bool
	}
	accs := map[string]*acc{}
	family := func(e ast.Expr) string {
		s := p.Canon(e)
		switch {
		case strings.HasSuffix(s, ".Vsn[0]"), strings.HasSuffix(s, ".PMin"):
			return "pmin"
		case strings.HasSuffix(s, ".Vsn[1]"), strings.HasSuffix(s, ".PMax"):
			return "pmax"
		case strings.HasSuffix(s, ".Vsn[2]"), strings.HasSuffix(s, ".PCur"):
			return "pcur"
		case strings.HasSuffix(s, ".Vsn[3]"), strings.HasSuffix(s, ".DMin"):
			return "dmin"
		case strings.HasSuffix(s, ".Vsn[4]"), strings.HasSuffix(s, ".DMax"):
			return "dmax"
		case strings.HasSuffix(s, ".Vsn[5]"), strings.HasSuffix(s, ".DCur"):
			return "dcur"
		}
		return ""
	}
	n := 0
	inspectFn(fn, func(nd ast.Node) bool {
		// expression form: acc = max(acc, src) / acc = min(acc, src) (either operand order)
		if as, isA := nd.(*ast.AssignStmt); isA && as.Tok == token.ASSIGN && len(as.Lhs) == 1 && len(as.Rhs) == 1 {
			lhsID, isID := as.Lhs[0].(*ast.Ident)
			call, isC := ast.Unparen(as.Rhs[0]).(*ast.CallExpr)
			if isID && isC && len(call.Args) == 2 && (p.Builtin(call) == "max" || p.Builtin(call) == "min") {
				var src ast.Expr
				for i, a := range call.Args {
					if id, ok := ast.Unparen(a).(*ast.Ident); ok && p.Info.Uses[id] == p.Info.Uses[lhsID] {
						src = call.Args[1-i]
					}
				}
				if src != nil && family(src) != "" {
					n++
					op := token.GTR
					if p.Builtin(call) == "min" {
						op = token.LSS
					}
					a := accs[lhsID.Name]
					if a == nil {
						a = &acc{op: op, sources: map[string]bool{}}
						accs[lhsID.Name] = a
					}
					if a.op != op {
						c.Check("C09/verify/accumulator-direction/"+lhsID.Name, rule, as.Pos(), false, "accumulator updated in both directions")
					}
					a.sources[family(src)] = true
				}
			}
			return true
		}
		ifs, ok := nd.(*ast.IfStmt)
		if !ok || ifs.Else != nil || len(ifs.Body.List) != 1 {
			return true
		}
		be, ok := ast.Unparen(ifs.Cond).(*ast.BinaryExpr)
		as, ok2 := ifs.Body.List[0].(*ast.AssignStmt)
		if !ok || !ok2 || len(as.Lhs) != 1 || len(as.Rhs) != 1 || (be.Op != token.LSS && be.Op != token.GTR) {
			return true
		}
		lhsID, isID := as.Lhs[0].(*ast.Ident)
		if !isID || family(as.Rhs[0]) == "" {
			return true
		}
		n++
		condAcc, isCA := ast.Unparen(be.Y).(*ast.Ident)
		same := isCA && p.Info.Uses[condAcc] == p.Info.Uses[lhsID] && p.Canon(be.X) == p.Canon(as.Rhs[0])
		c.Check("C09/verify/accumulator-idiom/"+lhsID.Name, rule, ifs.Pos(), same, fmt.Sprintf("`if %s { %s = %s }` tests one thing and assigns another", p.Canon(ifs.Cond), lhsID.Name, p.Canon(as.Rhs[0])))
		a := accs[lhsID.Name]
		if a == nil {
			a = &acc{op: be.Op, sources: map[string]bool{}}
			accs[lhsID.Name] = a
		}
		if a.op != be.Op {
			c.Check("C09/verify/accumulator-direction/"+lhsID.Name, rule, ifs.Pos(), false, "accumulator updated in both directions")
		}
		a.sources[family(as.Rhs[0])] = true
		return true
	})
	c.Floor("accumulator updates in the protocol verifier", n, 8)
	role := map[string]string{} // accumulator variable -> family
	for name, a := range accs {
		fams := []string{}
		for f := range a.sources {
			fams = append(fams, f)
		}
		sort.Strings(fams)
		wantOp := map[string]token.Token{"pmin": token.GTR, "dmin": token.GTR, "pmax": token.LSS, "dmax": token.LSS}
		ok := len(fams) == 1 && wantOp[fams[0]] == a.op
		c.Check("C09/verify/accumulator-family/"+name, rule, fn.Decl.Pos(), ok, fmt.Sprintf("accumulator %s is fed from %v with %s", name, fams, a.op))
		if len(fams) == 1 {
			role[name] = fams[0]
		}
	}
	c.Check("C09/verify/four-accumulators", rule, fn.Decl.Pos(), len(accs) == 4, fmt.Sprintf("%d accumulators", len(accs)))
	// range checks: cur < accMin || cur > accMax with matching families
	nr := 0
	inspectFn(fn, func(nd ast.Node) bool {
		ifs, ok := nd.(*ast.IfStmt)
		if !ok {
			return true
		}
		or, ok := ast.Unparen(ifs.Cond).(*ast.BinaryExpr)
		if !ok || or.Op != token.LOR {
			return true
		}
		l, ok1 := ast.Unparen(or.X).(*ast.BinaryExpr)
		r, ok2 := ast.Unparen(or.Y).(*ast.BinaryExpr)
		if !ok1 || !ok2 {
			return true
		}
		// the body must return an error
		ret := false
		for _, s := range ifs.Body.List {
			if rs, ok := s.(*ast.ReturnStmt); ok && len(rs.Results) == 1 && !isNilIdent(p, rs.Results[0]) {
				ret = true
			}
		}
		curFam := func(e ast.Expr) string {
			if f := family(e); f != "" {
				return f
			}
			// a local variable assigned from Vsn[2]/PCur etc.
			id, ok := ast.Unparen(e).(*ast.Ident)
			if !ok {
				return ""
			}
			fam := ""
			inspectFn(fn, func(m ast.Node) bool {
				if as, ok := m.(*ast.AssignStmt); ok {
					for i, lh := range as.Lhs {
						if lid, ok := lh.(*ast.Ident); ok && i < len(as.Rhs) {
							o := p.Info.Defs[lid]
							if o == nil {
								o = p.Info.Uses[lid]
							}
							if o == p.Info.Uses[id] {
								if f := family(as.Rhs[i]); f != "" {
									fam = f
								}
							}
						}
					}
				}
				return true
			})
			return fam
		}
		cf := curFam(l.X)
		if cf != "pcur" && cf != "dcur" {
			return true
		}
		nr++
		lo, isLo := ast.Unparen(l.Y).(*ast.Ident)
		hi, isHi := ast.Unparen(r.Y).(*ast.Ident)
		wantLo, wantHi := "pmin", "pmax"
		if cf == "dcur" {
			wantLo, wantHi = "dmin", "dmax"
		}
		ok = ret && isLo && isHi && l.Op == token.LSS && r.Op == token.GTR && curFam(r.X) == cf && role[lo.Name] == wantLo && role[hi.Name] == wantHi
		c.Check("C09/verify/range-check/"+cf, rule, ifs.Pos(), ok, "range check `"+p.Canon(ifs.Cond)+"` does not compare the current version with its own bounds")
		return true
	})
	c.Floor("range checks in the protocol verifier", nr, 4)
	_ = core.RootPath
}
