package rules

import (
	"fmt"
	"go/ast"
	"go/types"
	"strings"

	"mlverif/core"
	"mlverif/gea"
)

// flowBody explores a statement block of fn (e.g. one loop iteration) with the flow spec.
func (c *Ctx) flowBody(name string, fn *core.Func, body *ast.BlockStmt) *gea.Exec {
	p := c.P
	spec := &flowSpec{c: c, alias: map[types.Object]string{}, quiet: map[string]bool{}}
	if fn.Decl.Recv != nil && len(fn.Decl.Recv.List[0].Names) > 0 {
		spec.recv = p.Info.Defs[fn.Decl.Recv.List[0].Names[0]]
	}
	for _, f := range fn.Decl.Type.Params.List {
		for _, n := range f.Names {
			spec.alias[p.Info.Defs[n]] = n.Name
		}
	}
	return c.Explore(name, fn.Decl.Type, body, spec)
}

func init() {
	register("C10", func(c *Ctx) {
		p := c.P
		c.Assume("equivalence with a reference queue model over all operation sequences (byte-budget sums across a retrieval, fairness) is a history property and is not decided; what a Broadcast implementation does in its callbacks is out of scope")
		q := "TransmitLimitedQueue."
		del := c.MustFunc(q + "deleteItem")
		add := c.MustFunc(q + "addItem")
		get := c.MustFunc(q + "GetBroadcasts")
		qb := c.MustFunc(q + "queueBroadcast")
		prune := c.MustFunc(q + "Prune")
		reset := c.MustFunc(q + "Reset")

		// 1. lock discipline
		c.checkLocking("C10", map[string]string{"TransmitLimitedQueue.tq": "TransmitLimitedQueue.mu", "TransmitLimitedQueue.tm": "TransmitLimitedQueue.mu", "TransmitLimitedQueue.idGen": "TransmitLimitedQueue.mu"}, nil, 20)

		// 2. tree and name index move together: removals only in deleteItem (or the wholesale Reset), inserts only in addItem
		rule2 := "the ordered tree and the name index change together: items are removed from the tree only by the delete helper (which also drops the name entry) or wholesale by Reset, and inserted only by the add helper (which also records the name)"
		c.Rule(rule2)
		nb := 0
		for _, fn := range p.SortedFuncs() {
			inspectFn(fn, func(n ast.Node) bool {
				call, ok := n.(*ast.CallExpr)
				if !ok {
					return true
				}
				f := p.Callee(call)
				if f == nil || !strings.HasPrefix(core.FuncFullName(f), "github.com/google/btree.BTree.") {
					return true
				}
				se, _ := ast.Unparen(call.Fun).(*ast.SelectorExpr)
				if se == nil || p.FieldOwner(se.X) != "TransmitLimitedQueue.tq" {
					return true
				}
				nb++
				switch f.Name() {
				case "Delete", "DeleteMin", "DeleteMax", "Clear":
					c.Check("C10/index-pairing/remove/"+fn.Name, rule2, call.Pos(), fn == del, "tree removal ("+f.Name()+") outside the delete helper in "+fn.Name+": the name index keeps a stale entry")
				case "ReplaceOrInsert":
					c.Check("C10/index-pairing/insert/"+fn.Name, rule2, call.Pos(), fn == add, "tree insertion outside the add helper in "+fn.Name)
				}
				return true
			})
		}
		c.Floor("btree calls on the queue's tree", nb, 8)
		for _, s := range c.G.SitesOfKind("W:TransmitLimitedQueue.tq") {
			c.Check("C10/index-pairing/tree-replaced/"+s.Fn.Name, rule2, s.Pos, s.Fn == reset || s.Fn.Name == q+"lazyInit", "the tree is replaced in "+s.Fn.Name)
		}
		xd := c.flow(del, map[string]string{})
		c.flowMay(xd, "C10/delete-helper/name", "delete helper: the name entry is dropped exactly when the item has a name", func(e *gea.Effect) bool { return e.Class == "MAPDEL:TransmitLimitedQueue.tm" },
			func(e *gea.Effect) (bool, string) {
				v, ok := atomU(e.Cube, `eq("",cur.name)`)
				return ok && v == "F" && e.Detail["key"] == "cur.name" && e.Seen["BTREE:Delete"] == 1, "name entry deleted under " + untok(gea.CubeString(e.Cube))
			})
		for _, ex := range xd.Exits {
			v, ok := atomU(ex.Cube, `eq("",cur.name)`)
			good := ex.Seen["BTREE:Delete"] == 1 && ok && ((v == "F") == (ex.Seen["MAPDEL:TransmitLimitedQueue.tm"] == 1))
			c.Check("C10/delete-helper/complete", "delete helper: removes the item from the tree and, iff it is named, from the name index, on every path", ex.Pos, good, untok(gea.CubeString(ex.Cube)))
		}
		xa := c.flow(add, map[string]string{})
		for _, ex := range xa.Exits {
			v, ok := atomU(ex.Cube, `eq("",cur.name)`)
			good := ex.Seen["BTREE:ReplaceOrInsert"] == 1 && ok && ((v == "F") == (ex.Seen["MAPINS:TransmitLimitedQueue.tm"] == 1))
			c.Check("C10/add-helper/complete", "add helper: inserts the item into the tree and, iff it is named, records it in the name index, on every path", ex.Pos, good, untok(gea.CubeString(ex.Cube)))
		}

		// 3. typestate of removed items in the retrieval loop: finished xor re-inserted, decided by the transmit limit
		var loopBody *ast.BlockStmt
		inspectFn(get, func(n ast.Node) bool {
			if fs, ok := n.(*ast.ForStmt); ok && loopBody == nil && fs.Cond != nil {
				loopBody = fs.Body
			}
			return true
		})
		if loopBody == nil {
			fail("anchor unresolved: tier loop of GetBroadcasts")
		}
		// the locals the rules talk about, by role: the list of held-out items (the slice whose
		// elements are handed back to the add helper) and the transmit limit (the local that
		// holds the limit helper's result)
		reName, limName := "reinsert", "transmitLimit"
		inspectFn(get, func(n ast.Node) bool {
			switch v := n.(type) {
			case *ast.RangeStmt:
				if id, ok := ast.Unparen(v.X).(*ast.Ident); ok && len(v.Body.List) == 1 {
					if es, ok := v.Body.List[0].(*ast.ExprStmt); ok {
						if call, ok := es.X.(*ast.CallExpr); ok && p.Callee(call) == add.Obj {
							reName = norm(p.Canon(id))
						}
					}
				}
			case *ast.AssignStmt:
				if len(v.Lhs) == 1 && len(v.Rhs) == 1 {
					if call, ok := ast.Unparen(v.Rhs[0]).(*ast.CallExpr); ok {
						if f := p.Callee(call); f != nil && f.Name() == "retransmitLimit" {
							if id, ok := v.Lhs[0].(*ast.Ident); ok {
								limName = norm(p.Canon(id))
							}
						}
					}
				}
			}
			return true
		})
		xi := c.flowBody(get.Name+"$iteration", get, loopBody)
		rule3 := "retrieval: an item taken out of the queue is, on every path, either completed (Finished, exactly once) because one more transmit reaches the limit, or has its transmit count advanced by one and is queued for re-insertion - never both, never neither"
		c.Rule(rule3)
		nit := 0
		for _, ex := range xi.Exits {
			if ex.Seen["CALL:"+del.Name] == 0 {
				continue
			}
			nit++
			fin := ex.Seen["BROADCAST:Finished"]
			// re-insertion: the item is appended to the reinsert list
			re := 0
			for k, t := range ex.Store {
				if strings.HasPrefix(k, reName) && strings.Contains(t.S, "append(") {
					re = 1
				}
			}
			rel := ""
			for k, v := range ex.Cube {
				u := untok(k)
				if strings.HasPrefix(u, "cmp(") && strings.Contains(u, limName) && strings.Contains(u, ".transmits+1)") {
					// cmp((keep.transmits+1),transmitLimit) or reversed by name order
					if strings.Index(u, ".transmits+1)") < strings.Index(u, limName) {
						rel = v
					} else {
						rel = map[string]string{"LT": "GT", "GT": "LT", "EQ": "EQ"}[v]
					}
				}
			}
			ok := rel != "" && ((rel != "LT" && fin == 1 && re == 0) || (rel == "LT" && fin == 0 && re == 1))
			c.Check("C10/retrieval/finished-xor-reinserted", rule3, ex.Pos, ok, fmt.Sprintf("transmits+1 vs limit: %q, Finished calls: %d, re-inserted: %d {%s}", rel, fin, re, untok(gea.CubeString(ex.Cube))))
			// the re-inserted item's count advanced by exactly one
			if re == 1 {
				adv := false
				for k, t := range ex.Store {
					if strings.HasSuffix(k, ".transmits") && strings.HasSuffix(untok(t.S), ".transmits+1)") {
						adv = true
					}
				}
				c.Check("C10/retrieval/transmits-advanced", rule3, ex.Pos, adv, "re-inserted without advancing the transmit count by one")
			}
		}
		c.Floor("iteration exits that removed an item", nit, 2)
		// the limit comes from the helper applied to (RetransmitMult, NumNodes())
		xg := c.flow(get, map[string]string{})
		nl := c.flowMay(xg, "C10/retrieval/limit-source", "the transmit limit is retransmitLimit(RetransmitMult, NumNodes())", func(e *gea.Effect) bool { return e.Class == "CALL:retransmitLimit" },
			func(e *gea.Effect) (bool, string) {
				return e.Detail["arg0"] == "m.RetransmitMult" && strings.HasPrefix(untok(e.Detail["arg1"]), "m.NumNodes()"), "retransmitLimit(" + untok(e.Detail["arg0"]) + "," + untok(e.Detail["arg1"]) + ")"
			})
		c.Floor("limit computations", nl, 1)
		// every held-out item is re-added
		reAdd := false
		inspectFn(get, func(n ast.Node) bool {
			if rs, ok := n.(*ast.RangeStmt); ok {
				if id, ok := ast.Unparen(rs.X).(*ast.Ident); ok && norm(p.Canon(id)) == reName && len(rs.Body.List) == 1 {
					if es, ok := rs.Body.List[0].(*ast.ExprStmt); ok {
						if call, ok := es.X.(*ast.CallExpr); ok && p.Callee(call) == add.Obj {
							reAdd = true
						}
					}
				}
			}
			return true
		})
		c.Check("C10/retrieval/reinsert-all", "every item held out for re-insertion is added back before the retrieval returns", get.Decl.Pos(), reAdd, "no loop re-adding every element of the reinsert list")

		// 4. Finished only together with removal (or wholesale reset)
		rule4 := "a completion callback runs only for an item that is being removed in the same operation (or dropped by Reset), and at most once per path"
		c.Rule(rule4)
		nf := 0
		for _, s := range c.G.SitesOfKind("BROADCAST:Finished") {
			nf++
			ok := false
			switch s.Fn {
			case get, qb, prune, reset:
				ok = true
			}
			c.Check("C10/finished-sites/"+s.Fn.Name, rule4, s.Pos, ok, "completion callback invoked from "+s.Fn.Name)
		}
		c.Floor("completion callback sites", nf, 4)
		// queueBroadcast: named supersede = Finished(old) + delete(old) before add(new)
		xq := c.flow(qb, map[string]string{})
		c.flowMay(xq, "C10/submit/supersede", "a named submission completes and removes the previous holder of the name before the new item is added; the new item is added on every path", func(e *gea.Effect) bool { return e.Class == "CALL:"+add.Name },
			func(e *gea.Effect) (bool, string) {
				named, okn := atomU(e.Cube, `eq("",nb.Name())`)
				_ = named
				_ = okn
				has := ""
				for k, v := range e.Cube {
					if strings.HasPrefix(untok(k), "has:m.tm[") {
						has = v
					}
				}
				if has == "T" {
					return e.Seen["BROADCAST:Finished"] >= 1 && e.Seen["CALL:"+del.Name] >= 1, "previous holder not completed and removed"
				}
				return true, ""
			})
		for _, ex := range xq.Exits {
			c.Check("C10/submit/always-added", "every submission ends with the new item added (after lazy initialisation)", ex.Pos, ex.Seen["CALL:"+add.Name] == 1 && ex.Seen["CALL:"+q+"lazyInit"] == 1, "exit without add/lazyInit")
		}
		// Prune: each pruned item is finished and deleted
		var pbody *ast.BlockStmt
		inspectFn(prune, func(n ast.Node) bool {
			if fs, ok := n.(*ast.ForStmt); ok && pbody == nil {
				pbody = fs.Body
			}
			return true
		})
		if pbody != nil {
			xp := c.flowBody(prune.Name+"$iteration", prune, pbody)
			for _, ex := range xp.Exits {
				if ex.Seen["BROADCAST:Finished"] > 0 || ex.Seen["CALL:"+del.Name] > 0 || ex.Seen["BTREE:DeleteMax"] > 0 {
					c.Check("C10/prune/finish-and-delete", "Prune completes every item it removes, exactly once, through the delete helper", ex.Pos, ex.Seen["BROADCAST:Finished"] == 1 && ex.Seen["CALL:"+del.Name] == 1, fmt.Sprintf("Finished %d, delete helper %d", ex.Seen["BROADCAST:Finished"], ex.Seen["CALL:"+del.Name]))
				}
			}
		}

		// 5. nil-tree guard: the tree is dereferenced only after lazy initialisation or a non-empty test
		checkNilTree(c)

		// 6. hold-out rule: the id generator is not reset while an item is held out of the tree
		rule6 := "ids of held-out items stay unique: between taking an item out (delete helper) and putting an item in (add helper) within one operation, the id generator is not reset"
		c.Rule(rule6)
		// functions that reset the generator (assign constant zero), directly or through callees
		resetters := map[string]bool{}
		for _, fn := range p.SortedFuncs() {
			inspectFn(fn, func(n ast.Node) bool {
				if as, ok := n.(*ast.AssignStmt); ok && len(as.Lhs) == 1 && len(as.Rhs) == 1 && p.FieldOwner(as.Lhs[0]) == "TransmitLimitedQueue.idGen" {
					if v, isC := p.ConstInt(as.Rhs[0]); isC && v == 0 {
						resetters[fn.Name] = true
					}
				}
				return true
			})
		}
		for changed := true; changed; {
			changed = false
			for _, fn := range p.SortedFuncs() {
				if resetters[fn.Name] {
					continue
				}
				for _, cal := range c.G.Callees(fn) {
					if resetters[cal.Name] && fn != get && fn != qb && fn != prune {
						resetters[fn.Name] = true
						changed = true
					}
				}
			}
		}
		c.Extra["id_generator_resetters"] = len(resetters)
		for _, fx := range []struct {
			fn *core.Func
			x  *gea.Exec
		}{{get, xg}, {qb, xq}} {
			for _, e := range fx.x.Effects {
				if e.Class != "CALL:"+add.Name {
					continue
				}
				bad := ""
				if e.Seen["CALL:"+del.Name] > 0 || fx.fn == get {
					for k, v := range e.Seen {
						if v > 0 && strings.HasPrefix(k, "CALL:") && resetters[strings.TrimPrefix(k, "CALL:")] {
							bad = strings.TrimPrefix(k, "CALL:")
						}
					}
					if e.Seen["W:TransmitLimitedQueue.idGen"] > 0 && resetters[fx.fn.Name] {
						bad = fx.fn.Name
					}
				}
				c.Check("C10/hold-out/"+fx.fn.Name, rule6, e.Pos, bad == "", bad+" resets the id generator and "+fx.fn.Name+" adds an item (carrying an id handed out earlier) afterwards: a later submission can receive the same (transmits,length,id) key and silently replace it")
			}
		}

		// 7. ordering: Less is the strict lexicographic order (transmits asc, length desc, id desc)
		checkLess(c)
		// range bounds of the retrieval use the same three keys
		nlit := 0
		inspectFn(get, func(n ast.Node) bool {
			if cl, ok := n.(*ast.CompositeLit); ok && core.NamedOf(p.TypeOf(cl)) == "limitedBroadcast" {
				keys := map[string]bool{}
				for _, el := range cl.Elts {
					if kv, ok := el.(*ast.KeyValueExpr); ok {
						if id, ok := kv.Key.(*ast.Ident); ok {
							keys[id.Name] = true
						}
					}
				}
				nlit++
				c.Check("C10/order/range-bounds", "the retrieval's range bounds are built from the same three keys the order uses", cl.Pos(), keys["transmits"] && keys["msgLen"] && keys["id"], "range bound without all of transmits/msgLen/id")
			}
			return true
		})
		c.Floor("range-bound literals", nlit, 2)

		// 8. the retrieval walks every tier that holds an item: the range helper hands back the
		// transmit counts of the tree's own least and greatest items, unclamped (the limit is
		// recomputed from the cluster-size estimate on every retrieval; when the estimate
		// shrinks, items already above the new limit still have to be visited to be completed)
		checkTransmitRange(c)
		// 9. completion notifications cannot be lost
		checkNotifyChannels(c, "C10")
	})
}

// checkTransmitRange: see 8 above.
func checkTransmitRange(c *Ctx) {
	rule := "the retrieval walks every tier that holds an item: the range helper returns the transmit counts of the tree's least and greatest items on every path with a non-empty tree, and (0,0) only for an empty tree"
	c.Rule(rule)
	fn := c.MustFunc("TransmitLimitedQueue.getTransmitRange")
	x := c.flow(fn, map[string]string{})
	// the value a result stands for, followed through locals and the type assertion:
	// "<tree>.Min().(*limitedBroadcast).transmits" however the intermediate steps are named
	resolve := func(ex *gea.Exit, r string) string {
		r = strings.ReplaceAll(untok(r), "~", "")
		if !strings.HasSuffix(r, ".transmits") {
			if t, ok := ex.Store[r]; ok && t.S != "" && untok(t.S) != r {
				r = strings.ReplaceAll(untok(t.S), "~", "")
			}
			if !strings.HasSuffix(r, ".transmits") {
				return r
			}
		}
		b := strings.TrimSuffix(r, ".transmits")
		for i := 0; i < 4; i++ {
			b = strings.TrimSuffix(b, ".(*limitedBroadcast)")
			t, ok := ex.Store[b]
			if !ok || t.S == "" || strings.ReplaceAll(untok(t.S), "~", "") == b {
				break
			}
			b = strings.ReplaceAll(untok(t.S), "~", "")
		}
		return strings.TrimSuffix(b, ".(*limitedBroadcast)") + ".transmits"
	}
	n := 0
	for _, ex := range x.Exits {
		if len(ex.Ret) != 2 {
			continue
		}
		n++
		lo, hi := resolve(ex, ex.Ret[0]), resolve(ex, ex.Ret[1])
		if lo == "0" && hi == "0" {
			empty := false
			for k, v := range ex.Cube {
				u := untok(k)
				if (strings.Contains(u, "lenLocked()") && strings.HasSuffix(u, ">=1") && v == "F") || (strings.HasSuffix(u, "==nil") && strings.Contains(u, "m.tq.M") && v == "T") || (strings.Contains(u, "lenLocked()") && strings.HasSuffix(u, ">=0") && v == "F") {
					empty = true
				}
			}
			c.Check("C10/retrieval/walk-covers-tree", rule, ex.Pos, empty, "returns (0,0) although the tree may hold items {"+untok(gea.CubeString(ex.Cube))+"}")
			continue
		}
		ok := lo == "m.tq.Min().transmits" && hi == "m.tq.Max().transmits"
		c.Check("C10/retrieval/walk-covers-tree", rule, ex.Pos, ok, "returns ("+lo+", "+hi+") instead of the transmit counts of the tree's least and greatest items: tiers outside that range are never visited, their items are neither sent again nor completed")
	}
	c.Floor("exits of the range helper", n, 2)
}

// checkNilTree: functions that dereference the tree need it non-nil; exported
// entry points must establish that (lazyInit, or an emptiness test that returns first).
func checkNilTree(c *Ctx) {
	p := c.P
	rule := "the tree is dereferenced only after lazy initialisation or behind an emptiness test that returns first (no nil dereference on an untouched queue), in the method itself or at every call site of the helper that does it"
	c.Rule(rule)
	type need struct{ why string }
	needs := map[*core.Func]*need{}
	var methods []*core.Func
	for _, fn := range p.SortedFuncs() {
		if fn.Decl.Recv != nil && core.NamedOf(p.TypeOf(fn.Decl.Recv.List[0].Type)) == "TransmitLimitedQueue" {
			methods = append(methods, fn)
		}
	}
	guarded := func(e *gea.Effect) bool {
		if e.Seen["CALL:TransmitLimitedQueue.lazyInit"] > 0 {
			return true
		}
		for k, v := range e.Cube {
			u := untok(k)
			if strings.HasPrefix(u, "m.lenLocked()") && ((strings.HasSuffix(u, ">=1") && v == "T") || (strings.HasSuffix(u, ">=0") && v == "F")) {
				return true // a length cannot be negative: ">=0 is false" is the infeasible side of the == 0 test
			}
			if u == "m.tq==nil" && v == "F" {
				return true
			}
		}
		return false
	}
	changed := true
	for changed {
		changed = false
		for _, fn := range methods {
			if needs[fn] != nil {
				continue
			}
			x := c.flow(fn, map[string]string{})
			for _, e := range x.Effects {
				if guarded(e) {
					continue
				}
				if strings.HasPrefix(e.Class, "BTREE:") && e.Detail["recv"] == "m.tq" {
					needs[fn] = &need{fmt.Sprintf("%s on the tree at %s", e.Class, p.Pos(e.Pos))}
					changed = true
					break
				}
				if strings.HasPrefix(e.Class, "CALL:TransmitLimitedQueue.") {
					callee := p.Func(strings.TrimPrefix(e.Class, "CALL:"))
					if callee != nil && needs[callee] != nil && e.Detail["recv"] == "m" {
						needs[fn] = &need{fmt.Sprintf("call to %s at %s -> %s", callee.Name, p.Pos(e.Pos), needs[callee].why)}
						changed = true
						break
					}
				}
			}
		}
	}
	for _, fn := range methods {
		if !ast.IsExported(fn.Decl.Name.Name) {
			continue
		}
		n := needs[fn]
		why := ""
		if n != nil {
			why = fn.Name + " can dereference a nil tree: " + n.why
		}
		c.Check("C10/nil-tree/"+fn.Name, rule, fn.Decl.Pos(), n == nil, why)
	}
}

// checkLess: the comparison is the strict lexicographic order on
// (transmits ascending, msgLen descending, id descending).
func checkLess(c *Ctx) {
	fn := c.MustFunc("limitedBroadcast.Less")
	x := c.flow(fn, map[string]string{})
	rule := "queue order: strict lexicographic (fewer transmits first, then longer message, then newer id) - exhaustive over the 27 sign combinations"
	c.Rule(rule)
	rel := func(cube map[string]string, field string) (string, bool) {
		for k, v := range cube {
			u := untok(k)
			if strings.HasPrefix(u, "cmp(m."+field+",") {
				return v, true
			}
			if strings.HasPrefix(u, "cmp(") && strings.HasSuffix(u, ",m."+field+")") {
				return map[string]string{"LT": "GT", "GT": "LT", "EQ": "EQ"}[v], true
			}
		}
		return "", false
	}
	n := 0
	for _, ex := range x.Exits {
		if len(ex.Ret) != 1 {
			continue
		}
		n++
		t, okT := rel(ex.Cube, "transmits")
		l, okL := rel(ex.Cube, "msgLen")
		want := ""
		switch {
		case okT && t == "LT":
			want = "true"
		case okT && t == "GT":
			want = "false"
		case okT && t == "EQ" && okL && l == "GT":
			want = "true"
		case okT && t == "EQ" && okL && l == "LT":
			want = "false"
		case okT && t == "EQ" && okL && l == "EQ":
			want = "id"
		}
		got := untok(ex.Ret[0])
		ok := want == got
		if want == "id" {
			ok = strings.HasPrefix(got, "(m.id>") && strings.HasSuffix(got, ".id)")
		}
		c.Check("C10/order/less", rule, ex.Pos, ok && want != "", fmt.Sprintf("returns %s under {%s}", got, untok(gea.CubeString(ex.Cube))))
	}
	c.Check("C10/order/less-cases", rule, fn.Decl.Pos(), n == 5, fmt.Sprintf("%d decision leaves (expected 5 covering the 27 sign combinations)", n))
}
