package rules

import (
	"fmt"
	"go/ast"
	"go/token"
	"go/types"
	"sort"
	"strconv"
	"strings"

	"mlverif/core"
	"mlverif/gea"
)

func init() {
	register("C11", func(c *Ctx) {
		p := c.P
		c.Assume("round-trip equality of packed messages is a value property and is not decided; this check covers the structural conditions: the budget subtracts every size-adding layer, counts that are narrowed to one byte are bounded at every call site, encoder and decoder agree on the framing, and the shared byte accounting is linear in message length plus overhead")

		// layer sizes, read off the code that adds them
		hdr, perPart := compoundFraming(c)
		crc := crcHeaderSize(c)
		c.Extra["layer_sizes"] = map[string]int64{"compound_header": hdr, "compound_per_part": perPart, "checksum_header": crc}

		// 1. budget / layer correspondence
		rule := "packet budget: the space offered to the broadcast queues is the configured packet size minus every layer added on the way to the transport: the primary message, the compound header and one length entry per part including the primary message, the checksum header, the label header and (when the raw sender will encrypt) the encryption overhead"
		c.Rule(rule)
		for _, site := range []struct {
			fn      string
			primary bool
		}{{"Memberlist.sendMsg", true}, {"Memberlist.gossip", false}} {
			fn := c.MustFunc(site.fn)
			// the space offered to the queues = the value handed to getBroadcasts as its limit,
			// read per path from the exploration (so the arithmetic may be spread over
			// statements, locals or a helper)
			x := c.flow(fn, map[string]string{})
			need := hdr + crc
			if site.primary {
				need += perPart
			}
			nb := 0
			for _, e := range x.Effects {
				if e.Class != "CALL:Memberlist.getBroadcasts" {
					continue
				}
				nb++
				lim := norm(e.Detail["arg1"])
				co, k, ok := linearName(lim)
				why := ""
				good := true
				if !ok {
					good, why = false, "budget "+lim+" is not a sum/difference of named terms"
				}
				if good && co["m.config.UDPBufferSize"] != 1 {
					good, why = false, "budget does not start from UDPBufferSize"
				}
				if good && site.primary && co["len(msg)"] != -1 {
					good, why = false, "the primary message's length is not subtracted"
				}
				if good && co["labelOverhead(m.config.Label)"] != -1 {
					good, why = false, "label overhead not subtracted"
				}
				if good && -k < need {
					good = false
					why = fmt.Sprintf("constant part of the budget is %d, but the fixed layers need %d (compound header %d%s + checksum header %d): packets can exceed the configured size by %d bytes", -k, need, hdr,
						map[bool]string{true: fmt.Sprintf(" + length entry of the primary message %d", perPart), false: ""}[site.primary], crc, need+k)
				}
				encTerm := int64(0)
				for t, cf := range co {
					switch {
					case strings.HasPrefix(t, "encryptOverhead("):
						encTerm += cf
					case t == "m.config.UDPBufferSize" || t == "len(msg)" || t == "labelOverhead(m.config.Label)":
					default:
						if good && cf > 0 {
							good, why = false, "the budget is enlarged by "+t
						}
					}
				}
				// when the raw sender will encrypt (keyring present and outgoing verification on),
				// the encryption overhead is subtracted
				mayEncrypt := e.Cube["encOn"] != "F" && e.Cube["m.config.GossipVerifyOutgoing"] != "F"
				if good && mayEncrypt && encTerm != -1 {
					good, why = false, "encryption overhead is not subtracted on a path where the sender encrypts {"+gea.CubeString(e.Cube)+"}"
				}
				c.Check("C11/budget/"+site.fn, rule, e.Pos, good, why)
			}
			c.Floor("budget hand-overs to getBroadcasts in "+site.fn, nb, 1)
		}
		checkEncryptOverhead(c, "C11")
		checkUnpadAcceptsPadding(c, "C11") // lossless for every encryption version: the receiver strips what the sender padded
		// the raw sender encrypts exactly under the condition the budget assumed (or a weaker budget condition)
		// and compression only replaces the payload when strictly shorter
		rs := c.MustFunc("Memberlist.rawSendMsgPacket")
		okComp := false
		inspectFn(rs, func(n ast.Node) bool {
			if ifs, ok := n.(*ast.IfStmt); ok {
				cs := norm(p.Canon(ifs.Cond))
				if cs == "(buf.Len()<len(msg))" || cs == "(len(msg)>buf.Len())" {
					okComp = true
				}
			}
			return true
		})
		c.Check("C11/budget/compression-only-if-shorter", "compression replaces the payload only when the compressed form is strictly shorter", rs.Decl.Pos(), okComp, "no `compressed length < original length` guard")

		// 2. narrowing conversions of counts / lengths
		checkNarrowing(c)

		// 3. encoder and decoder agree on the compound framing
		checkFramingAgreement(c)

		// 4. shared byte accounting
		checkAccounting(c)
	})
}

// compoundFraming reads header and per-part sizes off the compound encoder.
func compoundFraming(c *Ctx) (int64, int64) {
	p := c.P
	fn := c.MustFunc("makeCompoundMessage")
	var hdr, per int64
	for _, st := range fn.Decl.Body.List {
		switch v := st.(type) {
		case *ast.ExprStmt:
			if call, ok := v.X.(*ast.CallExpr); ok {
				if f := p.Callee(call); f != nil && core.FuncFullName(f) == "bytes.Buffer.WriteByte" {
					hdr++
				}
			}
		case *ast.RangeStmt:
			ast.Inspect(v.Body, func(n ast.Node) bool {
				if call, ok := n.(*ast.CallExpr); ok {
					if f := p.Callee(call); f != nil && core.FuncFullName(f) == "encoding/binary.Write" && len(call.Args) == 3 {
						if t := p.TypeOf(call.Args[2]); t != nil {
							if b, ok := t.Underlying().(*types.Basic); ok {
								switch b.Kind() {
								case types.Uint16:
									per = 2
								case types.Uint32:
									per = 4
								case types.Uint8:
									per = 1
								}
							}
						}
					}
				}
				return true
			})
		}
	}
	if hdr == 0 || per == 0 {
		fail("anchor unresolved: compound framing (header bytes %d, per-part bytes %d)", hdr, per)
	}
	return hdr, per
}

// crcHeaderSize: the length of the header the raw sender prepends for checksummed packets.
func crcHeaderSize(c *Ctx) int64 {
	p := c.P
	fn := c.MustFunc("Memberlist.rawSendMsgPacket")
	var size int64
	inspectFn(fn, func(n ast.Node) bool {
		as, ok := n.(*ast.AssignStmt)
		if !ok || len(as.Rhs) != 1 {
			return true
		}
		call, ok := ast.Unparen(as.Rhs[0]).(*ast.CallExpr)
		if !ok || p.Builtin(call) != "make" || len(call.Args) < 2 {
			return true
		}
		if v, ok := p.ConstInt(call.Args[1]); ok {
			size = v
		}
		return true
	})
	if size == 0 {
		fail("anchor unresolved: checksum header size in the raw packet sender")
	}
	return size
}

type budgetCond struct{ enc bool }

// budgetOf finds `bytesAvail := <expr>` (+ conditional `bytesAvail -= encryptOverhead(...)`) and
// returns its linear form.
func budgetOf(c *Ctx, fn *core.Func) (map[string]int64, int64, budgetCond, bool) {
	p := c.P
	var co map[string]int64
	var k int64
	found := false
	cond := budgetCond{}
	var bobj types.Object
	name := func(e ast.Expr) string { return norm(rename(p, fn, p.Canon(e))) }
	inspectFn(fn, func(n ast.Node) bool {
		switch v := n.(type) {
		case *ast.AssignStmt:
			if len(v.Lhs) == 1 && len(v.Rhs) == 1 {
				if id, ok := v.Lhs[0].(*ast.Ident); ok && v.Tok == token.DEFINE && strings.Contains(strings.ToLower(id.Name), "avail") {
					if l, kk, ok := linear(p, v.Rhs[0], name); ok {
						co, k, found = l, kk, true
						bobj = p.Info.Defs[id]
					}
				}
				if id, ok := v.Lhs[0].(*ast.Ident); ok && v.Tok == token.SUB_ASSIGN && bobj != nil && p.Info.Uses[id] == bobj {
					if call, ok := ast.Unparen(v.Rhs[0]).(*ast.CallExpr); ok {
						if f := p.Callee(call); f != nil && f.Name() == "encryptOverhead" {
							// enclosing condition must mention EncryptionEnabled
							for cur := p.Parent(v); cur != nil; cur = p.Parent(cur) {
								if ifs, ok := cur.(*ast.IfStmt); ok && strings.Contains(p.Canon(ifs.Cond), "EncryptionEnabled()") {
									cond.enc = true
								}
							}
						}
					}
				}
			}
		}
		return true
	})
	return co, k, cond, found
}

// rename maps the receiver variable to "m".
func rename(p *core.Prog, fn *core.Func, s string) string {
	if fn.Decl.Recv != nil && len(fn.Decl.Recv.List[0].Names) > 0 {
		rk := p.VarKey(p.Info.Defs[fn.Decl.Recv.List[0].Names[0]])
		return strings.ReplaceAll(s, rk, "m")
	}
	return s
}

// checkNarrowing: conversions of a length to a one-byte count need the
// length bounded at every call site.
func checkNarrowing(c *Ctx) { checkNarrowingFor(c, "C11") }

func checkNarrowingFor(c *Ctx, prop string) {
	p := c.P
	rule := "a length that is written as a single byte (compound part count, label length) is at most 255 at every call site of the encoder"
	c.Rule(rule)
	b := &boundsAnalysis{c: c, p: p, terms: map[string]termInfo{}, pre: map[*core.Func][]precond{}}
	n := 0
	for _, fn := range p.SortedFuncs() {
		inspectFn(fn, func(nd ast.Node) bool {
			call, ok := nd.(*ast.CallExpr)
			if !ok || !p.IsConversion(call) || len(call.Args) != 1 {
				return true
			}
			to, ok := p.TypeOf(call.Fun).Underlying().(*types.Basic)
			if !ok || (to.Kind() != types.Uint8) {
				return true
			}
			inner, ok := ast.Unparen(call.Args[0]).(*ast.CallExpr)
			if !ok || p.Builtin(inner) != "len" {
				return true
			}
			n++
			// goal: 255 - len(x) >= 0, proven locally or at every call site
			l, okL := b.lenOf(inner.Args[0])
			if !okL {
				c.Check(prop+"/narrowing/"+fn.Name, rule, call.Pos(), false, "length not linear")
				return true
			}
			goal := newLin().add(l, -1)
			goal.k += 255
			proven, via := false, ""
			var siteFacts factSet
			b.withCallHook(fn, fn.Decl.Body, func(*ast.CallExpr, factSet) {})
			for _, s := range b.analyseFunc(fn, fn.Decl.Body, func(ast.Expr) bool { return false }, factSet{}) {
				_ = s
			}
			// facts at the conversion: re-run with a node hook
			old := b.hook
			b.hook = func(node ast.Node, facts factSet) {
				if node.Pos() <= call.Pos() && call.End() <= node.End() && siteFacts == nil {
					siteFacts = facts.clone()
				}
			}
			b.analyseFunc(fn, fn.Decl.Body, func(ast.Expr) bool { return false }, factSet{})
			b.hook = old
			if siteFacts != nil && b.prove(goal, siteFacts) {
				proven, via = true, "local"
			} else {
				params := map[string]int{}
				i := 0
				for _, f := range fn.Decl.Type.Params.List {
					for _, nm := range f.Names {
						params[p.Canon(nm)] = i
						i++
					}
				}
				calls := map[*core.Func][]callRec{}
				for _, cs := range c.G.Callers(fn) {
					for _, r := range b.callFacts(cs.Fn) {
						if p.Callee(r.call) == fn.Obj {
							calls[fn] = append(calls[fn], r)
						}
					}
				}
				// report per call site so that the offending caller is named
				if len(calls[fn]) == 0 {
					c.Check(prop+"/narrowing/"+fn.Name, rule, call.Pos(), false, "no call sites found to bound "+norm(p.Canon(inner.Args[0])))
					return true
				}
				for _, cs := range calls[fn] {
					one := map[*core.Func][]callRec{fn: {cs}}
					ok, v := b.proveAtCallers(fn, goal, params, one, 0)
					c.Check(fmt.Sprintf(prop+"/narrowing/%s<-%s", fn.Name, cs.fn.Name), rule, cs.call.Pos(), ok, fmt.Sprintf("%s passes a list to %s whose length is not bounded by 255: the count byte wraps and the receiver unpacks fewer parts than were packed", cs.fn.Name, fn.Name))
					_ = v
				}
				return true
			}
			c.Check(prop+"/narrowing/"+fn.Name, rule, call.Pos(), proven, via)
			return true
		})
	}
	c.Floor("one-byte length conversions", n, 2)
}

// checkFramingAgreement: encoder and decoder use the same widths and byte order.
func checkFramingAgreement(c *Ctx) {
	p := c.P
	enc := c.MustFunc("makeCompoundMessage")
	dec := c.MustFunc("decodeCompoundMessage")
	rule := "compound framing: encoder and decoder agree - one count byte, big-endian 16-bit length per part, lengths before payloads"
	c.Rule(rule)
	encBE, encU16, decBE16, decCount, decStride := false, false, false, false, false
	inspectFn(enc, func(n ast.Node) bool {
		if call, ok := n.(*ast.CallExpr); ok {
			if f := p.Callee(call); f != nil && core.FuncFullName(f) == "encoding/binary.Write" && len(call.Args) == 3 {
				encBE = p.Canon(call.Args[1]) == "binary.BigEndian"
				if t, ok := p.TypeOf(call.Args[2]).Underlying().(*types.Basic); ok && t.Kind() == types.Uint16 {
					encU16 = true
				}
			}
		}
		return true
	})
	inspectFn(dec, func(n ast.Node) bool {
		switch v := n.(type) {
		case *ast.CallExpr:
			if f := p.Callee(v); f != nil && core.FuncFullName(f) == "encoding/binary.bigEndian.Uint16" || (f != nil && f.Name() == "Uint16" && strings.Contains(p.Canon(v.Fun), "binary.BigEndian")) {
				decBE16 = true
				if len(v.Args) == 1 {
					if sl, ok := ast.Unparen(v.Args[0]).(*ast.SliceExpr); ok {
						s := norm(p.Canon(sl))
						if strings.Contains(s, "(i*2):((i*2)+2)") {
							decStride = true
						}
					}
				}
			}
		case *ast.AssignStmt:
			if len(v.Rhs) == 1 && norm(p.Canon(v.Rhs[0])) == "int(buf[0])" {
				decCount = true
			}
		}
		return true
	})
	c.Check("C11/framing/agreement", rule, dec.Decl.Pos(), encBE && encU16 && decBE16 && decCount && decStride,
		fmt.Sprintf("encoder big-endian=%v uint16=%v; decoder big-endian Uint16=%v count byte=%v stride 2=%v", encBE, encU16, decBE16, decCount, decStride))
	// the chunking helper never produces a chunk above the count byte's range
	mk := c.MustFunc("makeCompoundMessages")
	_ = mk
}

// checkAccounting: the byte accounting shared by the queues is
// "bytes used += message length + per-message overhead".
func checkAccounting(c *Ctx) {
	p := c.P
	rule := "byte accounting: every message taken for a packet is charged its length plus the per-message overhead (both the membership queue and the space then offered to the delegate)"
	c.Rule(rule)
	n := 0
	for _, name := range []string{"Memberlist.getBroadcasts", "TransmitLimitedQueue.GetBroadcasts"} {
		fn := c.MustFunc(name)
		inspectFn(fn, func(nd ast.Node) bool {
			as, ok := nd.(*ast.AssignStmt)
			if !ok || (as.Tok != token.ADD_ASSIGN && as.Tok != token.SUB_ASSIGN) || len(as.Lhs) != 1 {
				return true
			}
			// a running byte count (up or down): an integer variable adjusted by an amount that involves a message length
			if !isIntegerT(p.TypeOf(as.Lhs[0])) || !strings.Contains(norm(p.Canon(as.Rhs[0])), "len(") {
				return true
			}
			n++
			co, k, okL := linear(p, as.Rhs[0], func(e ast.Expr) string { return norm(p.Canon(e)) })
			nlen := 0
			good := okL && k == 0 && co["overhead"] == 1
			for t, cf := range co {
				switch {
				case t == "overhead":
				case strings.HasPrefix(t, "len(") && cf == 1:
					nlen++
				case cf != 0:
					good = false
				}
			}
			good = good && nlen == 1
			c.Check("C11/accounting/"+name, rule, as.Pos(), good, "running byte count adjusted by "+norm(p.Canon(as.Rhs[0]))+" (must be the message's length + overhead)")
			return true
		})
	}
	c.Floor("byte accounting updates", n, 2)
	// the delegate is offered what is left, with the user-message framing byte added to the
	// overhead: read from the values the exploration hands to Delegate.GetBroadcasts - with no
	// message taken the whole limit, with one taken limit - (len + overhead), and in general
	// (induction over the loop, the accumulator's own name standing for its previous value)
	// limit - (X + len + overhead) for a count X of bytes used, or X - (len + overhead) for
	// a remainder X
	gb := c.MustFunc("Memberlist.getBroadcasts")
	xg := c.flow(gb, map[string]string{})
	nd := 0
	for _, e := range xg.Effects {
		if e.Class != "DELEGATE:GetBroadcasts" {
			continue
		}
		nd++
		a0, a1 := norm(e.Detail["arg0"]), norm(e.Detail["arg1"])
		good, why := true, ""
		if a0 != "(overhead+1)" && a0 != "(1+overhead)" {
			good, why = false, "the delegate's per-message overhead is "+a0+", not overhead + the user-message framing byte"
		}
		co, k, ok := linearName(a1)
		if good && (!ok || k != 0) {
			good, why = false, "space offered to the delegate "+a1+" is not limit minus the bytes already used"
		}
		if good {
			nlen, other := int64(0), []string{}
			for t, cf := range co {
				switch {
				case cf == 0, t == "overhead", t == "limit":
				case strings.HasPrefix(t, "len(") && cf == -1:
					nlen++
				default:
					other = append(other, fmt.Sprintf("%+d*%s", cf, t))
				}
			}
			sort.Strings(other)
			okShape := co["overhead"] == -nlen
			switch {
			case co["limit"] == 1 && len(other) == 0:
			case co["limit"] == 1 && len(other) == 1 && strings.HasPrefix(other[0], "-1*") && isLocalName(other[0][3:]) && nlen >= 1:
			case co["limit"] == 0 && len(other) == 1 && strings.HasPrefix(other[0], "+1*") && isLocalName(other[0][3:]) && nlen >= 1:
			default:
				okShape = false
			}
			if !okShape {
				good, why = false, "space offered to the delegate "+a1+" is not limit minus (length + overhead) of every message already taken"
			}
		}
		c.Check("C11/accounting/delegate-space", rule, e.Pos, good, why)
	}
	c.Floor("delegate broadcast requests", nd, 1)
}

// isLocalName: a plain variable name (after norm), standing for the previous
// value of a loop accumulator.
func isLocalName(s string) bool {
	if s == "" {
		return false
	}
	for i, r := range s {
		if !(r == '_' || (r >= 'a' && r <= 'z') || (r >= 'A' && r <= 'Z') || (i > 0 && r >= '0' && r <= '9')) {
			return false
		}
	}
	return true
}

// checkEncryptOverhead: the per-version overhead the budgets subtract covers the
// worst case of what the encryptor adds: for each encryption version,
// encryptOverhead(v) >= max over inputs of encryptedLength(v, n) - n. Both are
// read from the explorations of the two helpers: the overhead helper returns a
// constant per version; the length helper returns n plus constants and terms
// n % B, which range over [0, B-1].
func checkEncryptOverhead(c *Ctx, prop string) {
	rule := "encryption overhead: for every encryption version the overhead the packet budgets subtract is at least the worst-case growth of the encryptor (version byte + nonce + padding up to a whole block + tag)"
	c.Rule(rule)
	ov := c.MustFunc("encryptOverhead")
	el := c.MustFunc("encryptedLength")
	xo, xl := c.flow(ov, map[string]string{}), c.flow(el, map[string]string{})
	// version of an exit: 0 when vsn>=1 is false, 1 when vsn>=1 and not vsn>=2, "1+" when only vsn>=1 is known
	version := func(cube map[string]string) string {
		v1, has1 := atomU(cube, "vsn>=1")
		v2, has2 := atomU(cube, "vsn>=2")
		switch {
		case has1 && v1 == "F":
			return "0"
		case has1 && v1 == "T" && has2 && v2 == "F":
			return "1"
		case has1 && v1 == "T" && !has2:
			return "1+"
		case has2 && v2 == "T":
			return "2+"
		}
		return "?"
	}
	sub := map[string]int64{}
	for _, ex := range xo.Exits {
		if ex.Kind != "return" || len(ex.Ret) != 1 {
			continue
		}
		if v, err := strconv.ParseInt(norm(ex.Ret[0]), 10, 64); err == nil {
			sub[version(ex.Cube)] = v
		} else {
			c.Check(prop+"/overhead/encrypt", rule, ex.Pos, false, "encryptOverhead returns "+norm(ex.Ret[0])+", not a constant")
		}
	}
	n := 0
	for _, ex := range xl.Exits {
		if ex.Kind != "return" || len(ex.Ret) != 1 {
			continue
		}
		n++
		r := norm(ex.Ret[0])
		co, k, ok := linearName(r)
		worst := k
		good := ok
		for t, cf := range co {
			switch {
			case cf == 0:
			case t == "inp" && cf == 1:
			case strings.HasPrefix(t, "(inp%") && strings.HasSuffix(t, ")"):
				if b, err := strconv.ParseInt(t[5:len(t)-1], 10, 64); err == nil && b > 0 {
					if cf > 0 {
						worst += cf * (b - 1)
					} // a negative coefficient is worst at remainder 0
				} else {
					good = false
				}
			default:
				good = false
			}
		}
		if !good {
			c.Check(prop+"/overhead/encrypt", rule, ex.Pos, false, "encryptedLength returns "+r+": not the input length plus constants and remainders")
			continue
		}
		v := version(ex.Cube)
		for sv, have := range sub {
			if sv == v || (v == "1+" && sv == "1") {
				c.Check(prop+"/overhead/encrypt", rule, ex.Pos, have >= worst, fmt.Sprintf("version %s: the budgets subtract %d bytes but the encryptor can add %d (%s): a packet filled to the budget exceeds the configured size", sv, have, worst, r))
			}
		}
	}
	c.Floor("exits of the length helper (overhead rule)", n, 2)
	c.Floor("versions with a constant overhead", len(sub), 2)
}
