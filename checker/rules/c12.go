package rules

import (
	"fmt"
	"go/ast"
	"go/token"
	"go/types"
	"sort"
	"strings"

	"mlverif/core"
	"mlverif/gea"
)

func init() {
	register("C12", func(c *Ctx) {
		c.Assume("byte-for-byte equality of what is sent and received is a value property and is not decided; this check covers the agreement conditions between the sending and the receiving half: type tables, dispatcher exhaustiveness, layer order, associated data, and the length accounting shared by padder, length prefix and reader")
		checkTypeTables(c)
		checkLayerOrder(c)
		checkAADAgreement(c)
		checkLengthAccounting(c)
	})
}

// derefType names the struct type behind &v / v.
func derefType(p *core.Prog, e ast.Expr) string {
	e = ast.Unparen(e)
	if u, ok := e.(*ast.UnaryExpr); ok && u.Op == token.AND {
		e = u.X
	}
	t := p.TypeOf(e)
	if t == nil {
		return ""
	}
	return core.NamedOf(t)
}

// checkTypeTables: message-type constant -> Go struct, on the encode side and on the decode side.
func checkTypeTables(c *Ctx) {
	p := c.P
	enc := map[string]map[string]token.Pos{} // const -> type -> pos
	emitPacket, emitStream := map[string]bool{}, map[string]bool{}
	addEnc := func(k, t string, pos token.Pos) {
		if k == "" || t == "" {
			return
		}
		if enc[k] == nil {
			enc[k] = map[string]token.Pos{}
		}
		enc[k][t] = pos
	}
	mt := func(e ast.Expr) string {
		if core.NamedOf(p.TypeOf(e)) != "messageType" {
			return ""
		}
		if id, ok := ast.Unparen(e).(*ast.Ident); ok {
			if _, isC := p.Info.Uses[id].(*types.Const); isC {
				return id.Name
			}
		}
		return ""
	}
	for _, fn := range p.SortedFuncs() {
		inspectFn(fn, func(n ast.Node) bool {
			call, ok := n.(*ast.CallExpr)
			if !ok {
				return true
			}
			f := p.Callee(call)
			if f == nil || f.Pkg() != p.Types {
				return true
			}
			// any package function taking (…, messageType, payload any …): encode, encodeAndSendMsg, encodeAndBroadcast, encodeBroadcastNotify
			sig := f.Type().(*types.Signature)
			for i := 0; i+1 < sig.Params().Len() && i+1 < len(call.Args); i++ {
				if core.NamedOf(sig.Params().At(i).Type()) == "messageType" {
					if _, isIface := sig.Params().At(i + 1).Type().Underlying().(*types.Interface); isIface {
						k := mt(call.Args[i])
						addEnc(k, derefType(p, call.Args[i+1]), call.Pos())
						// which wire does this site emit on?
						if k != "" {
							pk, st := false, false
							if f.Name() == "encode" {
								direct := map[string]bool{}
								for _, s := range c.G.Sites[fn] {
									if s.Kind == "CALL" && s.To != nil {
										direct[s.To.Name()] = true
									}
								}
								st = direct["rawSendMsgStream"]
								pk = direct["rawSendMsgPacket"] || direct["sendMsg"] || direct["encodeAndSendMsg"] || direct["queueBroadcast"]
							} else if fi := p.ByObj[f]; fi != nil {
								sum := c.G.Summary(fi)
								pk = sum["SINK:packet"] || sum["QB"]
								st = sum["SINK:stream"] && !pk
							}
							if pk {
								emitPacket[k] = true
							}
							if st {
								emitStream[k] = true
							}
						}
					}
				}
			}
			return true
		})
	}
	// decode side: packet dispatcher arms -> handler -> decode(buf, &x)
	dec := map[string]map[string]token.Pos{}
	addDec := func(k, t string, pos token.Pos) {
		if k == "" || t == "" {
			return
		}
		if dec[k] == nil {
			dec[k] = map[string]token.Pos{}
		}
		dec[k][t] = pos
	}
	firstDecode := func(fn *core.Func) (string, token.Pos) {
		var t string
		var pos token.Pos
		inspectFn(fn, func(n ast.Node) bool {
			if t != "" {
				return false
			}
			call, ok := n.(*ast.CallExpr)
			if !ok {
				return true
			}
			f := p.Callee(call)
			if f == nil {
				return true
			}
			if f.Pkg() == p.Types && f.Name() == "decode" && len(call.Args) == 2 {
				t, pos = derefType(p, call.Args[1]), call.Pos()
			}
			if strings.HasSuffix(core.FuncFullName(f), "codec.Decoder.Decode") && len(call.Args) == 1 {
				t, pos = derefType(p, call.Args[0]), call.Pos()
			}
			return true
		})
		return t, pos
	}
	packetArms, streamArms := map[string]bool{}, map[string]bool{}
	scanSwitch := func(fn *core.Func, arms map[string]bool, inline bool) {
		inspectFn(fn, func(n ast.Node) bool {
			sw, ok := n.(*ast.SwitchStmt)
			if !ok || sw.Tag == nil || core.NamedOf(p.TypeOf(sw.Tag)) != "messageType" {
				return true
			}
			for _, cl := range sw.Body.List {
				cc := cl.(*ast.CaseClause)
				for _, e := range cc.List {
					k := mt(e)
					if k == "" {
						continue
					}
					arms[k] = true
					// the handler called in this arm (fallthrough chains share the last body)
					ast.Inspect(cc, func(m ast.Node) bool {
						call, ok := m.(*ast.CallExpr)
						if !ok {
							return true
						}
						f := p.Callee(call)
						if f == nil {
							return true
						}
						if fi := p.ByObj[f]; fi != nil && f.Pkg() == p.Types {
							if t, pos := firstDecode(fi); t != "" {
								addDec(k, t, pos)
							}
						}
						if strings.HasSuffix(core.FuncFullName(f), "codec.Decoder.Decode") && len(call.Args) == 1 {
							addDec(k, derefType(p, call.Args[0]), call.Pos())
						}
						return true
					})
				}
			}
			return true
		})
	}
	scanSwitch(c.MustFunc("Memberlist.handleCommand"), packetArms, true)
	scanSwitch(c.MustFunc("Memberlist.packetHandler"), packetArms, true)
	scanSwitch(c.MustFunc("Memberlist.handleConn"), streamArms, true)
	// initiators that await a specific reply type
	for _, fn := range []*core.Func{c.MustFunc("Memberlist.sendAndReceiveState"), c.MustFunc("Memberlist.sendPingAndWaitForAck")} {
		inspectFn(fn, func(n ast.Node) bool {
			ifs, ok := n.(*ast.IfStmt)
			if !ok {
				return true
			}
			be, ok := ast.Unparen(ifs.Cond).(*ast.BinaryExpr)
			if !ok {
				return true
			}
			k := mt(be.Y)
			if k == "" {
				return true
			}
			streamArms[k] = true
			if be.Op == token.EQL {
				ast.Inspect(ifs.Body, func(m ast.Node) bool {
					if call, ok := m.(*ast.CallExpr); ok {
						if f := p.Callee(call); f != nil && strings.HasSuffix(core.FuncFullName(f), "codec.Decoder.Decode") && len(call.Args) == 1 {
							addDec(k, derefType(p, call.Args[0]), call.Pos())
						}
					}
					return true
				})
			} else if be.Op == token.NEQ {
				// `if msgType != X { return err }` followed by a decode of X's struct
				after := false
				inspectFn(fn, func(m ast.Node) bool {
					if m == ast.Node(ifs) {
						after = true
					}
					if call, ok := m.(*ast.CallExpr); ok && after {
						f := p.Callee(call)
						if f == nil {
							return true
						}
						if strings.HasSuffix(core.FuncFullName(f), "codec.Decoder.Decode") && len(call.Args) == 1 {
							addDec(k, derefType(p, call.Args[0]), call.Pos())
						} else if fi := p.ByObj[f]; fi != nil && f.Pkg() == p.Types {
							if t, pos := firstDecode(fi); t != "" && k == "pushPullMsg" {
								addDec(k, t, pos)
							}
						}
					}
					return true
				})
			}
			return true
		})
	}
	rule := "type tables agree: for every message-type constant, the struct the senders encode under it is the struct the receiving arm for that constant decodes into"
	c.Rule(rule)
	var keys []string
	for k := range enc {
		keys = append(keys, k)
	}
	sort.Strings(keys)
	n := 0
	for _, k := range keys {
		if dec[k] == nil {
			continue
		}
		n++
		var ets, dts []string
		for t := range enc[k] {
			ets = append(ets, t)
		}
		for t := range dec[k] {
			dts = append(dts, t)
		}
		sort.Strings(ets)
		sort.Strings(dts)
		ok := true
		for _, t := range ets {
			if _, has := dec[k][t]; !has {
				ok = false
			}
		}
		var pos token.Pos
		for _, ps := range dec[k] {
			pos = ps
		}
		c.Check("C12/type-table/"+k, rule, pos, ok, fmt.Sprintf("%s is encoded from %v but decoded into %v", k, ets, dts))
	}
	c.Floor("message types with both an encode and a decode site", n, 8)
	c.Extra["encode_table"] = fmt.Sprint(keysOf(enc))
	c.Extra["decode_table"] = fmt.Sprint(keysOf(dec))
	// exhaustiveness
	rule2 := "exhaustiveness: every message-type constant a node emits has a receiving arm (packet dispatcher or hand-off switch for packets; stream switch or awaiting initiator for streams)"
	c.Rule(rule2)
	for _, k := range keys {
		if emitPacket[k] {
			c.Check("C12/exhaustive/packet/"+k, rule2, token.NoPos, packetArms[k], k+" is emitted in packets but the packet dispatcher has no arm for it")
		}
		if emitStream[k] {
			c.Check("C12/exhaustive/stream/"+k, rule2, token.NoPos, streamArms[k], k+" is emitted on streams but no stream receiver has an arm for it")
		}
		if !emitPacket[k] && !emitStream[k] {
			c.Check("C12/exhaustive/"+k, rule2, token.NoPos, packetArms[k] || streamArms[k], k+" is emitted but no receiver has an arm for it")
		}
	}
	c.Extra["emitted_on_packets"] = fmt.Sprint(sortedKeys(emitPacket))
	c.Extra["emitted_on_streams"] = fmt.Sprint(sortedKeys(emitStream))
	// the hand-off switch covers exactly what the dispatcher queues
	hc := c.MustFunc("Memberlist.handleCommand")
	x := c.flow(hc, map[string]string{})
	queued := map[string]bool{}
	for _, e := range x.Effects {
		if e.Class == "LIST:PushBack" {
			for k, v := range e.Cube {
				if strings.HasPrefix(norm(k), "enum:buf[0]") && !strings.HasPrefix(v, "!") {
					queued[v] = true
				}
			}
		}
	}
	ph := map[string]bool{}
	scanSwitch(c.MustFunc("Memberlist.packetHandler"), ph, true)
	for k := range queued {
		c.Check("C12/handoff-covered/"+k, "every message type the dispatcher queues has an arm in the hand-off goroutine's switch", hc.Decl.Pos(), ph[k], k+" is queued but the hand-off switch has no arm for it (it would be dropped)")
	}
}

func sortedKeys(m map[string]bool) []string {
	var out []string
	for k := range m {
		out = append(out, k)
	}
	sort.Strings(out)
	return out
}

func keysOf(m map[string]map[string]token.Pos) []string {
	var out []string
	for k, ts := range m {
		for t := range ts {
			out = append(out, k+":"+t)
		}
	}
	sort.Strings(out)
	return out
}

// checkLayerOrder: send = compress, checksum, encrypt (label by the wrapper); receive = label, decrypt, checksum, dispatch (decompress inside).
func checkLayerOrder(c *Ctx) {
	rule := "layer order: the raw packet sender compresses, then prepends the checksum header, then encrypts; the receiver removes the label, decrypts, verifies the checksum and only then dispatches (decompression happens inside the dispatcher) - the exact reverse"
	c.Rule(rule)
	rs := c.MustFunc("Memberlist.rawSendMsgPacket")
	xs := c.flow(rs, map[string]string{})
	for _, e := range xs.Effects {
		switch e.Class {
		case "CALL:compressPayload":
			c.Check("C12/order/send/compress-first", rule, e.Pos, e.Seen["MAKE"] == 0 && e.Seen["CALL:encryptPayload"] == 0, "compression after the checksum header or encryption")
		case "MAKE": // checksum header
			c.Check("C12/order/send/checksum-before-encrypt", rule, e.Pos, e.Seen["CALL:encryptPayload"] == 0, "checksum header added after encryption")
		case "CALL:encryptPayload":
			ok := true
			if e.Cube["m.config.EnableCompression"] == "T" && e.Seen["CALL:compressPayload"] == 0 {
				ok = false
			}
			if v, has := atomU(e.Cube, "peerPMax>=5"); has && v == "T" && e.Seen["MAKE"] == 0 {
				ok = false
			}
			c.Check("C12/order/send/encrypt-last", rule, e.Pos, ok && e.Seen["SINK:packet"] == 0, "encryption before compression / checksum, or after the send")
		}
	}
	ip := c.MustFunc("Memberlist.ingestPacket")
	xi := c.flow(ip, map[string]string{})
	for _, e := range xi.Effects {
		switch e.Class {
		case "CALL:decryptPayload":
			c.Check("C12/order/recv/label-before-decrypt", rule, e.Pos, e.Seen["CALL:RemoveLabelHeaderFromPacket"] == 1 && e.Seen["CALL:Memberlist.handleCommand"] == 0, "decryption before label removal")
		case "CALL:Memberlist.handleCommand":
			ok := e.Seen["CALL:RemoveLabelHeaderFromPacket"] == 1
			if e.Cube["encOn"] == "T" && e.Seen["CALL:decryptPayload"] == 0 {
				ok = false
			}
			c.Check("C12/order/recv/dispatch-last", rule, e.Pos, ok, "dispatch before label removal / decryption")
		}
	}
	// the checksum covers exactly what follows the 5-byte header, on both sides:
	// sender: the bytes checksummed are the bytes appended after the 5-byte header that goes out;
	// receiver: the bytes checksummed are the bytes after the first five, and they are what is dispatched
	okS, okR := false, false
	nS, nR := 0, 0
	xsnd := c.flow(rs, map[string]string{})
	for _, e := range xsnd.Effects {
		if e.Class != "CRC" {
			continue
		}
		nS++
		a := e.Detail["arg0"]
		found := false
		for _, e2 := range xsnd.Effects {
			var out string
			switch e2.Class {
			case "SINK:packet":
				out = e2.Detail["arg0"]
			case "CALL:encryptPayload":
				out = e2.Detail["arg2"]
			default:
				continue
			}
			if strings.HasPrefix(out, "append(make([]byte,5,") && strings.Contains(out, ","+a+")") {
				found = true
			}
		}
		if found {
			okS = true
		} else {
			okS = false
			break
		}
	}
	for _, e := range xi.Effects {
		if e.Class != "CRC" {
			continue
		}
		nR++
		a := untok(e.Detail["arg0"])
		okR = strings.HasSuffix(a, "[5:]")
		if !okR {
			break
		}
	}
	for _, e := range xi.Effects {
		if e.Class == "CALL:Memberlist.handleCommand" && e.Seen["CRC"] > 0 {
			// the payload dispatched after a checksum test is what was checksummed
			if !strings.HasSuffix(untok(e.Detail["arg0"]), "[5:]") {
				okR = false
			}
		}
	}
	okS = okS && nS > 0
	okR = okR && nR > 0
	c.Check("C12/order/checksum-scope", "sender and receiver compute the checksum over the same bytes (everything after the 5-byte header)", rs.Decl.Pos(), okS && okR, fmt.Sprintf("sender over payload:%v receiver over buf[5:]:%v", okS, okR))
	// stream: compress then encrypt; reader: decrypt then decompress
	ss := c.MustFunc("Memberlist.rawSendMsgStream")
	xss := c.flow(ss, map[string]string{})
	for _, e := range xss.Effects {
		if e.Class == "CALL:compressPayload" {
			c.Check("C12/order/stream-send", "stream sender compresses before it encrypts", e.Pos, e.Seen["CALL:Memberlist.encryptLocalState"] == 0, "compression after encryption")
		}
	}
	rd := c.MustFunc("Memberlist.readStream")
	xr := c.flow(rd, map[string]string{})
	for _, e := range xr.Effects {
		if e.Class == "CALL:Memberlist.decryptRemoteState" {
			c.Check("C12/order/stream-recv", "stream reader decrypts before it decompresses", e.Pos, e.Seen["CALL:decompressBuffer"] == 0, "decompression before decryption")
		}
	}
}

// checkAADAgreement: the associated-data expressions of seal and open have the same shape.
func checkAADAgreement(c *Ctx) {
	rule := "associated data agrees: on the stream path both sides authenticate appendBytes(<first 5 bytes: type + length>, []byte(label)); on the packet path both sides authenticate the label bytes"
	c.Rule(rule)
	shape := func(fn *core.Func, callee string, argIdx int) (string, token.Pos) {
		x := c.flow(fn, map[string]string{})
		for _, e := range x.Effects {
			if e.Class == "CALL:"+callee {
				s := norm(e.Detail[fmt.Sprintf("arg%d", argIdx)])
				// abstract the buffer variable
				for _, v := range []string{"cipherText", "buf"} {
					s = strings.ReplaceAll(s, v+".Bytes()", "HDR.Bytes()")
				}
				return s, e.Pos
			}
		}
		return "", fn.Decl.Pos()
	}
	seal, p1 := shape(c.MustFunc("Memberlist.encryptLocalState"), "encryptPayload", 3)
	open, p2 := shape(c.MustFunc("Memberlist.decryptRemoteState"), "decryptPayload", 2)
	_ = p2
	checkEncryptOverhead(c, "C12")
	checkUnpadAcceptsPadding(c, "C12")
	checkNarrowingFor(c, "C12")
	checkAADConcat(c, "C12")
	checkStreamLabelConsistent(c, "C12")
	checkStreamReadsExact(c, "C12")
	c.Check("C12/aad/stream", rule, p1, seal != "" && seal == open && strings.HasPrefix(seal, "appendBytes(HDR.Bytes()[:5],[]byte(streamLabel))"), "seal authenticates "+seal+", open authenticates "+open)
	// appendBytes never aliases its first argument's spare capacity when it has to join two parts
	ab := c.MustFunc("appendBytes")
	okCopy := false
	inspectFn(ab, func(n ast.Node) bool {
		if call, ok := n.(*ast.CallExpr); ok && c.P.Builtin(call) == "make" && len(call.Args) >= 2 {
			okCopy = true
		}
		return true
	})
	c.Check("C12/aad/no-alias", "the associated-data builder joins its parts into a fresh slice (appending in place would write the label into the buffer the ciphertext is about to overwrite)", ab.Decl.Pos(), okCopy, "appendBytes does not allocate a fresh slice for the joined value")
	pseal, p3 := shape(c.MustFunc("Memberlist.rawSendMsgPacket"), "encryptPayload", 3)
	popen, _ := shape(c.MustFunc("Memberlist.ingestPacket"), "decryptPayload", 2)
	okP := pseal == "[]byte(m.config.Label)" && (popen == "[]byte(RemoveLabelHeaderFromPacket(buf))" || strings.HasPrefix(popen, "[]byte("))
	c.Check("C12/aad/packet", rule, p3, okP, "seal authenticates "+pseal+", open authenticates "+popen)
}

// checkLengthAccounting: padder, length helper, stream prefix and reader agree.
func checkLengthAccounting(c *Ctx) {
	p := c.P
	rule := "length accounting agrees: the version-0 padding the length helper adds is the padder's own formula (block - n mod block, a full block when aligned); the stream length prefix is that helper applied to the same version and payload the encryptor is given; the reader takes exactly the prefixed number of bytes"
	c.Rule(rule)
	// padder: more := blockSize - (n % blockSize)
	pad := c.MustFunc("pkcs7encode")
	el := c.MustFunc("encryptedLength")
	form := func(fn *core.Func) string {
		out := ""
		inspectFn(fn, func(n ast.Node) bool {
			be, ok := n.(*ast.BinaryExpr)
			if !ok || be.Op != token.SUB {
				return true
			}
			inner, ok := ast.Unparen(be.Y).(*ast.BinaryExpr)
			if !ok || inner.Op != token.REM {
				return true
			}
			b1, b2 := norm(p.Canon(be.X)), norm(p.Canon(inner.Y))
			if b1 == b2 {
				out = "B-(X%B)"
			}
			return true
		})
		return out
	}
	fp, fe := form(pad), form(el)
	c.Check("C12/length/padding-formula", rule, el.Decl.Pos(), fp == "B-(X%B)" && fe == fp, fmt.Sprintf("padder uses %q, the length helper uses %q: for inputs that are a multiple of the block size the announced length and the bytes written differ by a whole block", fp, fe))
	// the helper's results: version >= 1: 1+12+n+16; version 0: 1+12+n+padding+16
	x := c.flow(el, map[string]string{})
	n := 0
	for _, ex := range x.Exits {
		if len(ex.Ret) != 1 {
			continue
		}
		n++
		r := norm(ex.Ret[0])
		v1, has := atomU(ex.Cube, "vsn>=1")
		ok := false
		if has && v1 == "T" {
			ok = r == "(((1+12)+inp)+16)" || r == "(((13+inp))+16)" || strings.Count(r, "inp") == 1 && !strings.Contains(r, "%") && strings.Contains(r, "16") && strings.Contains(r, "1")
		} else if has {
			ok = strings.Contains(r, "inp") && (strings.Contains(r, "padding") || strings.Contains(r, "%"))
		}
		c.Check("C12/length/helper-results", rule, ex.Pos, ok, "encryptedLength returns "+r+" under {"+norm(gea.CubeString(ex.Cube))+"}")
	}
	c.Floor("exits of the length helper", n, 2)
	// prefix = encryptedLength(encVsn, len(sendBuf)); encryptPayload(encVsn, key, sendBuf, ...)
	els := c.MustFunc("Memberlist.encryptLocalState")
	xe := c.flow(els, map[string]string{})
	var lenArgs, encArgs map[string]string
	for _, e := range xe.Effects {
		if e.Class == "CALL:encryptedLength" {
			lenArgs = e.Detail
		}
		if e.Class == "CALL:encryptPayload" {
			encArgs = e.Detail
		}
	}
	ok := lenArgs != nil && encArgs != nil && lenArgs["arg0"] == encArgs["arg0"] && norm(lenArgs["arg1"]) == "len("+norm(encArgs["arg2"])+")"
	c.Check("C12/length/prefix-matches-encryptor", rule, els.Decl.Pos(), ok, fmt.Sprintf("prefix from encryptedLength(%s,%s), encryptor given (%s, payload %s)", norm(lenArgs["arg0"]), norm(lenArgs["arg1"]), norm(encArgs["arg0"]), norm(encArgs["arg2"])))
	// the encryptor reserves with the same helper
	ep := c.MustFunc("encryptPayload")
	okGrow := false
	inspectFn(ep, func(nd ast.Node) bool {
		if call, isC := nd.(*ast.CallExpr); isC {
			if f := p.Callee(call); f != nil && f.Name() == "encryptedLength" && len(call.Args) == 2 && norm(p.Canon(call.Args[0])) == "vsn" && norm(p.Canon(call.Args[1])) == "len(msg)" {
				okGrow = true
			}
		}
		return true
	})
	c.Check("C12/length/encryptor-uses-helper", rule, ep.Decl.Pos(), okGrow, "the encryptor does not size its output with encryptedLength(vsn, len(msg))")
	// reader: CopyN(..., moreBytes) where moreBytes is the prefix
	dr := c.MustFunc("Memberlist.decryptRemoteState")
	xd := c.flow(dr, map[string]string{})
	okRead := false
	for _, e := range xd.Effects {
		if e.Class == "IO:CopyN" && strings.Contains(norm(e.Detail["arg2"]), "binary.BigEndian.Uint32(") && strings.Contains(norm(e.Detail["arg2"]), "[1:5]") {
			okRead = true
		}
	}
	c.Check("C12/length/reader-takes-prefix", rule, dr.Decl.Pos(), okRead, "the stream reader does not read exactly the prefixed number of bytes (prefix = bytes 1..4)")
	// the padder is applied to the staged plaintext with the bytes before it ignored
	xp := c.flow(ep, map[string]string{})
	okPad := false
	for _, e := range xp.Effects {
		if e.Class == "CALL:pkcs7encode" {
			a1 := norm(e.Detail["arg1"])
			// offset (the buffer length at entry) + version byte + nonce
			okPad = strings.HasPrefix(a1, "((dst.Len()+1)+12)") || strings.HasPrefix(a1, "(dst.Len()+13)") || (strings.Contains(a1, "offset") && strings.Contains(a1, "13"))
		}
	}
	c.Check("C12/length/padder-scope", rule, ep.Decl.Pos(), okPad, "the padder is not told to ignore exactly the bytes before the plaintext (offset + version + nonce)")
}

// checkAADConcat: the helper that assembles the stream's associated data
// returns its two operands concatenated (header bytes, then label). Both the
// sealing and the opening side use it, so a helper that silently drops the
// label would still round-trip - and streams sealed for one label would open
// under any other. Per exit, read from the exploration: with one operand empty
// the other one is returned; with both present the result is append(append(
// <empty>, first), second), or a buffer of length len(first)+len(second) into
// which first is copied at 0 and second at len(first).
func checkAADConcat(c *Ctx, prop string) {
	fn := c.MustFunc("appendBytes")
	x := c.flow(fn, map[string]string{})
	rule := "associated data: the helper that joins the stream header bytes and the label returns exactly first followed by second (a dropped label would make streams sealed for one label open under any other)"
	c.Rule(rule)
	n := 0
	for _, ex := range x.Exits {
		if ex.Kind != "return" || len(ex.Ret) != 1 {
			continue
		}
		n++
		f1, h1 := atomU(ex.Cube, "len(first)>=1")
		s1, h2 := atomU(ex.Cube, "len(second)>=1")
		r := untok(ex.Ret[0])
		ok, why := true, ""
		switch {
		case h1 && f1 == "F" && h2 && s1 == "F":
			// both empty: any empty result
		case h1 && f1 == "F":
			ok = r == "second" || (strings.HasPrefix(r, "append(") && strings.HasSuffix(r, ",second)") && !strings.Contains(r, "first"))
			why = "first is empty but the result is " + r + ", not second"
		case h2 && s1 == "F":
			ok = r == "first" || (strings.HasPrefix(r, "append(") && strings.HasSuffix(r, ",first)") && !strings.Contains(r, "second"))
			why = "second is empty but the result is " + r + ", not first"
		default:
			// both may be present
			appendForm := strings.HasPrefix(r, "append(append(") && strings.HasSuffix(r, ",first),second)") &&
				(strings.HasPrefix(r, "append(append(make([]byte,0") || strings.HasPrefix(r, "append(append(nil,") || strings.HasPrefix(r, "append(append([]byte{}"))
			copyForm := false
			if strings.HasPrefix(r, "make([]byte,") {
				size := strings.TrimSuffix(strings.TrimPrefix(r, "make([]byte,"), ")")
				if i := strings.LastIndex(size, ","); i > 0 && !strings.Contains(size[i:], "(") {
					size = size[:i] // drop a capacity operand
				}
				co, k, okL := linearName(size)
				c1, c2 := false, false
				for _, e := range x.Effects {
					if e.Class != "COPY" || !cubeCompatible(e.Cube, ex.Cube) {
						continue
					}
					d, sname := untok(e.Detail["dst"]), untok(e.Detail["src"])
					if sname == "first" && d == r {
						c1 = true
					}
					if sname == "second" && d == r+"[len(first):]" {
						c2 = true
					}
				}
				copyForm = okL && k == 0 && co["len(first)"] == 1 && co["len(second)"] == 1 && len(nonzero(co)) == 2 && c1 && c2
			}
			ok = appendForm || copyForm
			why = "with both operands present the result is " + r + ", which is not first followed by second"
		}
		c.Check(prop+"/aad/concat-helper", rule, ex.Pos, ok, why)
	}
	c.Floor("returns of the associated-data helper", n, 2)
}

// cubeCompatible: the two path conditions do not contradict each other.
func cubeCompatible(a, b map[string]string) bool {
	for k, v := range a {
		if w, ok := b[k]; ok && w != v {
			return false
		}
	}
	return true
}

// checkUnpadAcceptsPadding: the padding remover accepts every pad length the
// padder can produce (1 .. block size, whole block included - the padder adds a
// full block to block-aligned input) on a buffer long enough to hold it: each
// rejecting exit has established that the buffer is empty, the pad length is
// below 1, above the block size, or above the buffer length. A remover that
// rejects a legal pad drops one payload size in sixteen, with everything
// packed into that packet.
func checkUnpadAcceptsPadding(c *Ctx, prop string) {
	rule := "the padding remover rejects only what the padder never writes: an empty buffer, a pad length below 1, above the block size, or above the buffer length (a full block of padding is legal)"
	c.Rule(rule)
	fn := c.MustFunc("pkcs7decodeChecked")
	x := c.flow(fn, map[string]string{})
	nRej, nAcc := 0, 0
	for _, ex := range x.Exits {
		if len(ex.Ret) != 2 {
			continue
		}
		if untok(ex.Ret[1]) == "nil" {
			nAcc++
			continue
		}
		nRej++
		just := ""
		for k, v := range ex.Cube {
			u := untok(k)
			pad := strings.Contains(u, "buf[")
			switch {
			case u == "len(buf)>=1" && v == "F":
				just = "empty"
			case pad && strings.HasSuffix(u, ">=1") && !strings.HasPrefix(u, "cmp(") && v == "F":
				just = "pad<1"
			case pad && strings.HasPrefix(u, "cmp(blockSize,") && v == "LT", pad && strings.HasPrefix(u, "cmp(") && strings.HasSuffix(u, ",blockSize)") && v == "GT":
				just = "pad>block"
			case pad && strings.HasPrefix(u, "cmp(") && strings.HasSuffix(u, ",len(buf))") && v == "GT", pad && strings.HasPrefix(u, "cmp(len(buf),") && v == "LT":
				just = "pad>len"
			}
		}
		c.Check(prop+"/unpad/accepts-all-padding", rule, ex.Pos, just != "", "the remover rejects at "+c.P.Pos(ex.Pos)+" a buffer whose pad length may be legal {"+untok(gea.CubeString(ex.Cube))+"}")
	}
	c.Floor("rejecting exits of the padding remover", nRej, 2)
	c.Floor("accepting exits of the padding remover", nAcc, 1)
}

// checkStreamReadsExact: payload bytes announced by a header are taken from
// the stream with a primitive that keeps reading until it has all of them. A
// single Read returns whatever happens to be buffered (at most the 4 KiB of
// the bufio reader when neither compression nor encryption put the message in
// memory first), so a bare Read silently truncates large messages.
func checkStreamReadsExact(c *Ctx, prop string) {
	p := c.P
	rule := "announced payload bytes are read in full: no bare Read on a stream outside a forwarding Read method; every ReadAtLeast/ReadFull fills a buffer of exactly the announced length and demands all of it"
	c.Rule(rule)
	isRead := func(f *types.Func) bool {
		if f == nil || f.Name() != "Read" {
			return false
		}
		sig, ok := f.Type().(*types.Signature)
		if !ok || sig.Recv() == nil || sig.Params().Len() != 1 || sig.Results().Len() != 2 {
			return false
		}
		sl, ok := sig.Params().At(0).Type().Underlying().(*types.Slice)
		return ok && types.Identical(sl.Elem(), types.Typ[types.Byte])
	}
	forwards, bare := 0, 0
	for _, fn := range p.SortedFuncs() {
		ast.Inspect(fn.Decl.Body, func(n ast.Node) bool {
			call, ok := n.(*ast.CallExpr)
			if !ok || !isRead(p.Callee(call)) {
				return true
			}
			if isRead(fn.Obj) {
				forwards++ // an io.Reader implementation handing the call on
				return true
			}
			bare++
			c.Check(prop+"/stream-reads/no-bare-read/"+fn.Name, rule, call.Pos(), false, "a single Read takes what is buffered, not the announced length: messages larger than the reader's buffer (or arriving in several segments) are dropped as short reads")
			return true
		})
	}
	// positive control: the matcher recognises the one forwarding Read the package has
	c.Floor("forwarding Read methods recognised (positive control of the bare-Read matcher)", forwards, 1)
	n := 0
	for _, name := range []string{"Memberlist.readUserMsg", "Memberlist.readRemoteState"} {
		fn := c.MustFunc(name)
		x := c.flow(fn, map[string]string{})
		for _, e := range x.Effects {
			if e.Class != "IO:ReadAtLeast" && e.Class != "IO:ReadFull" {
				continue
			}
			n++
			buf := strings.ReplaceAll(untok(e.Detail["arg1"]), "~", "")
			ok := true
			why := ""
			if e.Class == "IO:ReadAtLeast" {
				min := strings.ReplaceAll(untok(e.Detail["arg2"]), "~", "")
				ok = buf == "make([]byte,"+min+")" && strings.Contains(min, ".User")
				why = "reads at least " + min + " bytes into " + buf
			} else {
				ok = strings.HasPrefix(buf, "make([]byte,") && strings.Contains(buf, ".User")
				why = "fills " + buf
			}
			c.Check(prop+"/stream-reads/exact/"+name, rule, e.Pos, ok, why+": not the header's announced length")
		}
	}
	c.Floor("sized payload reads", n, 2)
}
