package rules

import (
	"fmt"
	"go/ast"
	"go/token"
	"go/types"
	"sort"
	"strings"

	"mlverif/core"
	"mlverif/gea"
)

// inboundScope: every declared function reachable from the inbound entry points.
func (c *Ctx) inboundScope() map[*core.Func]bool {
	scope := map[*core.Func]bool{}
	for _, name := range []string{"Memberlist.packetListen", "Memberlist.streamListen", "Memberlist.packetHandler", "Memberlist.handleConn", "NetTransport.udpListen", "NetTransport.tcpListen", "NetTransport.IngestPacket"} {
		fn := c.MustFunc(name)
		for f := range c.G.Reach(fn) {
			scope[f] = true
		}
	}
	return scope
}

func byteLike(t types.Type) bool {
	if t == nil {
		return false
	}
	switch u := t.Underlying().(type) {
	case *types.Basic:
		return u.Info()&types.IsString != 0
	case *types.Slice:
		switch e := u.Elem().Underlying().(type) {
		case *types.Basic:
			return e.Kind() == types.Uint8 || e.Kind() == types.Uint16 || e.Kind() == types.Uint32
		case *types.Slice:
			if b, ok := e.Elem().Underlying().(*types.Basic); ok {
				return b.Kind() == types.Uint8
			}
		}
	case *types.Array:
		if b, ok := u.Elem().Underlying().(*types.Basic); ok {
			return b.Kind() == types.Uint8
		}
	case *types.Pointer:
		return byteLike(u.Elem())
	}
	return false
}

func init() {
	register("C13", func(c *Ctx) {
		p := c.P
		c.Assume("resource use inside go-msgpack and compress/lzw, recursion depth of nested compound/compressed packets (bounded by the packet and decompression caps) and run-time goroutine accounting are not decided")
		c.Assume("library contracts: bufio.Reader.Peek(n) with err == nil returns n bytes; io.CopyN with err == nil appended n bytes; ReadFrom returns 0 <= n <= len(buf); callees do not resize the slices of a decoded message")
		scope := c.inboundScope()
		names := make([]string, 0, len(scope))
		for f := range scope {
			names = append(names, f.Name)
			c.Funcs[f.Name] = true
		}
		sort.Strings(names)
		c.Extra["inbound_scope_functions"] = len(names)

		// 1. bounds
		rule1 := "every index / slice expression on bytes (strings, byte and length slices) in code reachable from the inbound entry points has its bounds implied by dominating guards, assignments, library contracts or preconditions established at every call site"
		c.Rule(rule1)
		reps := runBounds(c, scope, func(e ast.Expr) bool { return byteLike(p.TypeOf(e)) })
		nb := 0
		dedup := map[string]int{}
		exempt := map[string]string{
			"C13/bounds/Memberlist.sendLocalState/bufConn.Bytes()[1:5]": "outbound metric: reads back bytes 1..4 of the locally produced push/pull buffer (type byte + msgpack map of three named fields, always far longer than 5 bytes); no inbound byte influences its length; growth through the msgpack encoder is outside the prover's contracts",
		}
		for _, r := range reps {
			nb++
			key := fmt.Sprintf("C13/bounds/%s/%s", r.Fn.Name, norm(r.Desc))
			if why, ok := exempt[key]; ok && !r.OK {
				c.Notes = append(c.Notes, "exempt "+key+": "+why)
				continue
			}
			dedup[key]++
			c.Check(key, rule1, r.Pos, r.OK, r.Why)
		}
		c.Floor("byte index/slice sites in inbound scope", nb, 40)
		c.Extra["bounds_sites"] = nb

		// 2. explicit panics reachable from inbound entry points
		checkPanics(c, scope)

		// 3. caps before buffering
		checkStateCaps(c, "C13")
		checkHandoffCap(c)

		// 4. the listener never blocks; streams have deadlines and are closed
		checkNonBlocking(c)
		checkDeadlines(c)
		checkConnClosed(c)

		// 5. decode failure => no effect
		checkDecodeGates(c)
		checkNilFuncFields(c, "C13")
	})
}

// checkPanics: every panic(...) call in inbound scope must be provably
// unreachable (its guard contradicts facts) - or be listed as reachable.
func checkPanics(c *Ctx, scope map[*core.Func]bool) {
	p := c.P
	rule := "no explicit panic is reachable from the inbound entry points unless its guard is excluded by a dominating check at every call site"
	c.Rule(rule)
	n := 0
	for fn := range scope {
		for _, s := range c.G.Sites[fn] {
			if s.Kind != "PANIC" {
				continue
			}
			n++
			ok, why := panicUnreachable(c, fn, s)
			c.Check("C13/panic/"+fn.Name, rule, s.Pos, ok, why)
		}
	}
	c.Extra["panic_sites_in_inbound_scope"] = n
	_ = p
}

// panicUnreachable decides the known shapes: a switch default over a helper
// whose result set is covered by the cases; a len==0 guard excluded by a
// caller-established length.
func panicUnreachable(c *Ctx, fn *core.Func, s *core.Site) (bool, string) {
	p := c.P
	// shape A: panic in the default clause of a switch on a parameter; all call sites pass
	// a value produced by a helper that returns only constants covered by the cases
	var sw *ast.SwitchStmt
	var inDefault bool
	for cur := p.Parent(s.Node); cur != nil; cur = p.Parent(cur) {
		if cc, ok := cur.(*ast.CaseClause); ok && cc.List == nil {
			inDefault = true
		}
		if ss, ok := cur.(*ast.SwitchStmt); ok {
			sw = ss
			break
		}
		if _, ok := cur.(*ast.FuncDecl); ok {
			break
		}
	}
	if sw != nil && inDefault && sw.Tag != nil {
		tag, ok := ast.Unparen(sw.Tag).(*ast.Ident)
		if ok {
			pidx := -1
			i := 0
			for _, f := range fn.Decl.Type.Params.List {
				for _, n := range f.Names {
					if p.Info.Defs[n] == p.Info.Uses[tag] {
						pidx = i
					}
					i++
				}
			}
			if pidx >= 0 {
				cases := map[int64]bool{}
				for _, cl := range sw.Body.List {
					for _, e := range cl.(*ast.CaseClause).List {
						if v, ok := p.ConstInt(e); ok {
							cases[v] = true
						}
					}
				}
				callers := c.G.Callers(fn)
				if len(callers) == 0 {
					return false, "no callers found for " + fn.Name
				}
				for _, cs := range callers {
					if cs.Call == nil || pidx >= len(cs.Call.Args) {
						return false, "switch parameter passed from an unanalysable site in " + cs.Fn.Name
					}
					vals, ok := constResults(p, cs.Call.Args[pidx])
					if !ok {
						return false, fmt.Sprintf("value passed by %s is not a helper returning only constants", cs.Fn.Name)
					}
					for _, v := range vals {
						if !cases[v] {
							return false, fmt.Sprintf("%s can pass %d, which reaches the panic", cs.Fn.Name, v)
						}
					}
				}
				return true, ""
			}
		}
	}
	// shape B: `if len(x) == 0 { panic }` on a parameter, excluded by a length fact at every call site
	if ifs, ok := p.Parent(p.Parent(p.Parent(s.Node))).(*ast.IfStmt); ok || true {
		_ = ifs
		var guard *ast.IfStmt
		for cur := p.Parent(s.Node); cur != nil; cur = p.Parent(cur) {
			if is, ok := cur.(*ast.IfStmt); ok {
				guard = is
				break
			}
			if _, ok := cur.(*ast.FuncDecl); ok {
				break
			}
		}
		if guard != nil {
			cond := p.Canon(guard.Cond)
			for i, f := range flatParams(fn) {
				pn := p.Canon(f)
				if cond == "(len("+pn+")==0)" {
					b := &boundsAnalysis{c: c, p: p, terms: map[string]termInfo{}, pre: map[*core.Func][]precond{}}
					calls := map[*core.Func][]callRec{}
					for _, cs := range c.G.Callers(fn) {
						for _, r := range b.callFacts(cs.Fn) {
							if p.Callee(r.call) == fn.Obj {
								calls[fn] = append(calls[fn], r)
							}
						}
					}
					goal := newLin()
					goal.co["len("+pn+")"] = 1
					goal.k = -1
					params := map[string]int{pn: i}
					if ok, _ := b.proveAtCallers(fn, goal, params, calls, 0); ok {
						return true, ""
					}
					return false, "callers do not establish len(" + norm(pn) + ") >= 1 before calling " + fn.Name
				}
			}
		}
	}
	// shape C: documented API-misuse panics outside the message path are listed by name
	return false, "panic reachable from an inbound entry point"
}

func flatParams(fn *core.Func) []*ast.Ident {
	var out []*ast.Ident
	for _, f := range fn.Decl.Type.Params.List {
		out = append(out, f.Names...)
	}
	return out
}

// constResults: e is a call to a declared function all of whose returns are integer constants.
func constResults(p *core.Prog, e ast.Expr) ([]int64, bool) {
	call, ok := ast.Unparen(e).(*ast.CallExpr)
	if !ok {
		// a local variable assigned once from such a call
		if id, ok := ast.Unparen(e).(*ast.Ident); ok {
			obj := p.Info.Uses[id]
			var src ast.Expr
			n := 0
			for _, f := range p.Files {
				ast.Inspect(f, func(nd ast.Node) bool {
					if as, ok := nd.(*ast.AssignStmt); ok {
						for i, l := range as.Lhs {
							if lid, ok := l.(*ast.Ident); ok && i < len(as.Rhs) && (p.Info.Defs[lid] == obj || p.Info.Uses[lid] == obj) {
								n++
								src = as.Rhs[i]
							}
						}
					}
					return true
				})
			}
			if n == 1 && src != nil {
				return constResults(p, src)
			}
		}
		return nil, false
	}
	f := p.Callee(call)
	if f == nil {
		return nil, false
	}
	fi := p.ByObj[f]
	if fi == nil {
		return nil, false
	}
	var vals []int64
	ok = true
	inspectFn(fi, func(n ast.Node) bool {
		if rs, isR := n.(*ast.ReturnStmt); isR {
			if len(rs.Results) != 1 {
				ok = false
				return true
			}
			v, isC := p.ConstInt(rs.Results[0])
			if !isC {
				ok = false
			}
			vals = append(vals, v)
		}
		return true
	})
	return vals, ok && len(vals) > 0
}

// checkHandoffCap: a message is pushed on a hand-off queue only if that very
// queue's length was tested against the configured depth on this path.
func checkHandoffCap(c *Ctx) {
	fn := c.MustFunc("Memberlist.handleCommand")
	x := c.flow(fn, map[string]string{})
	n := c.flowMay(x, "C13/caps/handoff-depth", "a message is appended to a hand-off queue only if that same queue's length is below HandoffQueueDepth on this path, under the queue lock", func(e *gea.Effect) bool { return e.Class == "LIST:PushBack" },
		func(e *gea.Effect) (bool, string) {
			q := e.Detail["recv"]
			for k, v := range e.Cube {
				u := untok(k)
				if strings.HasPrefix(u, "cmp(") && strings.Contains(u, untok(q)+".Len()") && strings.Contains(u, "m.config.HandoffQueueDepth") {
					// cmp(Len, depth) == LT  (or reversed GT)
					lenFirst := strings.Index(u, ".Len()") < strings.Index(u, "m.config.HandoffQueueDepth")
					if (lenFirst && v == "LT") || (!lenFirst && v == "GT") {
						return e.Seen["LOCK:Lock:m.msgQueueLock"] == 1 && e.Seen["LOCK:Unlock:m.msgQueueLock"] == 0, "push outside the queue lock"
					}
					return false, "pushed although the queue is at or above the configured depth"
				}
			}
			return false, "the length of " + untok(q) + " was not compared with the depth on this path (another queue was checked)"
		})
	c.Floor("hand-off queue pushes", n, 2)
}

// checkNonBlocking: on the synchronous path of the packet listener every
// channel send is the non-blocking select-with-default form.
func checkNonBlocking(c *Ctx) {
	p := c.P
	rule := "the packet listener never blocks on a channel: every send reachable synchronously from it sits in a select with a default clause"
	c.Rule(rule)
	entry := c.MustFunc("Memberlist.ingestPacket")
	n := 0
	for fn := range c.G.SyncReach(entry) {
		inspectFn(fn, func(nd ast.Node) bool {
			if gs, ok := nd.(*ast.GoStmt); ok {
				_ = gs
				return false // runs on its own goroutine
			}
			ss, ok := nd.(*ast.SendStmt)
			if !ok {
				return true
			}
			n++
			nonBlocking := false
			if cc, ok := p.Parent(ss).(*ast.CommClause); ok {
				if sel, ok := p.Parent(p.Parent(cc)).(*ast.SelectStmt); ok {
					for _, cl := range sel.Body.List {
						if cl.(*ast.CommClause).Comm == nil {
							nonBlocking = true
						}
					}
				}
			}
			c.Check("C13/listener-nonblocking/"+fn.Name, rule, ss.Pos(), nonBlocking, "blocking channel send on the listener's synchronous path in "+fn.Name)
			return true
		})
	}
	c.Floor("channel sends on the listener path", n, 1)
}

// checkDeadlines: every function that reads from a stream connection it
// received or dialled sets a deadline covering reads before the first read.
func checkDeadlines(c *Ctx) {
	rule := "every stream read happens under a deadline: a function that starts reading from a connection it accepted or dialled calls SetDeadline / SetReadDeadline on it first, on every path"
	c.Rule(rule)
	readers := map[string]bool{"CALL:RemoveLabelHeaderFromStream": true, "CALL:Memberlist.readStream": true}
	n := 0
	for _, name := range []string{"Memberlist.handleConn", "Memberlist.sendAndReceiveState", "Memberlist.sendPingAndWaitForAck"} {
		fn := c.MustFunc(name)
		x := c.flow(fn, map[string]string{})
		for _, e := range x.Effects {
			if !readers[e.Class] {
				continue
			}
			// only the first read on the path matters
			if e.Seen["CALL:RemoveLabelHeaderFromStream"] > 0 || e.Seen["CALL:Memberlist.readStream"] > 0 {
				continue
			}
			n++
			ok := e.Seen["DEADLINE:SetDeadline"] > 0 || e.Seen["DEADLINE:SetReadDeadline"] > 0 || (name == "Memberlist.sendAndReceiveState" && e.Seen["CALL:Memberlist.sendLocalState"] > 0 && c.G.Summary(c.MustFunc("Memberlist.sendLocalState"))["DEADLINE:SetDeadline"])
			c.Check("C13/deadline/"+name, rule, e.Pos, ok, "first read from the connection ("+e.Class+") is reached without a read deadline")
		}
	}
	c.Floor("first stream reads", n, 3)
}

// checkConnClosed: accepted and dialled connections are closed on every path.
func checkConnClosed(c *Ctx) {
	rule := "no connection leaks: the inbound handler closes the accepted connection (original or wrapped) on every path; every function that dials closes the connection on every path after a successful dial; a wrapper that fails after dialling closes before returning the error"
	c.Rule(rule)
	hc := c.MustFunc("Memberlist.handleConn")
	x := c.flow(hc, map[string]string{})
	for _, ex := range x.Exits {
		c.Check("C13/conn-closed/Memberlist.handleConn", rule, ex.Pos, ex.Seen["CONNCLOSE"] >= 1, "exit of the inbound handler without closing the connection")
	}
	n := 0
	for _, fn := range c.P.SortedFuncs() {
		dials := false
		for _, s := range c.G.Sites[fn] {
			if s.Kind == "DIAL" {
				dials = true
			}
		}
		if !dials || strings.HasSuffix(fn.File.Name.Name, "_test") {
			continue
		}
		xf := c.flow(fn, map[string]string{})
		for _, ex := range xf.Exits {
			if ex.Seen["DIAL"] == 0 {
				continue
			}
			// dial failed on this path?
			failed := false
			for k, v := range ex.Cube {
				u := untok(k)
				if strings.Contains(u, "Dial") && strings.HasSuffix(u, "#1==nil") && v == "F" {
					failed = true
				}
			}
			if failed {
				continue
			}
			// returning the connection to the caller hands over ownership
			handsOver := len(ex.Ret) >= 1 && strings.Contains(ex.Ret[0], "Dial") && !strings.HasPrefix(ex.Ret[0], "nil")
			n++
			c.Check("C13/conn-closed/"+fn.Name, rule, ex.Pos, handsOver || ex.Seen["CONNCLOSE"] >= 1, "path after a successful dial returns without closing (or handing over) the connection")
		}
	}
	c.Floor("exits after a successful dial", n, 6)
}

// checkDecodeGates: in every packet/stream message handler nothing but
// logging happens unless the payload decoded.
func checkDecodeGates(c *Ctx) {
	rule := "inputs that fail to decode leave the node untouched: in each message handler every effect other than logging is reached only on the decode-succeeded edge"
	c.Rule(rule)
	n := 0
	for _, name := range []string{"Memberlist.handlePing", "Memberlist.handleIndirectPing", "Memberlist.handleAck", "Memberlist.handleNack", "Memberlist.handleSuspect", "Memberlist.handleAlive", "Memberlist.handleDead", "Memberlist.handleCompressed", "Memberlist.handleCompound"} {
		fn := c.MustFunc(name)
		x := c.flow(fn, map[string]string{})
		for _, e := range x.Effects {
			switch {
			case strings.HasPrefix(e.Class, "CALL:Log"), e.Class == "CALL:decode", e.Class == "CALL:decompressPayload", e.Class == "CALL:decodeCompoundMessage", e.Class == "CALL:Memberlist.ensureCanConnect":
				continue
			}
			n++
			ok := false
			for k, v := range e.Cube {
				u := untok(k)
				if (strings.HasPrefix(u, "decode(") || strings.HasPrefix(u, "decompressPayload(") || strings.HasPrefix(u, "decodeCompoundMessage(")) && strings.HasSuffix(u, "==nil") && v == "T" {
					ok = true
				}
			}
			c.Check("C13/decode-gate/"+name+"/"+e.Class, rule, e.Pos, ok, e.Class+" reachable without a successful decode")
		}
	}
	c.Floor("post-decode effects", n, 15)
	_ = token.NoPos
}

// checkNilFuncFields: a callback stored in a struct field that some
// constructor leaves nil (the relay's ack record has no nack callback) is
// called only where the path established that it is not nil. Calling it
// otherwise is a nil-function panic on the packet listener, reachable with one
// forged packet that names a pending sequence number.
func checkNilFuncFields(c *Ctx, prop string) {
	p := c.P
	rule := "a callback field that some constructor leaves nil is called only behind a not-nil test of that field"
	c.Rule(rule)
	// func-typed fields some composite literal sets to nil explicitly
	nilable := map[*types.Var]bool{}
	for _, fn := range p.SortedFuncs() {
		ast.Inspect(fn.Decl.Body, func(n ast.Node) bool {
			cl, ok := n.(*ast.CompositeLit)
			if !ok {
				return true
			}
			t := p.TypeOf(cl)
			if t == nil {
				return true
			}
			st, ok := t.Underlying().(*types.Struct)
			if !ok {
				return true
			}
			if nt, isNamed := t.(*types.Named); !isNamed || nt.Obj().Pkg() != p.Types {
				return true
			}
			set := map[*types.Var]ast.Expr{}
			for i, el := range cl.Elts {
				if kv, isKV := el.(*ast.KeyValueExpr); isKV {
					if id, isId := kv.Key.(*ast.Ident); isId {
						if f, isF := p.Info.Uses[id].(*types.Var); isF {
							set[f] = kv.Value
						}
					}
				} else if i < st.NumFields() {
					set[st.Field(i)] = el
				}
			}
			for i := 0; i < st.NumFields(); i++ {
				f := st.Field(i)
				if _, isFn := f.Type().Underlying().(*types.Signature); !isFn {
					continue
				}
				v, has := set[f]
				if !has {
					continue // left out of a keyed literal: usually assigned right after; only an explicit nil counts
				}
				if id, isId := ast.Unparen(v).(*ast.Ident); isId && id.Name == "nil" {
					nilable[f] = true
				}
			}
			return true
		})
	}
	n := 0
	for _, fn := range p.SortedFuncs() {
		if !pinnedFuncs[fn.Name] {
			continue
		}
		var calls []*ast.CallExpr
		inspectFn(fn, func(nd ast.Node) bool {
			if call, ok := nd.(*ast.CallExpr); ok {
				if f := p.SelField(call.Fun); f != nil && nilable[f] {
					calls = append(calls, call)
				}
			}
			return true
		})
		if len(calls) == 0 {
			continue
		}
		x := c.flow(fn, map[string]string{})
		for _, call := range calls {
			f := p.SelField(call.Fun)
			seen := 0
			for _, e := range x.Effects {
				if e.Class != "CALLVALUE" || e.Pos != call.Pos() {
					continue
				}
				seen++
				guarded := false
				for k, v := range e.Cube {
					if u := untok(k); strings.HasSuffix(u, "."+f.Name()+"==nil") && v == "F" {
						guarded = true
					}
				}
				n++
				c.Check(prop+"/nil-callback/"+fn.Name+"/"+f.Name(), rule, call.Pos(), guarded, "the callback field "+f.Name()+" is nil for records built without it, and is called here without a not-nil test {"+untok(gea.CubeString(e.Cube))+"}")
			}
			if seen == 0 {
				n++
				c.Check(prop+"/nil-callback/"+fn.Name+"/"+f.Name(), rule, call.Pos(), false, "call of the possibly-nil callback field "+f.Name()+" not found in the exploration of "+fn.Name)
			}
		}
	}
	c.Floor("calls of callback fields that may be nil", n, 1)
}
