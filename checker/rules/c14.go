package rules

func init() {
	register("C14", func(c *Ctx) {
		c.Assume("AES-GCM itself and cross-node key-rotation interleavings are not decided (C17 covers the structural half)")
		checkIngestPacket(c, "C14", true, true)
		checkHandleConn(c, "C14", true, true)
		checkReadStream(c, "C14")
		checkStreamLabelConsistent(c, "C14")
		checkDecryptHelper(c, "C14")
		// receivers try every installed key; keys come from the keyring
		checkKeyUse(c)
		checkKeyHandling(c, "C14")
		checkAADConcat(c, "C14")
		checkRemoveExact(c)
		// the ring never holds a key twice (RemoveKey drops one copy): every list handed to the
		// install helper derives from the installed list
		checkInstallCallers(c, "C14", c.installAnchor("C14", "", false))
	})
	register("C16", func(c *Ctx) {
		c.Assume("round-trip of the header codec for every payload and every stream fragmentation is a value property (bufio.Reader.Peek contract trusted)")
		checkIngestPacket(c, "C16", true, false)
		checkHandleConn(c, "C16", true, false)
		checkLabelWiring(c)
		checkStreamLabelConsistent(c, "C16")
	})
}
