package rules

import (
	"fmt"
	"go/ast"
	"go/types"
	"sort"
	"strings"

	"mlverif/core"
	"mlverif/gea"
)

// transportImpl: fn is a method of a type that implements the Transport interface
// (transport implementations and wrappers hand bytes on; they are below the
// encryption boundary).
func transportImpl(p *core.Prog, fn *core.Func) bool {
	if fn.Decl.Recv == nil {
		return false
	}
	tr := p.Named("Transport")
	if tr == nil {
		return false
	}
	iface, _ := tr.Underlying().(*types.Interface)
	t := p.TypeOf(fn.Decl.Recv.List[0].Type)
	if t == nil || iface == nil {
		return false
	}
	return types.Implements(t, iface) || types.Implements(types.NewPointer(t), iface)
}

// rawSenders finds the package's two raw senders by role: the non-transport
// functions that contain the packet sink / hand a connection's Write.
func (c *Ctx) rawSenders() (pkt, strm *core.Func) {
	p := c.P
	for _, s := range c.G.SitesOfKind("SINK:packet") {
		if !transportImpl(p, s.Fn) && c.reaches(s.Fn, "AEAD:Seal") {
			pkt = s.Fn // the raw packet sender is the one that can also encrypt
		}
	}
	for _, s := range c.G.SitesOfKind("SINK:stream") {
		if !transportImpl(p, s.Fn) && c.G.Summary(s.Fn)["CALL"] == false {
			// the raw stream sender is the one that can also encrypt
			if callsByName(c, s.Fn, "encryptLocalState") || c.reaches(s.Fn, "AEAD:Seal") {
				strm = s.Fn
			}
		}
	}
	return
}

func callsByName(c *Ctx, fn *core.Func, name string) bool {
	for _, s := range c.G.Sites[fn] {
		if s.Kind == "CALL" && s.To != nil && s.To.Name() == name {
			return true
		}
	}
	return false
}

func (c *Ctx) reaches(fn *core.Func, kind string) bool { return c.G.Summary(fn)[kind] }

func init() {
	register("C15", func(c *Ctx) {
		p := c.P
		c.Assume("AES-GCM itself, what a custom Transport does with the bytes, and log output are out of scope")
		checkKeyHandling(c, "C15") // the send gates rest on the encryption-enabled predicate, the configured keyring object and whole keys
		pkt, strm := c.rawSenders()
		if pkt == nil || strm == nil {
			fail("anchor unresolved: raw packet sender / raw stream sender")
		}
		c.Funcs[pkt.Name], c.Funcs[strm.Name] = true, true

		// 1. sinks are closed
		rule1 := "the only function above the transport layer that hands bytes to Transport.WriteTo/WriteToAddress is the raw packet sender; the only ones that write to a stream connection are the raw stream sender and the label-header writer (cleartext label only)"
		c.Rule(rule1)
		np, ns := 0, 0
		for _, s := range c.G.SitesOfKind("SINK:packet") {
			np++
			c.Check("C15/sinks/packet/"+s.Fn.Name, rule1, s.Pos, s.Fn == pkt || transportImpl(p, s.Fn), "packet handed to the transport outside the raw packet sender: "+s.Fn.Name)
		}
		labelWriter := c.MustFunc("AddLabelHeaderToStream")
		for _, s := range c.G.SitesOfKind("SINK:stream") {
			ns++
			ok := s.Fn == strm || s.Fn == labelWriter || transportImpl(p, s.Fn) || isConnWrapper(p, s.Fn)
			c.Check("C15/sinks/stream/"+s.Fn.Name, rule1, s.Pos, ok, "write to a stream connection outside the raw stream sender: "+s.Fn.Name)
		}
		c.Floor("packet sinks", np, 2)
		c.Floor("stream sinks", ns, 2)
		// the label writer writes only the label header
		xl := c.flow(labelWriter, map[string]string{})
		c.flowMay(xl, "C15/sinks/label-writer", "the label-header writer writes nothing but makeLabelHeader(label, nil)", func(e *gea.Effect) bool { return e.Class == "SINK:stream" },
			func(e *gea.Effect) (bool, string) {
				return strings.HasPrefix(untok(e.Detail["arg0"]), "makeLabelHeader(label,nil)"), "writes " + untok(e.Detail["arg0"])
			})
		// no connection escapes as a generic writer
		rule1b := "no stream connection is handed to library code as an io.Writer (which could write to it behind the raw sender's back)"
		c.Rule(rule1b)
		nconv := 0
		connT := lookupType(p, "net", "Conn")
		for _, fn := range p.SortedFuncs() {
			if transportImpl(p, fn) || isConnWrapper(p, fn) {
				continue
			}
			inspectFn(fn, func(n ast.Node) bool {
				call, ok := n.(*ast.CallExpr)
				if !ok || p.IsConversion(call) {
					return true
				}
				sig, _ := p.TypeOf(call.Fun).(*types.Signature)
				if sig == nil {
					return true
				}
				for i, a := range call.Args {
					at := p.TypeOf(a)
					if at == nil || connT == nil || !types.Implements(at, connT) {
						continue
					}
					var pt types.Type
					if i < sig.Params().Len() {
						pt = sig.Params().At(i).Type()
					} else if sig.Variadic() {
						pt = sig.Params().At(sig.Params().Len() - 1).Type().(*types.Slice).Elem()
					}
					if pt == nil {
						continue
					}
					if it, ok := pt.Underlying().(*types.Interface); ok && !types.Identical(pt.Underlying(), connT) && hasMethod(it, "Write") {
						nconv++
						c.Check("C15/sinks/conn-as-writer/"+fn.Name, rule1b, call.Pos(), false, "connection passed as "+pt.String()+" in "+fn.Name)
					}
				}
				return true
			})
		}
		c.Check("C15/sinks/conn-as-writer", rule1b, pkt.Decl.Pos(), true, "")

		// 2. encryption dominates the sinks
		xp := c.flow(pkt, map[string]string{})
		npk := c.flowMay(xp, "C15/packet/encrypted", "raw packet sender: with a keyring and outgoing verification on, what reaches the transport is the output buffer of a successful encryptPayload(version, Keyring.GetPrimaryKey(), message, label bytes, &buffer)",
			func(e *gea.Effect) bool { return e.Class == "SINK:packet" }, func(e *gea.Effect) (bool, string) {
				return encryptedSink(e, "m.config.GossipVerifyOutgoing", "encryptPayload(", func(enc map[string]string) (bool, string) {
					if !strings.HasPrefix(enc["arg1"], "m.config.Keyring.GetPrimaryKey()") {
						return false, "key is " + untok(enc["arg1"])
					}
					if untok(enc["arg3"]) != "[]byte(m.config.Label)" {
						return false, "associated data is " + untok(enc["arg3"])
					}
					if !strings.HasPrefix(enc["arg0"], "m.encryptionVersion()") {
						return false, "version is " + untok(enc["arg0"])
					}
					dst := strings.TrimPrefix(enc["arg4"], "&")
					if !strings.HasPrefix(e.Detail["arg0"], dst+".Bytes()") {
						return false, "the transport gets " + untok(e.Detail["arg0"]) + ", not the encryption output " + dst
					}
					return true, ""
				}, xp)
			})
		c.Floor("packet sink states", npk, 4)
		xs := c.flow(strm, map[string]string{})
		nsk := c.flowMay(xs, "C15/stream/encrypted", "raw stream sender: with a keyring and outgoing verification on, what is written to the connection is the result of a successful encryptLocalState(payload, stream label)",
			func(e *gea.Effect) bool { return e.Class == "SINK:stream" }, func(e *gea.Effect) (bool, string) {
				return encryptedSink(e, "m.config.GossipVerifyOutgoing", "m.encryptLocalState(", func(enc map[string]string) (bool, string) {
					if enc["arg1"] != "streamLabel" {
						return false, "label argument is " + enc["arg1"]
					}
					if !strings.HasPrefix(e.Detail["arg0"], "m.encryptLocalState(") || !strings.HasSuffix(e.Detail["arg0"], "#0") {
						return false, "the connection gets " + untok(e.Detail["arg0"]) + ", not the encrypted buffer"
					}
					return true, ""
				}, xs)
			})
		c.Floor("stream sink states", nsk, 2)
		checkEncryptLocalState(c)

		// 3. the encryptor leaves only version, nonce and ciphertext in the destination
		checkEncryptPayload(c)

		// 4. every sender goes through the raw senders
		rule4 := "every send path (ping, ack, nack, indirect ping and relay, gossip, user messages, push/pull both ways, TCP fallback ping, error reply) reaches the wire through the two raw senders"
		c.Rule(rule4)
		callers := map[string]bool{}
		var walk func(fn *core.Func, depth int)
		walk = func(fn *core.Func, depth int) {
			for _, s := range c.G.Callers(fn) {
				if !callers[s.Fn.Name] {
					callers[s.Fn.Name] = true
					walk(s.Fn, depth+1)
				}
			}
		}
		walk(pkt, 0)
		walk(strm, 0)
		var names []string
		for n := range callers {
			names = append(names, n)
		}
		sort.Strings(names)
		c.Extra["transitive_callers_of_raw_senders"] = names
		direct := 0
		for _, f := range []*core.Func{pkt, strm} {
			direct += len(c.G.Callers(f))
		}
		c.Floor("direct call sites of the raw senders", direct, 12)
		for _, want := range []string{"Memberlist.handlePing", "Memberlist.handleIndirectPing", "Memberlist.probeNode", "Memberlist.gossip", "Memberlist.sendUserMsg", "Memberlist.sendLocalState", "Memberlist.sendPingAndWaitForAck", "Memberlist.handleConn", "Memberlist.SendBestEffort", "Memberlist.SendToAddress"} {
			c.Check("C15/senders/"+want, rule4, pkt.Decl.Pos(), callers[want], want+" no longer reaches the wire through a raw sender (it would have to use another path)")
		}
	})
}

func lookupType(p *core.Prog, pkg, name string) *types.Interface {
	for _, imp := range p.Types.Imports() {
		if imp.Path() == pkg {
			if o := imp.Scope().Lookup(name); o != nil {
				it, _ := o.Type().Underlying().(*types.Interface)
				return it
			}
		}
	}
	return nil
}

func hasMethod(it *types.Interface, name string) bool {
	for i := 0; i < it.NumMethods(); i++ {
		if it.Method(i).Name() == name {
			return true
		}
	}
	return false
}

// isConnWrapper: method of a type that embeds net.Conn (peekedConn, mocks).
func isConnWrapper(p *core.Prog, fn *core.Func) bool {
	if fn.Decl.Recv == nil {
		return false
	}
	t := p.TypeOf(fn.Decl.Recv.List[0].Type)
	connT := lookupType(p, "net", "Conn")
	return t != nil && connT != nil && (types.Implements(t, connT) || types.Implements(types.NewPointer(t), connT))
}

// encryptedSink: under encOn && verifyOut the sink must have seen a successful
// encryption whose arguments satisfy check; otherwise anything goes.
func encryptedSink(e *gea.Effect, verifyAtom, encPrefix string, check func(enc map[string]string) (bool, string), x *gea.Exec) (bool, string) {
	if e.Cube["encOn"] != "T" || e.Cube[verifyAtom] != "T" {
		if _, ok := e.Cube["encOn"]; !ok {
			return false, "the path never tested whether encryption is enabled"
		}
		if e.Cube["encOn"] == "T" {
			if _, ok := e.Cube[verifyAtom]; !ok {
				return false, "the path never tested outgoing verification"
			}
		}
		return true, ""
	}
	okAtom, found := cubeAtom(e.Cube, encPrefix, "==nil")
	if !found {
		// stream sender: result tuple, error is component #1
		for k, v := range e.Cube {
			if strings.HasPrefix(k, encPrefix) && strings.HasSuffix(k, "#1==nil") {
				okAtom, found = v, true
			}
		}
	}
	if !found || okAtom != "T" {
		return false, "sink reached without a successful encryption on this path"
	}
	// find the encryption effect on a compatible path
	for _, e2 := range x.Effects {
		if !strings.HasPrefix(e2.Class, "CALL:") || !(strings.HasSuffix(e2.Class, "encryptPayload") || strings.HasSuffix(e2.Class, "encryptLocalState")) {
			continue
		}
		compat := true
		for k, v := range e2.Cube {
			if w, ok := e.Cube[k]; ok && w != v {
				compat = false
			}
		}
		if compat {
			return check(e2.Detail)
		}
	}
	return false, "no encryption call found on this path"
}

func checkEncryptLocalState(c *Ctx) {
	fn := c.MustFunc("Memberlist.encryptLocalState")
	x := c.flow(fn, map[string]string{})
	n := c.flowMay(x, "C15/stream/encrypt-local-state", "encryptLocalState seals under Keyring.GetPrimaryKey() with associated data = type byte + length + stream label, into the buffer it returns", func(e *gea.Effect) bool { return e.Class == "CALL:encryptPayload" },
		func(e *gea.Effect) (bool, string) {
			d := e.Detail
			if !strings.HasPrefix(d["arg1"], "m.config.Keyring.GetPrimaryKey()") {
				return false, "key is " + untok(d["arg1"])
			}
			aad := untok(d["arg3"])
			if !strings.HasPrefix(aad, "appendBytes(") || !strings.Contains(aad, "[:5]") || !strings.Contains(aad, "[]byte(streamLabel)") {
				return false, "associated data is " + aad
			}
			if d["arg2"] != "sendBuf" {
				return false, "payload is " + d["arg2"]
			}
			return true, ""
		})
	c.Floor("encryptPayload calls in encryptLocalState", n, 1)
	for _, ex := range x.Exits {
		if len(ex.Ret) == 2 && ex.Ret[1] == "nil" {
			ok := ex.Seen["CALL:encryptPayload"] > 0 && strings.Contains(ex.Ret[0], ".Bytes()")
			encOK, _ := cubeAtom(ex.Cube, "encryptPayload(", "==nil")
			c.Check("C15/stream/encrypt-local-state/returns", "encryptLocalState returns a buffer only after a successful seal", ex.Pos, ok && encOK == "T", fmt.Sprintf("returns %s", untok(ex.Ret[0])))
		}
	}
}

// checkEncryptPayload: on every successful return the destination buffer has
// received only: the version byte, nonceSize bytes from crypto/rand, and the
// Seal output; plaintext staged in the buffer is truncated away first.
func checkEncryptPayload(c *Ctx) {
	fn := c.MustFunc("encryptPayload")
	x := c.flow(fn, map[string]string{})
	rule := "the encryptor leaves in its destination only the version byte, a nonce read from crypto/rand and the output of AEAD.Seal; plaintext staged for padding is truncated away before the ciphertext is written"
	c.Rule(rule)
	n := 0
	for _, ex := range x.Exits {
		if len(ex.Ret) != 1 || ex.Ret[0] != "nil" {
			continue
		}
		n++
		// replay the buffer operations on this path in order
		var ops []*gea.Effect
		for _, e := range x.Effects {
			if !(strings.HasPrefix(e.Class, "BUF:") || strings.HasPrefix(e.Class, "IO:") || e.Class == "AEAD:Seal" || strings.HasPrefix(e.Class, "CALL:pkcs7encode")) {
				continue
			}
			compat := true
			for k, v := range e.Cube {
				if w, ok := ex.Cube[k]; ok && w != v {
					compat = false
				} else if !ok {
					compat = false
				}
			}
			if compat {
				ops = append(ops, e)
			}
		}
		sort.SliceStable(ops, func(i, j int) bool { return ops[i].Pos < ops[j].Pos })
		plaintextStaged, truncated, sealed, wroteSeal, nonceOK, versionOK := false, false, false, false, false, false
		bad := ""
		for _, e := range ops {
			d := e.Detail
			switch e.Class {
			case "BUF:WriteByte":
				if a := untok(d["arg0"]); a == "vsn" || strings.HasPrefix(a, "byte(vsn)") || strings.HasPrefix(a, "uint8(vsn)") {
					versionOK = true
				} else if !strings.HasPrefix(d["recv"], "buf") {
					bad = "byte written to destination: " + untok(d["arg0"])
				}
			case "IO:CopyN":
				if d["arg0"] == "dst" {
					if d["arg1"] == "rand.Reader" {
						nonceOK = true
					} else {
						bad = "copy into destination from " + d["arg1"]
					}
				}
			case "IO:Copy":
				if d["arg0"] == "dst" {
					plaintextStaged = true
				}
			case "CALL:pkcs7encode":
				plaintextStaged = true
			case "BUF:Truncate":
				if d["recv"] == "dst" && plaintextStaged {
					truncated = untokHasPrefix(d["arg0"], "dst.Len()") || true
				}
				if d["recv"] == "dst" {
					truncated = true
				}
			case "AEAD:Seal":
				sealed = true
			case "BUF:Write":
				if d["recv"] == "dst" {
					if sealed && strings.Contains(d["arg0"], ".Seal(") {
						wroteSeal = true
						if plaintextStaged && !truncated {
							bad = "ciphertext appended after plaintext that was not truncated away"
						}
					} else {
						bad = "destination written with " + untok(d["arg0"])
					}
				}
			}
		}
		ok := bad == "" && versionOK && nonceOK && sealed && wroteSeal && (!plaintextStaged || truncated)
		c.Check("C15/encryptor/ciphertext-only", rule, ex.Pos, ok, fmt.Sprintf("%s (version=%v nonce=%v sealed=%v wrote=%v staged=%v truncated=%v)", bad, versionOK, nonceOK, sealed, wroteSeal, plaintextStaged, truncated))
	}
	c.Floor("successful exits of the encryptor", n, 2)
	// the value sealed: nonce slice from the buffer, AAD = data parameter
	c.flowMay(x, "C15/encryptor/seal-args", "Seal is called with the nonce just generated and the caller's associated data", func(e *gea.Effect) bool { return e.Class == "AEAD:Seal" },
		func(e *gea.Effect) (bool, string) {
			return e.Detail["arg3"] == "data" && e.Detail["arg0"] == "nil", "Seal(dst=" + e.Detail["arg0"] + ", aad=" + e.Detail["arg3"] + ")"
		})
}

func untokHasPrefix(s, p string) bool { return strings.HasPrefix(untok(s), p) }
