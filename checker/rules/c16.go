package rules

import (
	"fmt"
	"go/ast"
	"go/constant"
	"go/token"
	"go/types"
	"strings"

	"mlverif/core"
	"mlverif/gea"
)

// checkLabelWiring: construction installs the label wrapper when a label is
// configured (after the length check); the wrapper's four methods add the
// header; the two header removers validate alike; the label is the associated
// data on all four crypto paths.
func checkLabelWiring(c *Ctx) {
	p := c.P
	// 1. construction
	nm := c.MustFunc("newMemberlist")
	x := c.flow(nm, map[string]string{})
	rule := "construction: a label longer than LabelMaxSize is rejected, and with a non-empty label the transport stored in the Memberlist is the label wrapper built with that label around the configured transport"
	c.Rule(rule)
	wrapped, rejected := false, false
	for _, ex := range x.Exits {
		if len(ex.Ret) != 2 {
			continue
		}
		lenOK, hasLen := atomU(ex.Cube, "len(conf.Label)>=256")
		nonEmpty, hasNE := "", false
		for k, v := range ex.Cube {
			if u := untok(k); u == `eq("",conf.Label)` {
				nonEmpty, hasNE = v, true
			}
		}
		if ex.Ret[1] == "nil" {
			ok := hasLen && lenOK == "F" && hasNE
			ret := untok(ex.Ret[0])
			if ok && nonEmpty == "F" {
				// label configured: transport field must be the wrapper
				ok = false
				for k, t := range ex.Store {
					if strings.HasPrefix(k, "nodeAwareTransport#") && strings.HasPrefix(untok(t.S), "&memberlist.labelWrappedTransport{label:conf.Label,NodeAwareTransport:") && strings.Contains(ret, "transport:"+k) {
						ok = true
					}
				}
				if ok {
					wrapped = true
				}
			}
			c.Check("C16/construction/wraps", rule, ex.Pos, ok, "successful construction under {"+untok(gea.CubeString(ex.Cube))+"} returns "+ret)
		} else if hasLen && lenOK == "T" {
			rejected = true
		}
	}
	c.Check("C16/construction/wrapper-present", rule, nm.Decl.Pos(), wrapped, "no successful construction path installs the label wrapper")
	c.Check("C16/construction/rejects-long-label", rule, nm.Decl.Pos(), rejected, "no path rejects an over-long label")

	// 2. the wrapper's methods
	ruleW := "label wrapper: both packet methods hand the inner transport the buffer with the header prepended for this wrapper's label; both dial methods write the header on the fresh connection before returning it and return no connection if that fails"
	c.Rule(ruleW)
	for _, name := range []string{"labelWrappedTransport.WriteTo", "labelWrappedTransport.WriteToAddress"} {
		fn := c.MustFunc(name)
		xf := c.flow(fn, map[string]string{})
		n := c.flowMay(xf, "C16/wrapper/"+name, ruleW, func(e *gea.Effect) bool { return e.Class == "SINK:packet" }, func(e *gea.Effect) (bool, string) {
			_, v, ok := atomPS(e.Cube, "AddLabelHeaderToPacket(buf,m.label)", "#1==nil")
			return ok && v == "T" && strings.HasPrefix(untok(e.Detail["arg0"]), "AddLabelHeaderToPacket(buf,m.label)#0"), "inner transport gets " + untok(e.Detail["arg0"])
		})
		c.Floor("inner packet writes in "+name, n, 1)
	}
	for _, name := range []string{"labelWrappedTransport.DialTimeout", "labelWrappedTransport.DialAddressTimeout"} {
		fn := c.MustFunc(name)
		xf := c.flow(fn, map[string]string{})
		for _, ex := range xf.Exits {
			if len(ex.Ret) != 2 {
				continue
			}
			if ex.Ret[0] != "nil" {
				_, v, ok := atomPS(ex.Cube, "AddLabelHeaderToStream(", "==nil")
				c.Check("C16/wrapper/"+name, ruleW, ex.Pos, ok && v == "T" && ex.Seen["CALL:AddLabelHeaderToStream"] > 0 && ex.Ret[1] == "nil", "returns a connection without having written the label header")
			}
		}
		c.flowMay(xf, "C16/wrapper/"+name+"/header-args", ruleW, func(e *gea.Effect) bool { return e.Class == "CALL:AddLabelHeaderToStream" }, func(e *gea.Effect) (bool, string) {
			return e.Detail["arg1"] == "m.label" && strings.Contains(e.Detail["arg0"], "Dial"), "AddLabelHeaderToStream(" + untok(e.Detail["arg0"]) + "," + e.Detail["arg1"] + ")"
		})
	}
	// header writers use the shared header builder
	// the length guard may sit in the writers (before the call) or in the builder itself
	// (which then reports an error that the writers must check)
	builderGuards := false
	if mkf := c.P.Funcs["makeLabelHeader"]; mkf != nil {
		xmk := c.flow(mkf, map[string]string{})
		nSucc := 0
		builderGuards = true
		for _, ex := range xmk.Exits {
			if len(ex.Ret) != 2 || ex.Ret[1] != "nil" {
				if len(ex.Ret) != 2 {
					builderGuards = false // no error result: it cannot refuse anything
				}
				continue
			}
			nSucc++
			if v, has := atomU(ex.Cube, "len(label)>=256"); !has || v != "F" {
				builderGuards = false
			}
		}
		if nSucc == 0 {
			builderGuards = false
		}
	}
	for _, name := range []string{"AddLabelHeaderToPacket", "AddLabelHeaderToStream"} {
		fn := c.MustFunc(name)
		xf := c.flow(fn, map[string]string{})
		okB := false
		for _, e := range xf.Effects {
			if e.Class == "CALL:makeLabelHeader" && e.Detail["arg0"] == "label" {
				okB = true
				if v, has := atomU(e.Cube, "len(label)>=256"); (!has || v != "F") && !builderGuards {
					okB = false
				}
			}
		}
		if builderGuards {
			// the builder's verdict is honoured: after the call, success is reported only if
			// the builder reported none (or its pair of results is handed through)
			for _, ex := range xf.Exits {
				if ex.Seen["CALL:makeLabelHeader"] == 0 || len(ex.Ret) == 0 {
					continue
				}
				last := ex.Ret[len(ex.Ret)-1]
				if strings.Contains(last, "makeLabelHeader(") {
					continue // handed through
				}
				if _, v, ok := atomPS(ex.Cube, "makeLabelHeader(", "#1==nil"); !ok || v != "T" {
					if last == "nil" || !strings.Contains(last, "makeLabelHeader(") {
						// an exit that does not return the builder's error and did not see it nil
						if _, v2, ok2 := atomPS(ex.Cube, "makeLabelHeader(", "#1==nil"); !(ok2 && v2 == "F" && last != "nil") {
							okB = false
						}
					}
				}
			}
		}
		c.Check("C16/header/"+name, "header writers build the header for their label with the shared builder, refusing labels over LabelMaxSize", fn.Decl.Pos(), okB, "header not built by makeLabelHeader(label, ...) under the length guard")
	}
	// 3. sibling agreement of the two removers
	checkAADConcat(c, "C16")
	checkStreamReaderSize(c)
	ruleS := "the packet and stream header removers perform the same validation (magic byte, size >= 1, enough bytes) and read the label from the offsets the builder writes (size at 1, label from 2)"
	c.Rule(ruleS)
	for _, name := range []string{"RemoveLabelHeaderFromPacket", "RemoveLabelHeaderFromStream"} {
		fn := c.MustFunc(name)
		xf := c.flow(fn, map[string]string{})
		n := 0
		for _, ex := range xf.Exits {
			if len(ex.Ret) != 3 || ex.Ret[2] != "nil" {
				continue
			}
			lbl := untok(ex.Ret[1])
			if lbl == `""` {
				continue // unlabeled traffic
			}
			n++
			magic, size, slice := false, false, strings.Contains(lbl, "[2:(2+")
			for k, v := range ex.Cube {
				u := untok(k)
				if strings.HasPrefix(u, "enum:") && v == "hasLabelMsg" {
					magic = true
				}
				if strings.HasSuffix(u, "[1])>=1") && v == "T" {
					size = true
				}
			}
			c.Check("C16/remover/"+name, ruleS, ex.Pos, magic && size && slice, "label "+lbl+" accepted with magic="+boolStr(magic)+" size>=1="+boolStr(size))
		}
		c.Check("C16/remover/"+name+"/has-label-exit", ruleS, fn.Decl.Pos(), n >= 1, "no exit returns a label")
	}
	// the stream remover waits for the whole header: the label bytes come from a Peek that asks for
	// at least 2+size bytes (Peek blocks until that many arrived or the stream ends), so a header
	// that arrives in several fragments is still read completely
	sr := c.MustFunc("RemoveLabelHeaderFromStream")
	ruleF := "stream header removal is independent of fragmentation: the bytes the label is sliced from were requested with Peek(n), n >= 2 + size, and the size byte with Peek(n), n >= 2"
	c.Rule(ruleF)
	var peeks []*ast.CallExpr
	inspectFn(sr, func(n ast.Node) bool {
		if call, ok := n.(*ast.CallExpr); ok {
			if f := p.Callee(call); f != nil && core.FuncFullName(f) == "bufio.Reader.Peek" && len(call.Args) == 1 {
				peeks = append(peeks, call)
			}
		}
		return true
	})
	inspectFn(sr, func(n ast.Node) bool {
		var need ast.Expr
		var pos ast.Node
		switch v := n.(type) {
		case *ast.SliceExpr: // peeked[2 : 2+size]
			if v.High != nil && v.Low != nil {
				need, pos = v.High, v
			}
		case *ast.IndexExpr: // peeked[1]
			if k, ok := p.ConstInt(v.Index); ok && k >= 1 {
				if _, isMap := p.TypeOf(v.X).Underlying().(*types.Map); !isMap && byteLike(p.TypeOf(v.X)) {
					need, pos = &ast.BasicLit{Kind: token.INT, Value: fmt.Sprint(k + 1)}, v
				}
			}
		}
		if need == nil {
			return true
		}
		// the latest Peek before this use
		var last *ast.CallExpr
		for _, pk := range peeks {
			if pk.End() <= pos.Pos() {
				last = pk
			}
		}
		if last == nil {
			return true
		}
		nm := func(e ast.Expr) string { return norm(p.Canon(e)) }
		have, hk, ok1 := linear(p, last.Args[0], nm)
		want, wk, ok2 := map[string]int64{}, int64(0), true
		if bl, isLit := need.(*ast.BasicLit); isLit {
			fmt.Sscan(bl.Value, &wk)
		} else {
			want, wk, ok2 = linear(p, need, nm)
		}
		good := ok1 && ok2 && hk >= wk
		if good {
			for t, cw := range want {
				if have[t] != cw {
					good = false
				}
			}
			for t, ch := range have {
				if want[t] != ch {
					good = false
				}
			}
		}
		c.Check("C16/remover/stream-waits-for-header/"+nm(need), ruleF, pos.Pos(), good, "bytes up to "+nm(need)+" are taken from Peek("+nm(last.Args[0])+"), which does not wait for them: a header split across reads is reported as truncated")
		return true
	})
	mk := c.MustFunc("makeLabelHeader")
	src := p.Canon(&ast.ParenExpr{X: ast.NewIdent("_")})
	_ = src
	okMk := false
	xm := c.flow(mk, map[string]string{})
	for _, ex := range xm.Exits {
		if len(ex.Ret) >= 1 {
			okMk = true
		}
	}
	w0, w1 := false, false
	for _, e := range xm.Effects {
		_ = e
	}
	inspectFn(mk, func(n ast.Node) bool {
		as, ok := n.(*ast.AssignStmt)
		if !ok || len(as.Lhs) != 1 || len(as.Rhs) != 1 {
			return true
		}
		if ix, ok := as.Lhs[0].(*ast.IndexExpr); ok {
			if v, isC := p.ConstInt(ix.Index); isC {
				r := p.Canon(as.Rhs[0])
				if v == 0 && (r == "hasLabelMsg" || r == "244") {
					w0 = true
				}
				if v == 1 && strings.HasPrefix(r, "len(label") || (v == 1 && strings.Contains(r, "len(label")) {
					w1 = true
				}
			}
		}
		return true
	})
	c.Check("C16/header/builder-layout", ruleS, mk.Decl.Pos(), okMk && w0 && w1, "builder does not write magic at 0 and the label length at 1")
	_ = core.RootPath
}

// checkStreamReaderSize: the buffered reader the stream header remover peeks
// into can hold the longest header (2 + LabelMaxSize bytes): bufio.Reader.Peek
// fails with ErrBufferFull beyond its buffer size, so a reader created with an
// explicit, smaller size makes streams with the longest labels undecodable.
func checkStreamReaderSize(c *Ctx) {
	p := c.P
	fn := c.MustFunc("RemoveLabelHeaderFromStream")
	rule := "stream header removal: the buffered reader can hold the longest label header (2 + LabelMaxSize bytes), so Peek never fails with a full buffer for a valid header"
	c.Rule(rule)
	maxLabel := int64(255)
	if o, ok := p.Types.Scope().Lookup("LabelMaxSize").(*types.Const); ok {
		if v, exact := constant.Int64Val(constant.ToInt(o.Val())); exact {
			maxLabel = v
		}
	}
	n := 0
	inspectFn(fn, func(nd ast.Node) bool {
		call, ok := nd.(*ast.CallExpr)
		if !ok {
			return true
		}
		f := p.Callee(call)
		if f == nil {
			return true
		}
		switch core.FuncFullName(f) {
		case "bufio.NewReader":
			n++
			c.Check("C16/remover/stream-reader-size", rule, call.Pos(), true, "") // default size 4096
		case "bufio.NewReaderSize":
			n++
			v, isC := p.ConstInt(call.Args[1])
			c.Check("C16/remover/stream-reader-size", rule, call.Pos(), isC && (v >= 2+maxLabel || v < 16 && 16 >= 2+maxLabel),
				fmt.Sprintf("reader created with a buffer of %d bytes; the longest label header is %d bytes", v, 2+maxLabel))
		}
		return true
	})
	c.Floor("buffered readers in the stream header remover", n, 1)
}
