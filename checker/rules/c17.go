package rules

import (
	"go/ast"
	"go/token"
	"regexp"
	"strings"

	"mlverif/core"
	"mlverif/gea"
)

func init() {
	register("C17", func(c *Ctx) {
		p := c.P
		c.Assume("cross-node rotation interleavings are argued from the structural half (senders use the primary, receivers try every installed key, install keeps all other keys), not machine-checked")

		// 1. lock discipline on the key list
		c.checkLocking("C17", map[string]string{"Keyring.keys": "Keyring.l"}, map[string]string{
			"Keyring.init": "runs on a fresh keyring before publication (only called by the constructor; checked below)",
		}, 8)
		initFn := c.MustFunc("Keyring.init")
		for _, s := range c.G.Callers(initFn) {
			c.Check("C17/init-before-publication/"+s.Fn.Name, "the unlocked initialiser runs only on a keyring built in the same function", s.Pos, s.Call != nil && recvIsLocalLiteral(p, s.Fn, s.Call), "init called on a keyring that may be shared")
		}

		// 2. the key list is replaced only by the install helper, which builds a fresh list
		rule2 := "the key list is only ever replaced by the install helper (and the pre-publication initialiser); the helper builds a fresh slice whose first element is the requested primary and appends only keys different from it"
		c.Rule(rule2)
		install := c.installAnchor("C17", rule2, true)
		c.Funcs[install.Name] = true
		c.Check("C17/install/fresh-primary-first", rule2, install.Decl.Pos(), installShape(p, install), "install helper does not build {primary} + (keys != primary)")
		for _, s := range c.G.SitesOfKind("WELEM:Keyring.keys") {
			c.Check("C17/no-inplace/"+s.Fn.Name, "no element of the installed key list is overwritten in place", s.Pos, false, "element store into Keyring.keys in "+s.Fn.Name)
		}

		checkInstallCallers(c, "C17", install)

		// 3. no in-place mutation of (or append onto a re-slice of) the installed list, while the getter hands it out
		rule3 := "a key list handed to callers is never altered afterwards: no append onto a re-slice of the installed list (which writes through its backing array)"
		c.Rule(rule3)
		for _, fn := range p.SortedFuncs() {
			inspectFn(fn, func(n ast.Node) bool {
				call, ok := n.(*ast.CallExpr)
				if !ok || p.Builtin(call) != "append" || len(call.Args) == 0 {
					return true
				}
				if sl, ok := ast.Unparen(call.Args[0]).(*ast.SliceExpr); ok && p.FieldOwner(sl.X) == "Keyring.keys" {
					c.Check("C17/no-alias-mutation/"+fn.Name, rule3, call.Pos(), false, "append(k.keys[:i], ...) in "+fn.Name+" rewrites the array a previous GetKeys() result still points to")
				}
				return true
			})
		}
		c.Check("C17/no-alias-mutation", rule3, token.NoPos, true, "")

		// 4. per-method guards
		checkKeyringMethods(c, install)

		// 5. senders use the primary, receivers try all keys
		checkKeyUse(c)
		checkKeyHandling(c, "C17")
	})
}

// installAnchor finds the install helper: the one function (besides the
// pre-publication initialiser) that assigns Keyring.keys - or, when a later
// change made the helper a pure function, the function whose result every
// assignment of Keyring.keys stores (k.keys = f(list, primary)). In the second
// form the calls of the function are kept opaque (not followed in place), so
// that the rules read them as "the install" like a call of the method.
func (c *Ctx) installAnchor(prop, rule string, report bool) *core.Func {
	if a, ok := c.models["installAnchor"]; ok {
		return a.(*core.Func)
	}
	p := c.P
	initFn := c.MustFunc("Keyring.init")
	var writers []*core.Site
	for _, s := range c.G.SitesOfKind("W:Keyring.keys") {
		if s.Fn != initFn {
			writers = append(writers, s)
		}
	}
	if report {
		c.Floor("key-list assignments", len(writers)+1, 2)
	}
	if len(writers) == 0 {
		fail("anchor unresolved: install helper (assigns Keyring.keys)")
	}
	// form 2: every writer stores the result of a call to one same-package function
	var pure *core.Func
	allPure := true
	for _, s := range writers {
		var stmt ast.Node = s.Node
		for i := 0; stmt != nil && i < 3; i++ {
			if _, isA := stmt.(*ast.AssignStmt); isA {
				break
			}
			stmt = p.Parent(stmt)
		}
		as, isA := stmt.(*ast.AssignStmt)
		if !isA || len(as.Lhs) != 1 || len(as.Rhs) != 1 {
			allPure = false
			break
		}
		call, isC := ast.Unparen(as.Rhs[0]).(*ast.CallExpr)
		if !isC {
			allPure = false
			break
		}
		f := p.Callee(call)
		if f == nil || f.Pkg() != p.Types || p.ByObj[f] == nil || (pure != nil && p.ByObj[f] != pure) {
			allPure = false
			break
		}
		pure = p.ByObj[f]
	}
	var install *core.Func
	if allPure && pure != nil && len(c.G.Summary(pure)) == 0 {
		install = pure
		if c.opaqueNew == nil {
			c.opaqueNew = map[string]bool{}
		}
		c.opaqueNew[pure.Name] = true
		// its result must not go anywhere but into the key list
		for _, s := range c.G.Callers(pure) {
			ok := false
			if s.Call != nil {
				if as, isA := p.Parent(s.Call).(*ast.AssignStmt); isA && len(as.Lhs) == 1 && p.FieldOwner(as.Lhs[0]) == "Keyring.keys" {
					ok = true
				}
			}
			if report {
				c.Check(prop+"/keys-writers/"+s.Fn.Name, rule, s.Pos, ok, "the fresh list built by "+pure.Name+" is not stored in the key list in "+s.Fn.Name)
			}
		}
	} else {
		for _, s := range writers {
			if install != nil && install != s.Fn && report {
				c.Check(prop+"/keys-writers/"+s.Fn.Name, rule, s.Pos, false, "second writer of the key list: "+s.Fn.Name)
			}
			install = s.Fn
		}
	}
	c.models["installAnchor"] = install
	return install
}

var keysIdxRe = regexp.MustCompile(`m\.keys\[[^\]]*\]`)

// derivedFromInstalled: the value name is built only from append/make and
// (sub-slices of) the installed list, optionally plus the single new key.
func derivedFromInstalled(v string) (bool, string) {
	v = keysIdxRe.ReplaceAllString(v, "m.keys")
	extra := 0
	for _, tok := range strings.FieldsFunc(v, func(r rune) bool { return r == '(' || r == ')' || r == ',' }) {
		switch {
		case tok == "append", tok == "make", tok == "[][]byte", tok == "len", tok == "m.keys", tok == "":
		case strings.Trim(tok, "0123456789+-") == "":
		case tok == "key":
			extra++
		default:
			return false, "list not derived from the installed keys (" + tok + ")"
		}
	}
	if extra > 1 {
		return false, "more than one new key"
	}
	return true, ""
}

// recvIsLocalLiteral: the receiver of the method call is a local variable
// assigned from a composite literal in the same function.
func recvIsLocalLiteral(p *core.Prog, fn *core.Func, call *ast.CallExpr) bool {
	se, ok := ast.Unparen(call.Fun).(*ast.SelectorExpr)
	if !ok {
		return false
	}
	id, ok := ast.Unparen(se.X).(*ast.Ident)
	if !ok {
		return false
	}
	obj := p.Info.Uses[id]
	found := false
	inspectFn(fn, func(n ast.Node) bool {
		if as, ok := n.(*ast.AssignStmt); ok {
			for i, l := range as.Lhs {
				if lid, ok := l.(*ast.Ident); ok && i < len(as.Rhs) {
					o := p.Info.Defs[lid]
					if o == nil {
						o = p.Info.Uses[lid]
					}
					if o == obj && compositeLit(as.Rhs[i]) != nil {
						found = true
					}
				}
			}
		}
		return true
	})
	return found
}

// installShape: newKeys := [][]byte{primary}; for range keys { if !bytes.Equal(key, primary) { newKeys = append(newKeys, key) } }; k.keys = newKeys
func installShape(p *core.Prog, fn *core.Func) bool {
	var primary, list *ast.Ident
	for _, f := range fn.Decl.Type.Params.List {
		for _, n := range f.Names {
			t := p.TypeOf(f.Type).String()
			if t == "[]byte" {
				primary = n
			}
			if t == "[][]byte" {
				list = n
			}
		}
	}
	if primary == nil || list == nil {
		return false
	}
	var fresh *ast.Ident
	okInit, okLoop, okAssign := false, false, false
	for _, st := range fn.Decl.Body.List {
		switch v := st.(type) {
		case *ast.AssignStmt:
			if len(v.Lhs) == 1 && len(v.Rhs) == 1 {
				if cl, ok := ast.Unparen(v.Rhs[0]).(*ast.CompositeLit); ok && v.Tok == token.DEFINE && len(cl.Elts) == 1 {
					if id, ok := ast.Unparen(cl.Elts[0]).(*ast.Ident); ok && p.Info.Uses[id] == p.Info.Defs[primary] {
						fresh, _ = v.Lhs[0].(*ast.Ident)
						okInit = fresh != nil
					}
				}
				if p.FieldOwner(v.Lhs[0]) == "Keyring.keys" && fresh != nil {
					if id, ok := ast.Unparen(v.Rhs[0]).(*ast.Ident); ok && p.Info.Uses[id] == p.Info.Defs[fresh] {
						okAssign = true
					}
				}
			}
		case *ast.ReturnStmt:
			// the pure form hands the fresh list back (its callers store it: installAnchor)
			if len(v.Results) == 1 && fresh != nil {
				if id, ok := ast.Unparen(v.Results[0]).(*ast.Ident); ok && p.Info.Uses[id] == p.Info.Defs[fresh] {
					okAssign = true
				}
			}
		case *ast.RangeStmt:
			rid, ok := ast.Unparen(v.X).(*ast.Ident)
			if !ok || p.Info.Uses[rid] != p.Info.Defs[list] || len(v.Body.List) != 1 {
				continue
			}
			ifs, ok := v.Body.List[0].(*ast.IfStmt)
			if !ok || ifs.Else != nil || len(ifs.Body.List) != 1 {
				continue
			}
			cond := p.Canon(ifs.Cond)
			val, _ := v.Value.(*ast.Ident)
			if val == nil {
				continue
			}
			k, pr := p.Canon(val), p.Canon(primary)
			if cond != "!bytes.Equal("+k+","+pr+")" && cond != "!bytes.Equal("+pr+","+k+")" {
				continue
			}
			if as, ok := ifs.Body.List[0].(*ast.AssignStmt); ok && len(as.Rhs) == 1 {
				if call, ok := ast.Unparen(as.Rhs[0]).(*ast.CallExpr); ok && p.Builtin(call) == "append" && len(call.Args) == 2 {
					a0, _ := ast.Unparen(call.Args[0]).(*ast.Ident)
					a1, _ := ast.Unparen(call.Args[1]).(*ast.Ident)
					if a0 != nil && a1 != nil && fresh != nil && p.Info.Uses[a0] == p.Info.Defs[fresh] && p.Info.Uses[a1] == p.Info.Defs[val] {
						okLoop = true
					}
				}
			}
		}
	}
	return okInit && okLoop && okAssign
}

// checkKeyringMethods explores AddKey / UseKey / RemoveKey.
func checkKeyringMethods(c *Ctx, install *core.Func) {
	p := c.P
	inst := "CALL:" + install.Name
	// AddKey: validation error returns before any write; duplicates return before the install
	add := c.MustFunc("Keyring.AddKey")
	xa := c.flow(add, map[string]string{})
	c.flowMay(xa, "C17/add/validated", "AddKey installs only a key that passed length validation and is not already installed; the new list is the old one plus the key, the primary is kept (or the key itself on an empty ring)",
		func(e *gea.Effect) bool { return e.Class == inst }, func(e *gea.Effect) (bool, string) {
			if v, ok := cubeAtom(e.Cube, "ValidateKey(key)", "==nil"); !ok || v != "T" {
				return false, "validation not passed"
			}
			for k, v := range e.Cube {
				if strings.HasPrefix(k, "eq(") && strings.Contains(k, "key") && v == "T" {
					return false, "duplicate reaches the install"
				}
				if u := untok(k); u == "indexEq(m.keys,key)>=0" && v == "T" {
					return false, "duplicate reaches the install"
				}
			}
			if !strings.HasPrefix(e.Detail["arg0"], "append(m.keys,key)") {
				return false, "installed list is not append(keys, key): " + e.Detail["arg0"]
			}
			return true, ""
		})
	nInst := 0
	for _, e := range xa.Effects {
		if e.Class == inst {
			nInst++
		}
	}
	c.Floor("install calls in AddKey", nInst, 1)
	// the duplicate test ranges over the installed keys
	c.Check("C17/add/dup-scan", "AddKey compares the new key with every installed key before installing", add.Decl.Pos(), rangesKeysComparing(p, add), "no range over the installed keys with bytes.Equal against the argument")
	// ValidateKey accepts exactly 16/24/32
	checkValidateKey(c)

	// UseKey: install only on the equal-key edge, with that key as primary and the unchanged list
	use := c.MustFunc("Keyring.UseKey")
	xu := c.flow(use, map[string]string{})
	nU := c.flowMay(xu, "C17/use/installed-only", "UseKey makes a key primary only if it equals an installed key, keeping the whole installed list", func(e *gea.Effect) bool { return e.Class == inst },
		func(e *gea.Effect) (bool, string) {
			eq := false
			for k, v := range e.Cube {
				if strings.HasPrefix(k, "eq(") && strings.Contains(k, "key") && v == "T" {
					eq = true
				}
				if u := untok(k); (u == "indexEq(m.keys,key)>=0" || u == "indexEq(m.keys,key)>=1") && v == "T" {
					eq = true // found by the library search
				}
			}
			return eq && e.Detail["arg0"] == "m.keys" && (e.Detail["arg1"] == "key" || strings.HasPrefix(e.Detail["arg1"], "rangeval")), "install not guarded by equality with an installed key, or list/primary arguments wrong: " + e.Detail["arg0"] + "," + e.Detail["arg1"]
		})
	c.Floor("install calls in UseKey", nU, 1)
	for _, ex := range xu.Exits {
		if len(ex.Ret) == 1 && ex.Ret[0] == "nil" {
			c.Check("C17/use/nil-only-after-install", "UseKey reports success only after installing", ex.Pos, ex.Seen[inst] > 0, "returns nil without installing")
		}
	}
	for _, s := range c.G.Sites[use] {
		if s.Kind == "W:Keyring.keys" && c.opaqueNew[install.Name] {
			continue // stores the install function's result (checked by installAnchor)
		}
		if s.Kind == "W:Keyring.keys" || s.Kind == "WELEM:Keyring.keys" {
			c.Check("C17/use/no-direct-write", "UseKey changes the ring only through the install helper", s.Pos, false, "direct store to the key list in UseKey")
		}
	}

	// RemoveKey: the primary is refused before any write; index 0 only on a non-empty ring
	rem := c.MustFunc("Keyring.RemoveKey")
	xr := c.flow(rem, map[string]string{})
	c.flowMay(xr, "C17/remove/not-primary", "RemoveKey never removes the primary: the install is reached only when the key differs from the first installed key, which stays primary", func(e *gea.Effect) bool { return e.Class == inst },
		func(e *gea.Effect) (bool, string) {
			v, ok := cubeAtom(e.Cube, "eq(key,m.keys[0])", "")
			if !ok {
				v, ok = cubeAtom(e.Cube, "eq(m.keys[0],key)", "")
			}
			if !ok || v != "F" {
				// the first installed key equal to the argument sits at index >= 1: the
				// primary (index 0) differs
				found := false
				for k, v2 := range e.Cube {
					if untok(k) == "indexEq(m.keys,key)>=1" && v2 == "T" {
						found = true
					}
				}
				if !found {
					return false, "install reachable without having compared the key with the primary"
				}
			}
			return e.Detail["arg1"] == "m.keys[0]", "primary argument is " + e.Detail["arg1"]
		})
	checkRemoveExact(c)

	// constant indexes into the key list need a length guard
	rule := "every constant index into the key list is dominated by a length guard (no panic on an empty ring)"
	c.Rule(rule)
	for _, fn := range p.SortedFuncs() {
		if fn.Decl.Recv == nil || core.NamedOf(p.TypeOf(fn.Decl.Recv.List[0].Type)) != "Keyring" {
			continue
		}
		x := c.flow(fn, map[string]string{})
		_ = x
		guards := indexGuards(c, fn)
		for pos, ok := range guards {
			c.Check("C17/index-guard/"+fn.Name, rule, pos, ok, "k.keys[0] evaluated on a path that has not established len(k.keys) > 0")
		}
	}
}

// indexGuards: for every k.keys[<const>] in fn, whether each path to it has
// tested len(k.keys) >= const+1.
func indexGuards(c *Ctx, fn *core.Func) map[token.Pos]bool {
	p := c.P
	out := map[token.Pos]bool{}
	spec := &idxSpec{flowSpec: flowSpec{c: c, alias: nil, quiet: map[string]bool{}}}
	if fn.Decl.Recv != nil && len(fn.Decl.Recv.List[0].Names) > 0 {
		spec.recv = p.Info.Defs[fn.Decl.Recv.List[0].Names[0]]
	}
	x := gea.New(p, fn.Name+"$idx", fn.Decl.Type, fn.Decl.Body, spec)
	x.InlineCallee = c.inlinePolicy
	x.Run()
	for _, e := range x.Effects {
		if e.Class != "INDEXKEYS" {
			continue
		}
		ok := e.Cube["len(m.keys)>=1"] == "T"
		if prev, seen := out[e.Pos]; seen {
			ok = ok && prev
		}
		out[e.Pos] = ok
	}
	return out
}

type idxSpec struct{ flowSpec }

func (s *idxSpec) Node(x *gea.Exec, st *gea.State, n ast.Node) *gea.State {
	p := x.P
	ast.Inspect(n, func(m ast.Node) bool {
		if _, ok := m.(*ast.FuncLit); ok {
			return false
		}
		if ix, ok := m.(*ast.IndexExpr); ok && p.FieldOwner(ix.X) == "Keyring.keys" {
			if _, isConst := p.ConstInt(ix.Index); isConst {
				st = x.Effect(st, "INDEXKEYS", ix.Pos(), nil)
			}
		}
		return true
	})
	return st
}

func rangesKeysComparing(p *core.Prog, fn *core.Func) bool {
	ok := false
	inspectFn(fn, func(n ast.Node) bool {
		// the library search with an equality predicate compares with every element too
		if call, isC := n.(*ast.CallExpr); isC && len(call.Args) == 2 && p.FieldOwner(call.Args[0]) == "Keyring.keys" {
			if f := p.Callee(call); f != nil && (core.FuncFullName(f) == "slices.IndexFunc" || core.FuncFullName(f) == "slices.ContainsFunc") && gea.EqPredicateOperand(p, call.Args[1]) != nil {
				ok = true
			}
		}
		rs, isR := n.(*ast.RangeStmt)
		if !isR || p.FieldOwner(rs.X) != "Keyring.keys" {
			return true
		}
		ast.Inspect(rs.Body, func(m ast.Node) bool {
			if call, isC := m.(*ast.CallExpr); isC {
				if f := p.Callee(call); f != nil && core.FuncFullName(f) == "bytes.Equal" {
					ok = true
				}
			}
			return true
		})
		return true
	})
	return ok
}

func checkValidateKey(c *Ctx) {
	fn := c.MustFunc("ValidateKey")
	x := c.flow(fn, map[string]string{})
	rule := "a key is valid exactly when its length is 16, 24 or 32 bytes"
	c.Rule(rule)
	for _, ex := range x.Exits {
		if len(ex.Ret) != 1 {
			continue
		}
		// classify the length region this exit covers from the >= atoms
		ge := func(k string) (bool, bool) {
			v, ok := ex.Cube["len(key)>="+k]
			return v == "T", ok
		}
		isLen := func(n, n1 string) bool {
			a, oka := ge(n)
			b, okb := ge(n1)
			return oka && okb && a && !b
		}
		valid := isLen("16", "17") || isLen("24", "25") || isLen("32", "33")
		if ex.Ret[0] == "nil" {
			c.Check("C17/validate/nil-iff-16-24-32", rule, ex.Pos, valid, "accepts a key under {"+gea.CubeString(ex.Cube)+"}")
		} else {
			c.Check("C17/validate/error-otherwise", rule, ex.Pos, !valid, "rejects a valid length under {"+gea.CubeString(ex.Cube)+"}")
		}
	}
}

// checkInstallCallers: every list handed to the install helper is derived from
// the installed list (shared with C14: a ring that can hold duplicates keeps
// accepting traffic under a key after RemoveKey dropped one copy).
func checkInstallCallers(c *Ctx, prop string, install *core.Func) {
	p := c.P
	// 2b. every list handed to the install helper is derived from the installed list
	rule2b := "the install helper is only ever given the installed list itself, a fresh copy assembled from its sub-slices, or the installed list plus one key that was validated and compared against every installed key (so duplicates and unvalidated keys can never be installed, whoever the caller is)"
	c.Rule(rule2b)
	ninst := 0
	for _, s := range c.G.Callers(install) {
		if s.Call == nil {
			c.Check(prop+"/install-callers/"+s.Fn.Name, rule2b, s.Pos, false, "install helper referenced as a value in "+s.Fn.Name)
			continue
		}
		x := c.flow(s.Fn, map[string]string{})
		for _, e := range x.Effects {
			if e.Class != "CALL:"+install.Name || e.Pos != s.Call.Pos() {
				continue
			}
			ninst++
			ok, why := derivedFromInstalled(untok(e.Detail["arg0"]))
			if ok && strings.Contains(keysIdxRe.ReplaceAllString(untok(e.Detail["arg0"]), "m.keys"), ",key)") {
				// plus-one-key form: needs validation and the duplicate scan on this path
				v, okv := cubeAtom(e.Cube, "ValidateKey(key)", "==nil")
				if !okv || v != "T" || !rangesKeysComparing(p, s.Fn) {
					ok, why = false, "a new key is installed without validation and duplicate scan"
				}
			}
			c.Check(prop+"/install-callers/"+s.Fn.Name, rule2b, e.Pos, ok, why+": "+untok(e.Detail["arg0"]))
		}
	}
	c.Floor("install helper call sites", ninst, 3)

}

// checkRemoveExact: RemoveKey hands the install helper the installed list
// minus exactly the matched element (shared with C14: traffic sealed under a
// removed key must stop being accepted, and no other key may disappear).
func checkRemoveExact(c *Ctx) {
	p := c.P
	rem := c.MustFunc("Keyring.RemoveKey")
	ruleR := "RemoveKey hands the install helper the installed list minus exactly the matched element: the only parts of the installed list it copies are keys[:i] and keys[i+1:] for the matched index i"
	c.Rule(ruleR)
	srcs := map[string]bool{}
	inspectFn(rem, func(n ast.Node) bool {
		rs, ok := n.(*ast.RangeStmt)
		if !ok || p.FieldOwner(rs.X) != "Keyring.keys" {
			return true
		}
		idx, _ := rs.Key.(*ast.Ident)
		if idx == nil {
			return true
		}
		ast.Inspect(rs.Body, func(m ast.Node) bool {
			if sl, ok := m.(*ast.SliceExpr); ok && p.FieldOwner(sl.X) == "Keyring.keys" {
				lo, hi := "", ""
				if sl.Low != nil {
					lo = strings.ReplaceAll(norm(p.Canon(sl.Low)), norm(p.Canon(idx)), "i")
				}
				if sl.High != nil {
					hi = strings.ReplaceAll(norm(p.Canon(sl.High)), norm(p.Canon(idx)), "i")
				}
				srcs["["+lo+":"+hi+"]"] = true
			}
			return true
		})
		return true
	})
	// the matched index may also come from the library search (directly or through a
	// helper extracted for it): i := <search for the key in the installed list>
	if len(srcs) == 0 {
		xr := c.flow(rem, map[string]string{})
		for _, e := range xr.Effects {
			if !strings.HasPrefix(e.Class, "CALL:") || !strings.Contains(e.Class, "Keyring.") {
				continue
			}
			a0 := untok(e.Detail["arg0"])
			for _, part := range []string{"m.keys[:indexEq(m.keys,key)]", "m.keys[(indexEq(m.keys,key)+1):]"} {
				if strings.Contains(a0, part) {
					srcs[strings.Replace(strings.TrimPrefix(part, "m.keys"), "indexEq(m.keys,key)", "i", 1)] = true
					a0 = strings.Replace(a0, part, "", 1)
				}
			}
			if strings.Contains(a0, "m.keys[") {
				srcs["other"] = true
			}
		}
	}
	okSrc := len(srcs) == 2 && srcs["[:i]"] && srcs["[(i+1):]"]
	var got []string
	for k := range srcs {
		got = append(got, k)
	}
	c.Check("C17/remove/exact-element", ruleR, rem.Decl.Pos(), okSrc, "RemoveKey copies keys"+strings.Join(got, " and keys")+" (a key other than the requested one is dropped, or the requested one stays installed)")

}

// checkKeyUse: encrypt sites take GetPrimaryKey(), decrypt sites GetKeys(),
// and the decrypt helper ranges over all supplied keys.
func checkKeyUse(c *Ctx) {
	p := c.P
	rule := "every encryption uses the current primary key (Keyring.GetPrimaryKey()); every decryption is offered all installed keys (Keyring.GetKeys()), and the decrypt helper tries each of them"
	c.Rule(rule)
	ne, nd := 0, 0
	for _, fn := range p.SortedFuncs() {
		inspectFn(fn, func(n ast.Node) bool {
			call, ok := n.(*ast.CallExpr)
			if !ok {
				return true
			}
			f := p.Callee(call)
			if f == nil || f.Pkg() != p.Types {
				return true
			}
			switch core.QualName(f) {
			case "encryptPayload":
				ne++
				c.Check("C17/key-use/encrypt/"+fn.Name, rule, call.Pos(), len(call.Args) >= 2 && valueIsCallTo(p, fn, call.Args[1], "Keyring.GetPrimaryKey"), "encryption key is not Keyring.GetPrimaryKey()")
			case "decryptPayload":
				nd++
				c.Check("C17/key-use/decrypt/"+fn.Name, rule, call.Pos(), len(call.Args) >= 1 && valueIsCallTo(p, fn, call.Args[0], "Keyring.GetKeys"), "decryption keys are not Keyring.GetKeys()")
			}
			return true
		})
	}
	c.Floor("encrypt call sites", ne, 2)
	c.Floor("decrypt call sites", nd, 2)
	dp := c.MustFunc("decryptPayload")
	okAll := false
	keysObj := p.Info.Defs[dp.Decl.Type.Params.List[0].Names[0]]
	noBreak := func(body *ast.BlockStmt) bool {
		ok := true
		ast.Inspect(body, func(m ast.Node) bool {
			switch v := m.(type) {
			case *ast.BranchStmt:
				if v.Tok == token.BREAK || v.Tok == token.GOTO {
					ok = false
				}
			case *ast.ForStmt, *ast.RangeStmt, *ast.SwitchStmt, *ast.SelectStmt, *ast.TypeSwitchStmt, *ast.FuncLit:
				return false // a break in there leaves that statement, not the key loop
			}
			return true
		})
		return ok
	}
	inspectFn(dp, func(n ast.Node) bool {
		switch rs := n.(type) {
		case *ast.RangeStmt:
			// range over the supplied keys (the parameter itself, or the parameter of an
			// extracted helper that receives it)
			if c.flowsFrom(rs.X, keysObj, dp, 0) && noBreak(rs.Body) {
				okAll = true
			}
		case *ast.ForStmt:
			// for i := 0; i < len(keys); i++ { ... keys[i] ... } without a break, i only stepped by the post statement
			as, okI := rs.Init.(*ast.AssignStmt)
			be, okC := rs.Cond.(*ast.BinaryExpr)
			inc, okP := rs.Post.(*ast.IncDecStmt)
			if !okI || !okC || !okP || len(as.Lhs) != 1 || len(as.Rhs) != 1 || be.Op != token.LSS || inc.Tok != token.INC {
				return true
			}
			iv, isId := as.Lhs[0].(*ast.Ident)
			if z, isC := p.ConstInt(as.Rhs[0]); !isId || !isC || z != 0 {
				return true
			}
			io := p.Info.Defs[iv]
			ci, ok1 := ast.Unparen(be.X).(*ast.Ident)
			pi, ok2 := ast.Unparen(inc.X).(*ast.Ident)
			lc, ok3 := ast.Unparen(be.Y).(*ast.CallExpr)
			if io == nil || !ok1 || !ok2 || !ok3 || p.Info.Uses[ci] != io || p.Info.Uses[pi] != io || p.Builtin(lc) != "len" || len(lc.Args) != 1 || !c.flowsFrom(lc.Args[0], keysObj, dp, 0) {
				return true
			}
			stepped := false
			ast.Inspect(rs.Body, func(m ast.Node) bool {
				switch v := m.(type) {
				case *ast.AssignStmt:
					for _, l := range v.Lhs {
						if id, ok := ast.Unparen(l).(*ast.Ident); ok && p.Info.Uses[id] == io {
							stepped = true
						}
					}
				case *ast.IncDecStmt:
					if id, ok := ast.Unparen(v.X).(*ast.Ident); ok && p.Info.Uses[id] == io {
						stepped = true
					}
				}
				return true
			})
			if !stepped && noBreak(rs.Body) {
				okAll = true
			}
		}
		return true
	})
	c.Check("C17/key-use/tries-all", rule, dp.Decl.Pos(), okAll, "the decrypt helper does not range over every supplied key")
	// GetPrimaryKey returns element 0 (guarded), GetKeys the installed list
	gp := c.MustFunc("Keyring.getPrimaryKeyLocked")
	xg := c.flow(gp, map[string]string{})
	okp := false
	for _, ex := range xg.Exits {
		for k, t := range ex.Store {
			if strings.HasPrefix(k, "key") && t.S == "m.keys[0]" && ex.Cube["len(m.keys)>=1"] == "T" {
				okp = true
			}
		}
	}
	c.Check("C17/key-use/primary-is-first", "the primary key is element 0 of the installed list", gp.Decl.Pos(), okp, "getPrimaryKeyLocked does not return keys[0] under len(keys) > 0")
}

// valueIsCallTo: expression e is (a variable assigned from) a call to the named method.
func valueIsCallTo(p *core.Prog, fn *core.Func, e ast.Expr, qual string) bool {
	isCall := func(x ast.Expr) bool {
		call, ok := ast.Unparen(x).(*ast.CallExpr)
		if !ok {
			return false
		}
		f := p.Callee(call)
		return f != nil && f.Pkg() == p.Types && core.QualName(f) == qual
	}
	if isCall(e) {
		return true
	}
	id, ok := ast.Unparen(e).(*ast.Ident)
	if !ok {
		return false
	}
	obj := p.Info.Uses[id]
	n, good := 0, 0
	inspectFn(fn, func(nd ast.Node) bool {
		switch v := nd.(type) {
		case *ast.AssignStmt:
			for i, l := range v.Lhs {
				if lid, ok := l.(*ast.Ident); ok && i < len(v.Rhs) {
					o := p.Info.Defs[lid]
					if o == nil {
						o = p.Info.Uses[lid]
					}
					if o == obj {
						n++
						if isCall(v.Rhs[i]) {
							good++
						}
					}
				}
			}
		case *ast.ValueSpec:
			for i, nm := range v.Names {
				if p.Info.Defs[nm] == obj && i < len(v.Values) {
					n++
					if isCall(v.Values[i]) {
						good++
					}
				}
			}
		}
		return true
	})
	return n > 0 && n == good
}
