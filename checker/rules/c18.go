package rules

import (
	"go/ast"
	"go/token"
	"strings"

	"mlverif/core"
	"mlverif/gea"
)

func init() {
	register("C18", func(c *Ctx) {
		hm := c.handlerModels()
		p := c.P
		a := hm["alive"]
		c.Assume("net.IPNet.Contains semantics (IPv4-mapped forms) and the meaning of an empty non-nil list are value semantics of the predicate, not decided here")

		// 1. only the alive handler inserts records or writes their address
		rule1 := "only the alive handler inserts into the name table / member list or writes a record's address and port"
		c.Rule(rule1)
		n := 0
		for _, fn := range p.SortedFuncs() {
			for _, s := range c.G.Sites[fn] {
				switch s.Kind {
				case "MAPINS:Memberlist.nodeMap", "W:nodeState.Addr", "W:nodeState.Port", "W:Node.Addr", "W:Node.Port":
					if strings.HasPrefix(s.Kind, "W:Node.") && baseIsLocalLiteral(p, fn, s) {
						continue
					}
					n++
					c.Check("C18/addr-writers/"+fn.Name+"/"+s.Kind, rule1, s.Pos, c.allRoots(fn, func(r *core.Func) bool { return r == a.fn }), s.Kind+" in "+fn.Name)
				}
			}
		}
		c.Floor("address/insert write sites", n, 3)

		// 2. inserts and address changes only for allowed addresses; the value checked is the value stored
		c.mayRow(a, "C18/alive/insert-allowed", "a record is inserted (and thus can become a member and be announced) only if the claimed address passed the allow-list check", classIn("MAPINS", "APPEND", "W:nodes"), func(g getf, e *gea.Effect) bool {
			return isT(g, vIPOK)
		})
		c.mayRow(a, "C18/alive/addr-allowed", "an existing member's address or port is replaced by a different one only if the claimed address passed the allow-list check; the value stored is the claimed (checked) value", classIn("W:Addr", "W:Port"), func(g getf, e *gea.Effect) bool {
			if e.Seen["MAPINS"] == 0 && !aliveFound(g) {
				return isT(g, vIPOK)
			}
			want := map[string]string{"W:Addr": "c.Addr", "W:Port": "c.Port"}[e.Class]
			if e.Detail["val"] != want {
				return false
			}
			if !aliveFound(g) {
				return isT(g, vIPOK)
			}
			return addrSame(g) || isT(g, vIPOK)
		})
		c.mayRow(a, "C18/alive/join-allowed", "a join event for a new or re-addressed member fires only for an allowed address", classIn("EVT:Join"), func(g getf, e *gea.Effect) bool {
			if !aliveFound(g) {
				return isT(g, vIPOK)
			}
			return addrSame(g) || isT(g, vIPOK)
		})
		// the verdict variable is produced by IPAllowed(claim.Addr): the spec names it ipOK only then
		nip := 0
		for v := range a.x.Vars {
			if strings.HasPrefix(v, "ipOK:") {
				c.Check("C18/alive/checks-claimed-addr", "the allow-list is consulted for the claimed address itself", a.fn.Decl.Pos(), false, "IPAllowed is applied to "+strings.TrimPrefix(v, "ipOK:")+" instead of the claim's address")
			}
		}
		inspectFn(a.fn, func(n ast.Node) bool {
			if call, ok := n.(*ast.CallExpr); ok {
				if f := p.Callee(call); f != nil && f.Pkg() == p.Types && core.QualName(f) == "Config.IPAllowed" {
					nip++
				}
			}
			return true
		})
		c.Floor("allow-list consultations in the alive handler", nip, 1) // one consultation may guard both the insert and the re-address path
		c.Check("C18/alive/checks-claimed-addr", "the allow-list is consulted for the claimed address itself", a.fn.Decl.Pos(), true, "")

		// 3. the packet handler for alive messages filters source and inner address
		checkHandleAlive(c)

		// 4. the predicate itself: nil iff the list is empty or some network contains the address
		checkIPAllowed(c)

		// 5. remaining callers of the alive handler
		checkClaimSources(c, "C18")
	})
}

// checkHandleAlive: the gossip handler that forwards alive claims reaches the
// alive handler only after the source-address check passed and, with an
// active allow-list, the advertised address passed too.
func checkHandleAlive(c *Ctx) {
	p := c.P
	hm := c.handlerModels()
	var target *core.Func
	for _, s := range c.G.Callers(hm["alive"].fn) {
		if decodesClaim(p, s.Fn, s) {
			target = s.Fn
		}
	}
	if target == nil {
		fail("anchor unresolved: packet handler that decodes and forwards alive claims")
	}
	x := c.flow(target, map[string]string{})
	n := c.flowMay(x, "C18/packet-alive/gated", "alive gossip is handed to the alive handler only if it decoded, its source address passed the connection check and (allow-list active) its advertised address is allowed",
		func(e *gea.Effect) bool {
			return e.Class == "CALL:Memberlist.aliveNode" || strings.HasPrefix(e.Class, "CALL:Memberlist.") && e.Class == "CALL:"+hm["alive"].fn.Name
		},
		func(e *gea.Effect) (bool, string) {
			if v, ok := cubeAtom(e.Cube, "m.ensureCanConnect(", "==nil"); !ok || v != "T" {
				return false, "source-address check not passed on this path"
			}
			if v, ok := cubeAtom(e.Cube, "decode(", "==nil"); !ok || v != "T" {
				return false, "decode result not checked on this path"
			}
			must, okm := e.Cube["ipCheck"]
			if !okm {
				return false, "allow-list-active test missing"
			}
			if must == "T" {
				inner, oki := cubeAtom(e.Cube, "m.config.IPAllowed(", "==nil")
				nilIP, okn := "", false
				for k, v := range e.Cube {
					if strings.Contains(unmark(k), ".Addr==nil") {
						nilIP, okn = v, true
					}
				}
				if !(oki && inner == "T") && !(okn && nilIP == "T") {
					return false, "allow-list active but the advertised address was not checked"
				}
			}
			return true, ""
		})
	c.Floor("alive-handler calls in the packet handler", n, 1)
	// the connection check helper returns nil only if unchecked, pipe, or allowed
	ecc := c.MustFunc("Memberlist.ensureCanConnect")
	xe := c.flow(ecc, map[string]string{})
	c.Rule("the source-address check succeeds only if no allow-list is active, the source is the in-memory pipe, or the parsed source IP is allowed")
	for _, ex := range xe.Exits {
		if ex.Kind != "return" || len(ex.Ret) != 1 {
			continue
		}
		ok := true
		why := ""
		if ex.Ret[0] == "nil" {
			must := ex.Cube["ipCheck"]
			pipe := false
			for k, v := range ex.Cube {
				if strings.HasPrefix(k, "eq(") && strings.Contains(k, "pipe") && v == "T" {
					pipe = true
				}
			}
			if must != "F" && !pipe {
				ok, why = false, "returns nil without consulting the allow-list under {"+gea.CubeString(ex.Cube)+"}"
			}
		} else if strings.HasPrefix(ex.Ret[0], "m.config.IPAllowed(") {
			// delegated verdict: argument must be the parsed source ip
			if !strings.Contains(ex.Ret[0], "net.ParseIP(") {
				ok, why = false, "allow-list consulted for something else than the parsed source address: "+ex.Ret[0]
			}
		}
		c.Check("C18/source-check/returns", "the source-address check succeeds only if no allow-list is active, the source is the in-memory pipe, or the parsed source IP is allowed", ex.Pos, ok, why)
	}
}

// checkIPAllowed: Config.IPAllowed returns nil iff !IPMustBeChecked() or a
// configured network contains the address; IPMustBeChecked is len(list) > 0.
func checkIPAllowed(c *Ctx) {
	p := c.P
	fn := c.MustFunc("Config.IPAllowed")
	rule := "the allow-list predicate returns nil only when no list is configured or one of the configured networks contains the address"
	c.Rule(rule)
	x := c.flow(fn, map[string]string{})
	n := 0
	for _, ex := range x.Exits {
		if ex.Kind != "return" || len(ex.Ret) != 1 || ex.Ret[0] != "nil" {
			continue
		}
		n++
		must, okm := ex.Cube["ipCheck"]
		contains := false
		for k, v := range ex.Cube {
			if strings.Contains(k, ".Contains(ip") && v == "T" {
				contains = true
			}
		}
		empty := false
		for k, v := range ex.Cube {
			// the same test spelled on the list itself: len(CIDRsAllowed) >= 1 is false
			if u := untok(k); strings.HasPrefix(u, "len(") && strings.HasSuffix(u, ".CIDRsAllowed)>=1") && v == "F" {
				empty = true
			}
		}
		ok := (okm && must == "F") || empty || contains
		c.Check("C18/predicate/nil-only-if-allowed", rule, ex.Pos, ok, "returns nil under {"+gea.CubeString(ex.Cube)+"}")
	}
	c.Floor("nil returns of the allow-list predicate", n, 2)
	// the Contains call ranges over the configured list with the function's argument
	okRange := false
	inspectFn(fn, func(nd ast.Node) bool {
		rs, ok := nd.(*ast.RangeStmt)
		if !ok || !(p.FieldOwner(rs.X) == "Config.CIDRsAllowed" || localCopyOf(p, fn, rs.X, "Config.CIDRsAllowed")) {
			return true
		}
		ast.Inspect(rs.Body, func(m ast.Node) bool {
			if call, ok := m.(*ast.CallExpr); ok {
				if f := p.Callee(call); f != nil && core.FuncFullName(f) == "net.IPNet.Contains" && len(call.Args) == 1 {
					if id, ok := ast.Unparen(call.Args[0]).(*ast.Ident); ok {
						for _, fl := range fn.Decl.Type.Params.List {
							for _, nm := range fl.Names {
								if p.Info.Defs[nm] == p.Info.Uses[id] {
									okRange = true
								}
							}
						}
					}
				}
			}
			return true
		})
		return true
	})
	c.Check("C18/predicate/ranges-configured-list", rule, fn.Decl.Pos(), okRange, "the predicate does not test its argument against every configured network")
	_ = token.NoPos
}

// localCopyOf: e is a local variable of fn whose only assignment copies the given field.
func localCopyOf(p *core.Prog, fn *core.Func, e ast.Expr, field string) bool {
	id, ok := ast.Unparen(e).(*ast.Ident)
	if !ok {
		return false
	}
	obj := p.Info.Uses[id]
	if obj == nil {
		return false
	}
	n, good := 0, false
	ast.Inspect(fn.Decl.Body, func(nd ast.Node) bool {
		as, ok := nd.(*ast.AssignStmt)
		if !ok {
			return true
		}
		for i, l := range as.Lhs {
			if lid, ok := l.(*ast.Ident); ok && p.Info.ObjectOf(lid) == obj {
				n++
				if len(as.Lhs) == len(as.Rhs) && p.FieldOwner(as.Rhs[i]) == field {
					good = true
				}
			}
		}
		return true
	})
	return good && n == 1
}
