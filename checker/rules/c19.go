package rules

import (
	"fmt"
	"go/ast"
	"go/token"
	"go/types"
	"strconv"
	"strings"

	"mlverif/core"
	"mlverif/gea"
)

func init() {
	register("C19", func(c *Ctx) {
		p := c.P
		c.Assume("races between an ack arriving and the deadline firing (schedules) and the real-time accuracy of timers are not decided")

		// 1. lock discipline on the pending-probe table and the health score
		c.checkLocking("C19", map[string]string{"Memberlist.ackHandlers": "Memberlist.ackLock", "awareness.score": "awareness.(embedded)"}, map[string]string{
			"newMemberlist": "constructor: the Memberlist is not published yet",
			"newAwareness":  "constructor: the object is not published yet",
		}, 8)

		// 2. registration: key is the sequence number argument; the handler is complete (timer set) before it is published; cleanup timer deletes the same key
		for _, name := range []string{"Memberlist.setProbeChannels", "Memberlist.setAckHandler"} {
			fn := c.MustFunc(name)
			x := c.flow(fn, map[string]string{})
			n := c.flowMay(x, "C19/register/"+name, "a pending-probe handler is registered under the sequence number it was given, under the lock, and only after its cleanup timer has been created (so that whoever finds it can stop the timer)",
				func(e *gea.Effect) bool { return e.Class == "MAPINS:Memberlist.ackHandlers" }, func(e *gea.Effect) (bool, string) {
					if e.Detail["key"] != "seqNo" {
						return false, "registered under " + e.Detail["key"]
					}
					if e.Seen["LOCK:Lock:m.ackLock"] != 1 || e.Seen["LOCK:Unlock:m.ackLock"] != 0 {
						return false, "registration outside the lock"
					}
					if e.Seen["TIMER"] < 1 {
						return false, "the handler is published before its timer exists: an ack for this sequence number arriving in the window makes the listener call Stop on a nil timer"
					}
					return true, ""
				})
			c.Floor("registrations in "+name, n, 1)
			// the timer callback deletes the same key under the lock
			okCb := false
			probeMsg := false
			params := fn.Decl.Type.Params.List
			seqObj := p.Info.Defs[params[0].Names[0]]
			toObj := p.Info.Defs[params[len(params)-1].Names[0]]
			sendsIncomplete := func(x *gea.Exec) bool {
				for _, e := range x.Effects {
					if e.Class == "SEND" && strings.Contains(e.Detail["val"], "ackMessage{false") {
						return true
					}
				}
				return false
			}
			inspectFn(fn, func(nd ast.Node) bool {
				call, ok := nd.(*ast.CallExpr)
				if !ok {
					return true
				}
				if f := p.Callee(call); f == nil || core.FuncFullName(f) != "time.AfterFunc" || len(call.Args) != 2 {
					return true
				}
				// armed with the timeout this function was given (directly, or handed on to the
				// helper that now creates the timer)
				if !c.flowsFrom(call.Args[0], toObj, fn, 0) {
					return true
				}
				fl, ok := ast.Unparen(call.Args[1]).(*ast.FuncLit)
				if !ok {
					return true
				}
				recv := p.Info.Defs[fn.Decl.Recv.List[0].Names[0]]
				if enc := p.EnclosingDecl(fl); enc != nil && enc != fn && enc.Decl.Recv != nil && len(enc.Decl.Recv.List[0].Names) > 0 {
					recv = p.Info.Defs[enc.Decl.Recv.List[0].Names[0]]
				}
				xl := c.Explore(name+"$reaper", fl.Type, fl.Body, &flowSpec{c: c, recv: recv, quiet: map[string]bool{}})
				for _, e := range xl.Effects {
					if e.Class == "MAPDEL:Memberlist.ackHandlers" && e.Seen["LOCK:Lock:m.ackLock"] == 1 && e.Seen["LOCK:Unlock:m.ackLock"] == 0 {
						// the key deleted is the sequence number this function was given
						ast.Inspect(fl.Body, func(m ast.Node) bool {
							if dc, isC := m.(*ast.CallExpr); isC && dc.Pos() == e.Pos && len(dc.Args) == 2 && c.flowsFrom(dc.Args[1], seqObj, fn, 0) {
								okCb = true
							}
							return true
						})
					}
				}
				if sendsIncomplete(xl) {
					probeMsg = true
				}
				// a callback handed to the helper that now owns the timer runs as part of the reaper
				ast.Inspect(fl.Body, func(m ast.Node) bool {
					cc, isC := m.(*ast.CallExpr)
					if !isC {
						return true
					}
					id, isId := ast.Unparen(cc.Fun).(*ast.Ident)
					if !isId {
						return true
					}
					for _, a := range c.argsReaching(p.Info.Uses[id], fn) {
						if al, isL := ast.Unparen(a).(*ast.FuncLit); isL {
							if sendsIncomplete(c.Explore(name+"$reaper$cb", al.Type, al.Body, &flowSpec{c: c, recv: p.Info.Defs[fn.Decl.Recv.List[0].Names[0]], quiet: map[string]bool{}})) {
								probeMsg = true
							}
						}
					}
					return true
				})
				return true
			})
			c.Check("C19/cleanup/"+name, "every registration is paired with a timer, armed with the given timeout, whose callback deletes the same sequence number under the lock (every pending-probe record is discarded by its deadline)", fn.Decl.Pos(), okCb, "no AfterFunc(timeout, ...) deleting ackHandlers[seqNo] under the lock")
			if name == "Memberlist.setProbeChannels" {
				c.Check("C19/cleanup/probe-timeout-message", "the probe variant's deadline also delivers the non-complete message that ends the probe's wait", fn.Decl.Pos(), probeMsg, "the deadline callback does not send ackMessage{false,...}")
			}
		}

		// 3. invocation: lookup by the decoded number, delete before the callback, unknown -> no effect
		ia := c.MustFunc("Memberlist.invokeAckHandler")
		xa := c.flow(ia, map[string]string{})
		c.flowMay(xa, "C19/invoke-ack/delete-first", "an ack is correlated by its own sequence number; the record is removed under the lock before its callback runs (so it runs at most once)", func(e *gea.Effect) bool { return e.Class == "CALLVALUE" || e.Class == "TIMERCALL:Stop" },
			func(e *gea.Effect) (bool, string) {
				has := ""
				for k, v := range e.Cube {
					if strings.HasPrefix(untok(k), "has:m.ackHandlers[ack.SeqNo]") {
						has = v
					}
					// a non-nil element of the pointer-valued table is a registered one
					if untok(k) == "m.ackHandlers[ack.SeqNo]==nil" && v == "F" && has == "" {
						has = "T"
					}
				}
				if has != "T" {
					return false, "callback reachable for an unknown sequence number"
				}
				return e.Seen["MAPDEL:Memberlist.ackHandlers"] == 1 && e.Seen["LOCK:Unlock:m.ackLock"] == 1, "callback before the record is removed and the lock released"
			})
		c.flowMay(xa, "C19/invoke-ack/key", "the record removed is the one under the ack's own sequence number", func(e *gea.Effect) bool { return e.Class == "MAPDEL:Memberlist.ackHandlers" },
			func(e *gea.Effect) (bool, string) { return e.Detail["key"] == "ack.SeqNo", e.Detail["key"] })
		in := c.MustFunc("Memberlist.invokeNackHandler")
		xn := c.flow(in, map[string]string{})
		c.flowMay(xn, "C19/invoke-nack", "a nack is correlated by its own sequence number and has an effect only for a pending record that asked for nacks; it never removes the record", func(e *gea.Effect) bool { return e.Class == "CALLVALUE" || strings.HasPrefix(e.Class, "MAPDEL") },
			func(e *gea.Effect) (bool, string) {
				if strings.HasPrefix(e.Class, "MAPDEL") {
					return false, "a nack removes the pending record"
				}
				for k, v := range e.Cube {
					if strings.HasPrefix(untok(k), "has:m.ackHandlers[nack.SeqNo]") && v == "T" {
						return true, ""
					}
					if untok(k) == "m.ackHandlers[nack.SeqNo]==nil" && v == "F" {
						return true, "" // a non-nil element of the pointer-valued table is a registered one
					}
				}
				return false, "nack callback for an unknown sequence number"
			})

		checkNilFuncFields(c, "C19") // "asked for nacks": the nack callback is nil for records registered without one
		// 4. the relay
		checkRelay(c)

		// 5. health score clamp and the sign of its deltas
		checkAwareness(c)

		// 6. TCP fallback
		fb := c.MustFunc("Memberlist.sendPingAndWaitForAck")
		xf := c.flow(fb, map[string]string{})
		checkFallbackDeadline(c, "C19")
		for _, ex := range xf.Exits {
			if len(ex.Ret) == 2 && ex.Ret[0] == "true" {
				typ, seq := false, false
				for k, v := range ex.Cube {
					u := norm(k)
					if strings.HasPrefix(u, "enum:m.readStream(") && v == "ackRespMsg" {
						typ = true
					}
					if strings.HasPrefix(u, "cmp(ack.SeqNo,ping.SeqNo)") && v == "EQ" {
						seq = true
					}
				}
				c.Check("C19/tcp-fallback/true-iff-own-ack", "the TCP fallback reports contact only for a reply of type ack whose sequence number equals the ping's", ex.Pos, typ && seq && ex.Ret[1] == "nil", untok(gea.CubeString(ex.Cube)))
			}
		}

		// 7. the probe itself
		checkProbeNode(c, "C19")
		checkStreamPingAnswer(c, "C19")
	})
}

func checkRelay(c *Ctx) {
	p := c.P
	fn := c.MustFunc("Memberlist.handleIndirectPing")
	x := c.flow(fn, map[string]string{})
	rule := "relay: the forwarded ping carries a fresh sequence number which is also the registered key; the relayed ack and the nack carry the requester's number and go to the requester's address"
	c.Rule(rule)
	// fresh number = result of the sequence generator; registered with it; ping.SeqNo is it
	var fresh string
	for _, e := range x.Effects {
		if e.Class == "CALL:Memberlist.setAckHandler" {
			fresh = e.Detail["arg0"]
			c.Check("C19/relay/registers-fresh", rule, e.Pos, strings.HasPrefix(untok(e.Detail["arg0"]), "m.nextSeqNo()") && untok(e.Detail["arg2"]) == "m.config.ProbeTimeout", "registered under "+untok(e.Detail["arg0"])+" with timeout "+untok(e.Detail["arg2"]))
		}
	}
	c.Check("C19/relay/registers", rule, fn.Decl.Pos(), fresh != "", "the relay does not register an ack handler")
	// the ping literal and the two replies
	nPing, nAck, nNack := 0, 0, 0
	inspectFn(fn, func(n ast.Node) bool {
		cl, ok := n.(*ast.CompositeLit)
		if !ok {
			return true
		}
		switch core.NamedOf(p.TypeOf(cl)) {
		case "ping":
			nPing++
			seq := fieldExpr(cl, "SeqNo")
			node := fieldExpr(cl, "Node")
			okSeq := false
			if id, isId := seq.(*ast.Ident); isId {
				okSeq = assignedFromCall(p, fn, id, "Memberlist.nextSeqNo")
			}
			c.Check("C19/relay/ping-fresh-seqno", rule, cl.Pos(), okSeq && node != nil && strings.HasSuffix(p.Canon(node), ".Node"), "forwarded ping does not carry a fresh sequence number / the requested node")
		case "ackResp":
			nAck++
			c.Check("C19/relay/ack-requester-seqno", rule, cl.Pos(), len(cl.Elts) >= 1 && strings.HasSuffix(p.Canon(c.traceParam(elt(cl, 0, "SeqNo"))), ".SeqNo") && strings.HasPrefix(norm(p.Canon(c.traceParam(elt(cl, 0, "SeqNo")))), "ind."), "relayed ack does not carry the requester's sequence number")
		case "nackResp":
			nNack++
			c.Check("C19/relay/nack-requester-seqno", rule, cl.Pos(), len(cl.Elts) >= 1 && strings.HasPrefix(norm(p.Canon(c.traceParam(elt(cl, 0, "SeqNo")))), "ind.") && strings.HasSuffix(p.Canon(c.traceParam(elt(cl, 0, "SeqNo"))), ".SeqNo"), "nack does not carry the requester's sequence number")
		}
		return true
	})
	c.Floor("relay message literals", nPing+nAck+nNack, 3)
	// nack: requested, from the timeout arm of a select whose other arm is the cancel channel closed by the ack callback
	ruleN := "relay: exactly one nack iff one was requested and no ack came within the probe timeout: whenever a nack is requested the nack goroutine is started on every path; it sends only from the timeout arm of a select whose other arm is the channel the ack callback closes"
	c.Rule(ruleN)
	for _, ex := range x.Exits {
		nack, has := "", false
		for k, v := range ex.Cube {
			if u := norm(k); strings.HasPrefix(u, "ind.Nack") {
				nack, has = v, true
			}
		}
		dec := ""
		for k, v := range ex.Cube {
			if u := untok(k); strings.HasPrefix(u, "decode(") && strings.HasSuffix(u, "==nil") {
				dec = v
			}
		}
		if dec != "T" {
			continue
		}
		if has && nack == "T" {
			c.Check("C19/relay/nack-started", ruleN, ex.Pos, ex.Seen["GO"] >= 1, "exit with a nack requested but the nack goroutine not started (e.g. after a failed ping send): the requester will count a missed nack from a healthy relay")
		} else if has {
			c.Check("C19/relay/no-nack-unrequested", ruleN, ex.Pos, ex.Seen["GO"] == 0, "nack goroutine started although no nack was requested")
		} else {
			c.Check("C19/relay/nack-flag-consulted", ruleN, ex.Pos, false, "exit that never consulted the request's nack flag")
		}
		c.Check("C19/relay/forwards-ping", "relay: the ping is forwarded and the ack handler registered on every path of a decoded request", ex.Pos, ex.Seen["CALL:Memberlist.setAckHandler"] == 1 && ex.Seen["CALL:Memberlist.encodeAndSendMsg"] >= 1, "decoded request not forwarded")
	}
	// structure of the nack goroutine
	okSel, okClose := false, false
	inspectFn(fn, func(n ast.Node) bool {
		gs, ok := n.(*ast.GoStmt)
		if !ok {
			return true
		}
		// the goroutine's body: a literal, or a helper extracted from one
		var gbody *ast.BlockStmt
		if fl, ok := ast.Unparen(gs.Call.Fun).(*ast.FuncLit); ok {
			gbody = fl.Body
		} else if f := p.Callee(gs.Call); f != nil && f.Pkg() == p.Types && p.ByObj[f] != nil && !pinnedFuncs[p.ByObj[f].Name] {
			gbody = p.ByObj[f].Decl.Body
		}
		if gbody == nil || len(gbody.List) != 1 {
			return true
		}
		sel, ok := gbody.List[0].(*ast.SelectStmt)
		if !ok || len(sel.Body.List) != 2 {
			return true
		}
		var cancelArm, timerArm *ast.CommClause
		for _, cl := range sel.Body.List {
			cc := cl.(*ast.CommClause)
			es, ok := cc.Comm.(*ast.ExprStmt)
			if !ok {
				continue
			}
			u, ok := ast.Unparen(es.X).(*ast.UnaryExpr)
			if !ok || u.Op != token.ARROW {
				continue
			}
			if call, ok := ast.Unparen(u.X).(*ast.CallExpr); ok {
				if f := p.Callee(call); f != nil && core.FuncFullName(f) == "time.After" && strings.HasSuffix(p.Canon(call.Args[0]), "config.ProbeTimeout") {
					timerArm = cc
				}
			} else if id, ok := ast.Unparen(u.X).(*ast.Ident); ok && id.Name != "" {
				cancelArm = cc
				_ = id
			}
		}
		if cancelArm != nil && timerArm != nil {
			sends := func(cc *ast.CommClause) bool {
				found := false
				for _, s := range cc.Body {
					ast.Inspect(s, func(m ast.Node) bool {
						if call, ok := m.(*ast.CallExpr); ok {
							if f := p.Callee(call); f != nil && f.Pkg() == p.Types && c.G.Summary(p.ByObj[f])["SINK:packet"] {
								found = true
							}
						}
						return true
					})
				}
				return found
			}
			okSel = sends(timerArm) && !sends(cancelArm)
		}
		return true
	})
	inspectFn(fn, func(n ast.Node) bool {
		if call, ok := n.(*ast.CallExpr); ok && p.Builtin(call) == "close" {
			// inside the ack callback literal (not the goroutine)
			if enc := p.EnclosingFunc(call); enc != nil {
				if _, isLit := enc.(*ast.FuncLit); isLit {
					okClose = true
				}
			}
		}
		return true
	})
	c.Check("C19/relay/nack-select", ruleN, fn.Decl.Pos(), okSel && okClose, "the nack is not confined to the timeout arm of a select cancelled by the ack callback")
}

func fieldExpr(cl *ast.CompositeLit, name string) ast.Expr {
	for _, el := range cl.Elts {
		if kv, ok := el.(*ast.KeyValueExpr); ok {
			if id, ok := kv.Key.(*ast.Ident); ok && id.Name == name {
				return kv.Value
			}
		}
	}
	return nil
}

// elt returns the named field of a literal, or the positional element.
func elt(cl *ast.CompositeLit, i int, name string) ast.Expr {
	if e := fieldExpr(cl, name); e != nil {
		return e
	}
	if i < len(cl.Elts) {
		if _, isKV := cl.Elts[i].(*ast.KeyValueExpr); !isKV {
			return cl.Elts[i]
		}
	}
	return &ast.BadExpr{}
}

func assignedFromCall(p *core.Prog, fn *core.Func, id *ast.Ident, qual string) bool {
	obj := p.Info.Uses[id]
	ok := false
	inspectFn(fn, func(n ast.Node) bool {
		if as, isA := n.(*ast.AssignStmt); isA {
			for i, l := range as.Lhs {
				if lid, isL := l.(*ast.Ident); isL && i < len(as.Rhs) && (p.Info.Defs[lid] == obj) {
					if call, isC := ast.Unparen(as.Rhs[i]).(*ast.CallExpr); isC {
						if f := p.Callee(call); f != nil && f.Pkg() == p.Types && core.QualName(f) == qual {
							ok = true
						}
					}
				}
			}
		}
		return true
	})
	return ok
}

func checkAwareness(c *Ctx) {
	fn := c.MustFunc("awareness.ApplyDelta")
	x := c.flow(fn, map[string]string{})
	rule := "health score: after every ApplyDelta the score lies in [0, max-1] when the lock is released (below zero is raised to zero, above max-1 lowered to max-1, otherwise both tests were passed)"
	c.Rule(rule)
	n := 0
	for _, e := range x.Effects {
		if e.Class != "LOCK:Unlock:m.(embedded)" && e.Class != "LOCK:Unlock:awareness.(embedded)" && !strings.HasPrefix(e.Class, "LOCK:Unlock") {
			continue
		}
		n++
		// last value written to the score on this path
		val := ""
		if t, ok := e.Store["m.score"]; ok {
			val = untok(t.S)
		}
		ok := false
		switch {
		case val == "0":
			ok = true
		case val == "(m.max-1)":
			ok = true
		default:
			lo, hi := "", ""
			for k, v := range e.Cube {
				u := untok(k)
				if strings.HasSuffix(u, ">=0") && strings.Contains(u, "m.score") {
					lo = v
				}
				if strings.HasPrefix(u, "cmp(") && strings.Contains(u, "(m.max-1)") && strings.Contains(u, "m.score") {
					// cmp((m.max-1),score') or reversed
					if strings.Index(u, "(m.max-1)") < strings.Index(u, "m.score") {
						hi = map[string]string{"GT": "ok", "EQ": "ok", "LT": "over"}[v]
					} else {
						hi = map[string]string{"LT": "ok", "EQ": "ok", "GT": "over"}[v]
					}
				}
			}
			ok = lo == "T" && hi == "ok"
		}
		c.Check("C19/health/clamped", rule, e.Pos, ok, "score "+val+" released under {"+untok(gea.CubeString(e.Cube))+"}")
	}
	c.Floor("unlock points in ApplyDelta", n, 3)
	// callers: refutation (+1) and the probe's deferred update only
	ruleC := "health score deltas: the score is changed only by the probe's deferred update and by a refutation (+1)"
	c.Rule(ruleC)
	for _, s := range c.G.Callers(fn) {
		ok := s.Fn.Name == "Memberlist.probeNode" || (c.G.Summary(s.Fn)["ATOMICW:Memberlist.incarnation"] && c.G.Summary(s.Fn)["QB"] && s.Call != nil && len(s.Call.Args) == 1 && c.P.Canon(s.Call.Args[0]) == "1")
		c.Check("C19/health/callers/"+s.Fn.Name, ruleC, s.Pos, ok, "unexpected health-score change in "+s.Fn.Name)
	}
}

// checkProbeNode: outcome and accounting of one probe.
func checkProbeNode(c *Ctx, prop string) {
	p := c.P
	fn := c.MustFunc("Memberlist.probeNode")
	x := c.flow(fn, map[string]string{})
	// the locals the rules talk about, found by their role rather than their spelling:
	// the ack channel and the ping message handed to the registration, and the boolean the
	// fallback channel delivers
	ackName, pingName, contactName := "ackCh", "ping", "didContact"
	inspectFn(fn, func(n ast.Node) bool {
		switch v := n.(type) {
		case *ast.CallExpr:
			if f := p.Callee(v); f != nil && core.QualName(f) == "Memberlist.setProbeChannels" && len(v.Args) >= 2 {
				if se, ok := ast.Unparen(v.Args[0]).(*ast.SelectorExpr); ok {
					pingName = norm(p.Canon(se.X))
				}
				ackName = norm(p.Canon(v.Args[1]))
			}
		case *ast.RangeStmt:
			if ch, ok := p.TypeOf(v.X).Underlying().(*types.Chan); ok {
				if b, ok := ch.Elem().Underlying().(*types.Basic); ok && b.Kind() == types.Bool {
					if id, ok := v.Key.(*ast.Ident); ok {
						contactName = norm(p.Canon(id))
					}
				}
			}
		}
		return true
	})
	// wiring of the sequence number and channels
	c.flowMay(x, prop+"/probe/registration", "the probe registers its channels under the sequence number it puts in the ping, with the awareness-scaled probe interval as deadline", func(e *gea.Effect) bool { return e.Class == "CALL:Memberlist.setProbeChannels" },
		func(e *gea.Effect) (bool, string) {
			d := e.Detail
			ok := strings.HasPrefix(untok(d["arg0"]), "m.nextSeqNo()") && strings.HasPrefix(untok(d["arg3"]), "m.awareness.ScaleTimeout(m.config.ProbeInterval)")
			return ok, fmt.Sprintf("setProbeChannels(%s,..,%s)", untok(d["arg0"]), untok(d["arg3"]))
		})
	// channel capacity: non-blocking senders need IndirectChecks+1 slots
	ruleCap := "the probe's ack and nack channels are buffered for IndirectChecks+1 messages (their senders never block, so a smaller buffer silently drops an answer or the deadline marker)"
	c.Rule(ruleCap)
	ncap := 0
	inspectFn(fn, func(n ast.Node) bool {
		call, ok := n.(*ast.CallExpr)
		if !ok || p.Builtin(call) != "make" || len(call.Args) != 2 {
			return true
		}
		if _, isChan := p.TypeOf(call.Args[0]).Underlying().(interface{ Dir() interface{} }); isChan {
			return true
		}
		ts := p.Canon(call.Args[0])
		if !strings.HasPrefix(ts, "chan ") {
			return true
		}
		if ts == "chan bool" {
			return true // the fallback channel is written by one goroutine
		}
		ncap++
		co, k, lok := linear(p, call.Args[1], func(e ast.Expr) string { return norm(p.Canon(e)) })
		ok = lok && k >= 1 && co["m.config.IndirectChecks"] == 1 && len(nonzero(co)) == 1
		c.Check(prop+"/probe/channel-capacity/"+ts, ruleCap, call.Pos(), ok, "capacity "+p.Canon(call.Args[1]))
		return true
	})
	c.Floor("probe channels", ncap, 2)
	// the indirect request and the TCP fallback carry the probe's own number
	ind := false
	inspectFn(fn, func(n ast.Node) bool {
		if cl, ok := n.(*ast.CompositeLit); ok && core.NamedOf(p.TypeOf(cl)) == "indirectPingReq" {
			if e := fieldExpr(cl, "SeqNo"); e != nil && norm(p.Canon(e)) == pingName+".SeqNo" {
				ind = true
			}
		}
		return true
	})
	c.Check(prop+"/probe/indirect-seqno", "indirect requests carry the probe's own sequence number", fn.Decl.Pos(), ind, "indirectPingReq.SeqNo is not ping.SeqNo")
	// outcome: suspect only after the final non-complete message; success only on a complete ack or a positive fallback
	ruleO := "a probe ends without suspicion only on an acknowledgement marked complete, a positive TCP fallback, or a local (not remote) send failure; the suspect claim is issued only after the final wait delivered a non-complete message, and a nack never ends a probe successfully"
	c.Rule(ruleO)
	nS := 0
	for _, e := range x.Effects {
		if e.Class != "CALL:Memberlist.suspectNode" {
			continue
		}
		nS++
		final := ""
		for k, v := range e.Cube {
			if u := norm(k); strings.HasPrefix(u, "<-"+ackName+".Complete") || strings.HasPrefix(u, "recv") && strings.HasSuffix(u, ".Complete") {
				final = v
			}
		}
		contact := false
		for k, v := range e.Cube {
			if strings.HasPrefix(norm(k), contactName) && v == "T" {
				contact = true
			}
		}
		c.Check(prop+"/probe/suspect-after-deadline", ruleO, e.Pos, final == "F" && !contact, "suspect claim reachable with final message complete="+final)
		// the claim: node's incarnation and name, accused by the local node
		base := strings.TrimPrefix(e.Detail["arg0"], "&")
		inc, node, from := e.Store[base+".Incarnation"].S, e.Store[base+".Node"].S, e.Store[base+".From"].S
		c.Check(prop+"/probe/suspect-claim", "the probe's suspect claim carries the probed record's incarnation and name and is signed by the local node", e.Pos,
			norm(inc) == "node.Incarnation" && norm(node) == "node.Node.Name" && from == "m.config.Name", fmt.Sprintf("{%s %s %s}", norm(inc), norm(node), from))
	}
	c.Floor("suspect calls in the probe", nS, 1)
	nE := 0
	for _, ex := range x.Exits {
		if ex.Seen["CALL:Memberlist.suspectNode"] > 0 {
			// a failed probe never improves the health score
			continue
		}
		nE++
		ok := false
		why := "exit without suspicion that is neither a complete ack, a positive fallback nor a local failure"
		for k, v := range ex.Cube {
			u := norm(k)
			if (strings.Contains(u, ".Complete") && v == "T") || (strings.HasPrefix(u, contactName) && v == "T") {
				ok = true
			}
			if strings.HasPrefix(u, "?failedRemote(") && v == "F" {
				ok = true // local send error
			}
			if strings.HasPrefix(u, "encode(") && strings.HasSuffix(u, "==nil") && v == "F" {
				ok = true
			}
		}
		c.Check(prop+"/probe/no-suspect-only-if-answered", ruleO, ex.Pos, ok, why+" {"+norm(gea.CubeString(ex.Cube))+"}")
	}
	c.Floor("probe exits without suspicion", nE, 3)
	// health accounting via the deferred update
	ruleH := "health accounting: the deferred update lowers the score only on the paths that ended with an answer, and never lowers it on a path that ended in suspicion"
	c.Rule(ruleH)
	for _, e := range x.Effects {
		if e.Class != "CALL:awareness.ApplyDelta" {
			continue
		}
		arg := norm(e.Detail["arg0"])
		if e.Seen["CALL:Memberlist.suspectNode"] > 0 {
			nc := map[string]string{}
			for k, v := range e.Cube {
				nc[norm(k)] = v
			}
			okF := nonNegName(arg, nc, 0)
			c.Check(prop+"/probe/health-on-failure", ruleH, e.Pos, okF, "failed probe applies delta "+arg+", which is not provably >= 0 on this path (a failed probe must never improve the health score)")
		} else {
			answered := false
			for k, v := range e.Cube {
				u := norm(k)
				if (strings.Contains(u, ".Complete") && v == "T") || (strings.HasPrefix(u, contactName) && v == "T") {
					answered = true
				}
			}
			if answered {
				c.Check(prop+"/probe/health-on-success", ruleH, e.Pos, arg == "-1" || strings.HasPrefix(arg, "zero") || arg == "0", "answered probe applies delta "+arg)
			} else {
				c.Check(prop+"/probe/health-on-local-error", ruleH, e.Pos, strings.HasPrefix(arg, "zero") || arg == "0", "a probe that ended without an answer (its ping was never sent: local encode / send failure) applies delta "+arg+": the score falls although nothing was acknowledged")
			}
		}
	}
}

// splitBinName splits the canonical name "(L op R)" of a sum or difference at
// its top-level operator.
func splitBinName(s string) (l, op, r string, ok bool) {
	if len(s) < 5 || s[0] != '(' || s[len(s)-1] != ')' {
		return
	}
	depth := 0
	for i := 0; i < len(s); i++ {
		switch s[i] {
		case '(', '[', '{':
			depth++
		case ')', ']', '}':
			depth--
			if depth == 0 && i != len(s)-1 {
				return // the outer parentheses do not enclose the whole name
			}
		case '+', '-':
			if depth == 1 && i > 1 {
				return s[1:i], string(s[i]), s[i+1 : len(s)-1], true
			}
		}
	}
	return
}

// nonNegName: the integer value with this canonical name is >= 0 under the
// path condition: a non-negative constant, a length, a sum of such values, a
// difference whose minuend the path has compared >= its subtrahend, or a value
// the path has tested against a non-negative constant bound.
func nonNegName(s string, cube map[string]string, depth int) bool {
	s = strings.TrimSpace(s)
	if depth > 6 || s == "" {
		return false
	}
	if v, err := strconv.ParseInt(s, 10, 64); err == nil {
		return v >= 0
	}
	if strings.HasPrefix(s, "zero") {
		return true // the zero value of a declared variable
	}
	for k, v := range cube {
		if v == "T" && strings.HasPrefix(k, s+">=") {
			if b, err := strconv.ParseInt(k[len(s)+2:], 10, 64); err == nil && b >= 0 {
				return true
			}
		}
	}
	if l, op, r, ok := splitBinName(s); ok {
		if op == "+" {
			return nonNegName(l, cube, depth+1) && nonNegName(r, cube, depth+1)
		}
		rel := relOf(cube, l, r)
		return rel == "GT" || rel == "EQ"
	}
	if strings.HasPrefix(s, "len(") && strings.HasSuffix(s, ")") {
		return true
	}
	return false
}

// checkFallbackDeadline: the TCP fallback ping is bounded by the probe's own
// deadline: the connection's deadline is set from the deadline parameter, and
// nothing the function calls afterwards re-arms a deadline on the connection
// (a helper that sets its own, longer read deadline would let an ack that
// arrives after the probe's deadline count as contact).
func checkFallbackDeadline(c *Ctx, prop string) {
	fb := c.MustFunc("Memberlist.sendPingAndWaitForAck")
	xf := c.flow(fb, map[string]string{})
	rule := "TCP fallback: the exchange runs under the probe's own deadline - the connection deadline is the deadline parameter, and no function called after arming it sets another deadline"
	c.Rule(rule)
	nd := 0
	for _, e := range xf.Effects {
		switch {
		case strings.HasPrefix(e.Class, "DEADLINE:"):
			nd++
			c.Check(prop+"/tcp-fallback/deadline-is-probe-deadline", rule, e.Pos, e.Detail["arg0"] == "deadline", "connection deadline set to "+untok(e.Detail["arg0"])+", not the probe deadline")
		case strings.HasPrefix(e.Class, "CALL:"):
			armed := false
			for k, v := range e.Seen {
				if strings.HasPrefix(k, "DEADLINE:") && v > 0 {
					armed = true
				}
			}
			if !armed {
				continue
			}
			callee := c.P.Func(strings.TrimPrefix(e.Class, "CALL:"))
			if callee == nil {
				continue
			}
			bad := ""
			for k := range c.G.Summary(callee) {
				if strings.HasPrefix(k, "DEADLINE:") {
					bad = k
				}
			}
			c.Check(prop+"/tcp-fallback/deadline-not-overridden/"+callee.Name, rule, e.Pos, bad == "", callee.Name+" (called after the probe deadline was armed) sets its own deadline ("+strings.TrimPrefix(bad, "DEADLINE:")+"): the ack may be accepted after the probe's deadline")
		}
	}
	c.Floor("deadline arming in the TCP fallback", nd, 1)
}

// checkProbeSuspectClaim: the suspect claim a failed probe submits is about the
// record that was probed: it carries that record's incarnation (the one
// observed when the probe started), its name, and the local node as accuser.
// Stamping it with a later incarnation would let an old observation override a
// newer refutation.
func checkProbeSuspectClaim(c *Ctx, prop string) {
	pn := c.MustFunc("Memberlist.probeNode")
	x := c.flow(pn, map[string]string{})
	n := 0
	for _, e := range x.Effects {
		if e.Class != "CALL:Memberlist.suspectNode" {
			continue
		}
		n++
		base := strings.TrimPrefix(e.Detail["arg0"], "&")
		inc, node, from := e.Store[base+".Incarnation"].S, e.Store[base+".Node"].S, e.Store[base+".From"].S
		c.Check(prop+"/probe/suspect-claim", "the probe's suspect claim carries the probed record's incarnation and name and is signed by the local node", e.Pos,
			norm(inc) == "node.Incarnation" && norm(node) == "node.Node.Name" && from == "m.config.Name", fmt.Sprintf("{%s %s %s}", norm(inc), norm(node), from))
	}
	c.Floor("suspect calls in the probe", n, 1)
}
