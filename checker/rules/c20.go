package rules

import (
	"fmt"
	"go/ast"
	"go/token"
	"go/types"
	"strings"

	"golang.org/x/tools/go/cfg"

	"mlverif/core"
	"mlverif/gea"
)

func init() {
	register("C20", func(c *Ctx) {
		checkProbeScheduler(c, "C20") // the probe round is bounded (a prober that spins never sees the stop channel)
		p := c.P
		c.Assume("deadlock-freedom and race-freedom over all interleavings are not decided: the lockset / lock-order rules are necessary conditions; user callbacks re-entering the API and the time goroutines take to stop are out of scope")
		c.Assume("the local record is inserted by the bootstrap announcement (own advertise address allowed by the allow-list); see the known finding under C02 for claims about the local name arriving before it")

		// 1. the local record is never reaped; every other lookup result is nil-checked before use
		checkNilRecords(c)
		checkReaperKeepsSelf(c)

		// 2. Shutdown: ordered, exactly once, idempotent under its lock
		checkShutdown(c)

		// 3. every goroutine has a shutdown exit
		checkGoroutineExits(c)

		// 4. lock discipline for the Memberlist tables, and no use of a shared record after unlocking
		c.checkLocking("C20", map[string]string{
			"Memberlist.nodes": "Memberlist.nodeLock", "Memberlist.nodeMap": "Memberlist.nodeLock", "Memberlist.nodeTimers": "Memberlist.nodeLock",
			"Memberlist.tickers": "Memberlist.tickerLock", "Memberlist.stopTick": "Memberlist.tickerLock",
			"Memberlist.ackHandlers":   "Memberlist.ackLock",
			"Memberlist.advertiseAddr": "Memberlist.advertiseLock", "Memberlist.advertisePort": "Memberlist.advertiseLock",
		}, map[string]string{"newMemberlist": "constructor: the Memberlist is not published yet"}, 60)
		checkRecordUseAfterUnlock(c)
		checkLockOrder(c, "C20")

		// 5. Leave / UpdateNode never block past their timeout, and wait only when a live peer exists
		l := c.leaveModel()
		checkLeaveWait(c, l)
		checkAnyAlive(c)
		checkNotifyChannels(c, "C20") // the notification Leave / UpdateNode wait for cannot be dropped
		// Leave after Shutdown is the one documented panic
		for _, fn := range p.SortedFuncs() {
			if !ast.IsExported(fn.Decl.Name.Name) {
				continue
			}
			if fn.Decl.Recv == nil || core.NamedOf(p.TypeOf(fn.Decl.Recv.List[0].Type)) != "Memberlist" {
				continue
			}
			for _, s := range c.G.Sites[fn] {
				if s.Kind == "PANIC" {
					ok := false
					why := "explicit panic in exported method " + fn.Name
					if fn == l.fn {
						// must be guarded by hasShutdown
						if ifs, isIf := p.Parent(p.Parent(p.Parent(s.Node))).(*ast.IfStmt); isIf && strings.Contains(p.Canon(ifs.Cond), "hasShutdown") {
							ok = true
						}
					}
					if strings.Contains(p.Canon(s.Call.Args[0]), "meta data") {
						ok = true // documented delegate contract violation (NodeMeta longer than the limit)
					}
					c.Check("C20/api-panics/"+fn.Name, "no public call panics except the documented ones (Leave after Shutdown; a delegate returning over-long metadata)", s.Pos, ok, why)
				}
			}
		}
	})
}

// checkNilRecords: a pointer obtained from a name-table lookup is dereferenced
// only after the ok / nil test - except the local record (key = configured
// name), which is never removed.
func checkNilRecords(c *Ctx) {
	p := c.P
	rule := "every record pointer obtained from the name table is dereferenced only on the found edge; the one exception is the lookup of the local name, whose record is never removed (checked separately)"
	c.Rule(rule)
	n := 0
	// functions reachable from the exported API, goroutine entries and handlers (non-test code is all that is loaded)
	for _, fn := range p.SortedFuncs() {
		if !c.reachableFromAPI(fn) {
			continue
		}
		inspectFn(fn, func(nd ast.Node) bool {
			as, ok := nd.(*ast.AssignStmt)
			if !ok || len(as.Rhs) != 1 {
				return true
			}
			ix, ok := ast.Unparen(as.Rhs[0]).(*ast.IndexExpr)
			if !ok || p.FieldOwner(ix.X) != "Memberlist.nodeMap" {
				return true
			}
			id, ok := as.Lhs[0].(*ast.Ident)
			if !ok || id.Name == "_" {
				return true
			}
			n++
			obj := p.Info.Defs[id]
			if obj == nil {
				obj = p.Info.Uses[id]
			}
			self := strings.HasSuffix(p.Canon(ix.Index), ".config.Name")
			var okObj types.Object
			if len(as.Lhs) == 2 {
				if oid, isId := as.Lhs[1].(*ast.Ident); isId && oid.Name != "_" {
					okObj = p.Info.Defs[oid]
					if okObj == nil {
						okObj = p.Info.Uses[oid]
					}
				}
			}
			bad := unguardedDeref(c, fn, as, obj, okObj)
			good := bad == token.NoPos || self
			pos := as.Pos()
			if bad != token.NoPos {
				pos = bad
			}
			c.Check(fmt.Sprintf("C20/nil-record/%s/%s", fn.Name, norm(p.Canon(ix.Index))), rule, pos, good, "record looked up by "+norm(p.Canon(ix.Index))+" is dereferenced without a found/nil test")
			return true
		})
	}
	c.Floor("name-table lookups", n, 8)
}

// reachableFromAPI: fn is exported, a goroutine target, or reachable from one.
func (c *Ctx) reachableFromAPI(fn *core.Func) bool {
	if m, ok := c.models["apiReach"]; ok {
		return m.(map[*core.Func]bool)[fn]
	}
	reach := map[*core.Func]bool{}
	for _, f := range c.P.SortedFuncs() {
		root := ast.IsExported(f.Decl.Name.Name)
		for _, s := range c.G.Callers(f) {
			if s.InGo || s.Ref {
				root = true
			}
		}
		if root {
			for g := range c.G.Reach(f) {
				reach[g] = true
			}
		}
	}
	c.models["apiReach"] = reach
	return reach[fn]
}

// unguardedDeref finds a dereference of obj (obj.f, *obj) on a path from the
// lookup that has not passed `ok` / `obj != nil` (as a branch condition, or as
// the left operand of && in the same expression). It returns the position of
// the first such use, or NoPos.
func unguardedDeref(c *Ctx, fn *core.Func, lookup *ast.AssignStmt, obj, okObj types.Object) token.Pos {
	p := c.P
	body := fn.Decl.Body
	if enc, ok := p.EnclosingFunc(lookup).(*ast.FuncLit); ok {
		body = enc.Body
	}
	g := cfg.New(body, func(call *ast.CallExpr) bool { return p.Builtin(call) != "panic" })
	// implied: local booleans assigned from a conjunction that contains the guard
	implied := map[string]bool{}
	var establishes func(cond ast.Expr, edgeTrue bool) bool
	establishes = func(cond ast.Expr, edgeTrue bool) bool {
		switch v := ast.Unparen(cond).(type) {
		case *ast.UnaryExpr:
			if v.Op == token.NOT {
				return establishes(v.X, !edgeTrue)
			}
		case *ast.BinaryExpr:
			switch v.Op {
			case token.LAND:
				// both conjuncts hold on the true edge
				return edgeTrue && (establishes(v.X, true) || establishes(v.Y, true))
			case token.LOR:
				// both disjuncts fail on the false edge
				return !edgeTrue && (establishes(v.X, false) || establishes(v.Y, false))
			case token.NEQ, token.EQL:
				x, y := ast.Unparen(v.X), ast.Unparen(v.Y)
				if isNilIdent(p, x) {
					x, y = y, x
				}
				if id, ok := x.(*ast.Ident); ok && p.Info.Uses[id] == obj && isNilIdent(p, y) {
					return edgeTrue == (v.Op == token.NEQ)
				}
			}
		case *ast.Ident:
			if o := p.Info.Uses[v]; o != nil {
				if okObj != nil && o == okObj {
					return edgeTrue
				}
				if implied[p.VarKey(o)] {
					return edgeTrue
				}
			}
		}
		return false
	}
	var firstUse func(n ast.Node) token.Pos
	firstUse = func(n ast.Node) token.Pos {
		pos := token.NoPos
		ast.Inspect(n, func(m ast.Node) bool {
			if pos != token.NoPos {
				return false
			}
			switch v := m.(type) {
			case *ast.FuncLit:
				return false
			case *ast.BinaryExpr:
				if v.Op == token.LAND || v.Op == token.LOR {
					if q := firstUse(v.X); q != token.NoPos {
						pos = q
						return false
					}
					if !establishes(v.X, v.Op == token.LAND) {
						pos = firstUse(v.Y)
					}
					return false
				}
			case *ast.SelectorExpr:
				if id, ok := ast.Unparen(v.X).(*ast.Ident); ok && p.Info.Uses[id] == obj {
					pos = v.Pos()
					return false
				}
			case *ast.StarExpr:
				if id, ok := ast.Unparen(v.X).(*ast.Ident); ok && p.Info.Uses[id] == obj {
					pos = v.Pos()
					return false
				}
			}
			return true
		})
		return pos
	}
	// local booleans assigned (once) from an expression whose truth establishes the guard
	assignCount := map[string]int{}
	ast.Inspect(body, func(n ast.Node) bool {
		if as, ok := n.(*ast.AssignStmt); ok {
			for _, l := range as.Lhs {
				if id, ok := l.(*ast.Ident); ok {
					if o := p.Info.ObjectOf(id); o != nil {
						assignCount[p.VarKey(o)]++
					}
				}
			}
		}
		return true
	})
	ast.Inspect(body, func(n ast.Node) bool {
		if as, ok := n.(*ast.AssignStmt); ok && len(as.Lhs) == 1 && len(as.Rhs) == 1 {
			if id, ok := as.Lhs[0].(*ast.Ident); ok {
				if o := p.Info.ObjectOf(id); o != nil && assignCount[p.VarKey(o)] == 1 && establishes(as.Rhs[0], true) {
					implied[p.VarKey(o)] = true
				}
			}
		}
		return true
	})
	reassigned := func(n ast.Node) bool {
		as, ok := n.(*ast.AssignStmt)
		if !ok || n == ast.Node(lookup) {
			return false
		}
		for i, l := range as.Lhs {
			if id, ok := l.(*ast.Ident); ok && p.Info.Uses[id] == obj && i < len(as.Rhs) && compositeLit(as.Rhs[i]) != nil {
				return true
			}
		}
		return false
	}
	type st struct{ started, guarded bool }
	in := map[*cfg.Block]*st{}
	var work []*cfg.Block
	for _, b := range g.Blocks {
		for _, n := range b.Nodes {
			if n == ast.Node(lookup) {
				in[b] = &st{}
				work = append(work, b)
			}
		}
	}
	bad := token.NoPos
	visits := map[*cfg.Block]int{}
	for len(work) > 0 {
		b := work[0]
		work = work[1:]
		cur := *in[b]
		var cond ast.Expr
		for i, n := range b.Nodes {
			if n == ast.Node(lookup) {
				cur.started, cur.guarded = true, false
				continue
			}
			if !cur.started {
				continue
			}
			if e, isE := n.(ast.Expr); isE && len(b.Succs) == 2 && i == len(b.Nodes)-1 {
				cond = e
			}
			if reassigned(n) {
				cur.guarded = true // now points to a freshly built record
				continue
			}
			if !cur.guarded && bad == token.NoPos {
				if pos := firstUse(n); pos != token.NoPos {
					bad = pos
				}
			}
		}
		for i, s := range b.Succs {
			nxt := cur
			if cond != nil && cur.started && establishes(cond, i == 0) {
				nxt.guarded = true
			}
			old, seen := in[s]
			if !seen {
				cp := nxt
				in[s] = &cp
				work = append(work, s)
				continue
			}
			merged := st{started: old.started || nxt.started, guarded: old.guarded && nxt.guarded}
			if !old.started {
				merged.guarded = nxt.guarded
			}
			if !nxt.started {
				merged.guarded = old.guarded
			}
			if merged != *old && visits[s] < 8 {
				visits[s]++
				*old = merged
				work = append(work, s)
			}
		}
	}
	return bad
}

// checkReaperKeepsSelf: the name-table delete in the reaper is never applied to the local name.
func checkReaperKeepsSelf(c *Ctx) {
	p := c.P
	var reaper *core.Func
	for _, fn := range p.SortedFuncs() {
		if isReaper(c, fn) {
			reaper = fn
		}
	}
	if reaper == nil {
		fail("anchor unresolved: reaper")
	}
	rule := "the local node's own record is never removed from the name table (the query API dereferences it at every lifecycle stage, also after Leave and after its departed record aged out)"
	c.Rule(rule)
	n := 0
	for _, fn := range p.SortedFuncs() {
		for _, s := range c.G.Sites[fn] {
			if s.Kind != "MAPDEL:Memberlist.nodeMap" {
				continue
			}
			n++
			// every path to the delete has compared the deleted key with the configured name and
			// found them different (read from the exploration, so the test may be spelled any way)
			x := c.flow(fn, map[string]string{})
			ok := true
			key := p.Canon(s.Call.Args[1])
			seen := 0
			for _, e := range x.Effects {
				if e.Class != "MAPDEL:Memberlist.nodeMap" || e.Pos != s.Pos {
					continue
				}
				seen++
				kv := e.Detail["key"]
				eq := ""
				if kv < "m.config.Name" {
					eq = e.Cube["eq("+kv+",m.config.Name)"]
				} else {
					eq = e.Cube["eq(m.config.Name,"+kv+")"]
				}
				if eq != "F" {
					ok = false
				}
			}
			if seen == 0 {
				ok = false
			}
			c.Check("C20/self-record-kept/"+fn.Name, rule, s.Pos, ok, "name-table delete of "+norm(key)+" is not guarded against the local name: after Leave and one reaping pass LocalNode / UpdateNode dereference a nil record")
		}
	}
	c.Floor("name-table deletes", n, 1)
}

func lineOf(p *core.Prog, fn *core.Func) string {
	if fn.Decl.Recv != nil && len(fn.Decl.Recv.List[0].Names) > 0 {
		return fmt.Sprint(p.Fset.Position(fn.Decl.Recv.List[0].Names[0].Pos()).Line)
	}
	return ""
}

// checkShutdown: transport first, then flag, close, deschedule - each exactly
// once, all behind a not-yet-shut-down test made under the shutdown lock.
func checkShutdown(c *Ctx) {
	fn := c.MustFunc("Memberlist.Shutdown")
	rule := "Shutdown: under its lock and behind a not-yet-shut-down test made while holding that lock, the transport is shut down first, then the flag stored, the shutdown channel closed and the tickers descheduled, each exactly once (idempotent and safe to call concurrently)"
	c.Rule(rule)
	lockL, lockU := "LOCK:Lock:m.shutdownLock", "LOCK:Unlock:m.shutdownLock"
	order := []string{"TRANSPORT:Shutdown", "ATOMICW:Memberlist.shutdown", "CLOSE", "CALL:Memberlist.deschedule"}
	x2 := c.flow(fn, map[string]string{})
	n := 0
	for _, e := range x2.Effects {
		idx := -1
		for i, k := range order {
			if e.Class == k {
				idx = i
			}
		}
		if idx < 0 {
			continue
		}
		n++
		ok := e.Seen[lockL] == 1 && e.Seen[lockU] == 0 && e.Cube["shutdown"] == "F" && e.Seen[e.Class] == 0
		why := ""
		if !ok {
			why = "teardown step outside the lock / without the not-shut-down test / repeated"
		}
		for i, k := range order {
			if i < idx && e.Seen[k] != 1 {
				ok, why = false, e.Class+" before "+k
			}
			if i > idx && e.Seen[k] != 0 {
				ok, why = false, k+" before "+e.Class
			}
		}
		// the flag test that lets us in must have been made under the lock
		checked := false
		for _, e2 := range x2.Effects {
			if e2.Class == "CHECK:shutdown" && e2.Seen[lockL] == 1 && e2.Seen[lockU] == 0 {
				compat := true
				for k, v := range e2.Cube {
					if w, has := e.Cube[k]; has && w != v {
						compat = false
					}
				}
				if compat {
					checked = true
				}
			}
		}
		if !checked {
			ok, why = false, "the shut-down flag is tested before the lock is taken and not again under it: two concurrent Shutdown calls both pass the test, the transport is torn down twice and the second close(shutdownCh) panics"
		}
		c.Check("C20/shutdown/order/"+e.Class, rule, e.Pos, ok, why)
	}
	c.Floor("teardown steps in Shutdown", n, 4)
	for _, ex := range x2.Exits {
		if ex.Cube["shutdown"] == "F" {
			all := true
			for _, k := range order {
				if ex.Seen[k] != 1 {
					all = false
				}
			}
			c.Check("C20/shutdown/complete", rule, ex.Pos, all, "a first Shutdown returns without all teardown steps")
		}
	}
	// deschedule is idempotent: closes the stop channel only while the scheduler is marked as
	// running, and removes the mark; schedule sets that mark whenever it started a goroutine
	ds := c.MustFunc("Memberlist.deschedule")
	xd := c.flow(ds, map[string]string{})
	ruleD := "deschedule: closes the stop channel under the ticker lock, only on a path that found the scheduler marked as running (tickers present, or a stop channel recorded), and removes that mark afterwards (idempotent)"
	mode := ""
	c.flowMay(xd, "C20/deschedule", ruleD, func(e *gea.Effect) bool { return e.Class == "CLOSE" }, func(e *gea.Effect) (bool, string) {
		guarded := false
		if v, ok := atomU(e.Cube, "len(m.tickers)>=1"); ok && v == "T" {
			guarded = true
		}
		if v, ok := atomU(e.Cube, "m.stopTick==nil"); ok && v == "F" {
			guarded = true
		}
		return guarded && e.Seen["LOCK:Lock:m.tickerLock"] == 1 && e.Seen["LOCK:Unlock:m.tickerLock"] == 0 && e.Detail["chan"] == "m.stopTick", "close of " + e.Detail["chan"] + " not guarded by the running mark under the ticker lock"
	})
	for _, ex := range xd.Exits {
		if ex.Seen["CLOSE"] > 0 {
			cleared := false
			if v, ok := atomU(ex.Cube, "len(m.tickers)>=1"); ok && v == "T" && ex.Seen["W:Memberlist.tickers"] >= 1 {
				cleared = true
			}
			if v, ok := atomU(ex.Cube, "m.stopTick==nil"); ok && v == "F" && ex.Seen["W:Memberlist.stopTick"] >= 1 {
				cleared = true
			}
			c.Check("C20/deschedule/clears", ruleD, ex.Pos, cleared, "the mark that guards the close is not removed after closing the stop channel (a second call would close it again)")
			continue
		}
		// the path that does nothing: which mark says "not running"?
		if v, ok := atomU(ex.Cube, "m.stopTick==nil"); ok && v == "T" {
			mode = "stop"
		} else if v, ok := atomU(ex.Cube, "len(m.tickers)>=1"); ok && v == "F" && mode == "" {
			mode = "tickers"
		}
	}
	ruleS := "every goroutine the scheduler starts can be stopped: on every path of schedule that started one, the stop channel it listens on is recorded and the mark deschedule tests before closing it is set (a push/pull trigger has no ticker of its own)"
	c.Rule(ruleS)
	sc := c.MustFunc("Memberlist.schedule")
	xs := c.flow(sc, map[string]string{})
	ng := 0
	for _, ex := range xs.Exits {
		if ex.Seen["GO"] == 0 {
			continue
		}
		infeasible := false
		for k, v := range ex.Cube {
			if u := untok(k); strings.HasPrefix(u, "len(append(") && strings.HasSuffix(u, ">=1") && v == "F" {
				infeasible = true // the result of an append with an element is never empty
			}
		}
		if infeasible {
			continue
		}
		ng++
		ok := ex.Seen["W:Memberlist.stopTick"] >= 1
		why := "the stop channel is not recorded"
		if ok && mode != "stop" && ex.Seen["W:Memberlist.tickers"] == 0 {
			ok = false
			why = "no ticker is registered, and deschedule closes the stop channel only when tickers exist"
		}
		c.Check("C20/schedule/stoppable", ruleS, ex.Pos, ok, "schedule started a goroutine on the path {"+untok(gea.CubeString(ex.Cube))+"} but "+why+": it keeps running (and exchanging state) after Shutdown")
	}
	c.Floor("paths of schedule that start a goroutine", ng, 3)
}

// checkGoroutineExits: every unconditional loop run by a goroutine of the
// package has an exit guarded by the shutdown / stop channel or the
// transport's shutdown flag.
func checkGoroutineExits(c *Ctx) {
	p := c.P
	rule := "all background activity can end: every unconditional for-loop in a function started with `go` (or in a goroutine literal) contains an exit (return/break) guarded by a receive from the shutdown or stop channel, or by the transport's shutdown flag"
	c.Rule(rule)
	targets := map[*core.Func]bool{}
	var lits []*ast.FuncLit
	for _, fn := range p.SortedFuncs() {
		inspectFn(fn, func(n ast.Node) bool {
			gs, ok := n.(*ast.GoStmt)
			if !ok {
				return true
			}
			if fl, ok := ast.Unparen(gs.Call.Fun).(*ast.FuncLit); ok {
				lits = append(lits, fl)
			} else if f := p.Callee(gs.Call); f != nil && p.ByObj[f] != nil {
				targets[p.ByObj[f]] = true
			}
			return true
		})
	}
	n := 0
	checkBody := func(name string, body *ast.BlockStmt) {
		ast.Inspect(body, func(nd ast.Node) bool {
			fs, ok := nd.(*ast.ForStmt)
			if !ok || fs.Cond != nil {
				return true
			}
			// a loop nested in another loop of the same body only needs some exit of its own
			nested := false
			for cur := p.Parent(fs); cur != nil && cur != ast.Node(body); cur = p.Parent(cur) {
				if _, isFor := cur.(*ast.ForStmt); isFor {
					nested = true
				}
				if _, isLit := cur.(*ast.FuncLit); isLit {
					break
				}
			}
			if nested {
				has := false
				ast.Inspect(fs.Body, func(m ast.Node) bool {
					switch v := m.(type) {
					case *ast.BranchStmt:
						if v.Tok == token.BREAK {
							has = true
						}
					case *ast.ReturnStmt:
						has = true
					}
					return true
				})
				c.Check("C20/goroutine-exit/"+name+"/inner", rule, fs.Pos(), has, "inner unconditional loop without any exit")
				return true
			}
			n++
			okExit := false
			ast.Inspect(fs.Body, func(m ast.Node) bool {
				switch v := m.(type) {
				case *ast.CommClause:
					if v.Comm == nil {
						return true
					}
					recv := ""
					if es, isE := v.Comm.(*ast.ExprStmt); isE {
						if u, isU := ast.Unparen(es.X).(*ast.UnaryExpr); isU && u.Op == token.ARROW {
							recv = p.Canon(u.X)
						}
					}
					if strings.HasSuffix(recv, ".shutdownCh") || strings.HasPrefix(norm(recv), "stop") {
						for _, s := range v.Body {
							if r, isR := s.(*ast.ReturnStmt); isR {
								_ = r
								okExit = true
							}
							if br, isB := s.(*ast.BranchStmt); isB && br.Tok == token.BREAK && br.Label != nil {
								okExit = true
							}
						}
					}
				case *ast.IfStmt:
					cond := p.Canon(v.Cond)
					init := ""
					if as, isA := v.Init.(*ast.AssignStmt); isA && len(as.Rhs) == 1 {
						init = p.Canon(as.Rhs[0])
					}
					if strings.Contains(cond+init, ".shutdown.Load()") {
						for _, s := range v.Body.List {
							if br, isB := s.(*ast.BranchStmt); isB && br.Tok == token.BREAK {
								okExit = true
							}
							if _, isR := s.(*ast.ReturnStmt); isR {
								okExit = true
							}
						}
					}
				}
				return true
			})
			c.Check("C20/goroutine-exit/"+name, rule, fs.Pos(), okExit, "unconditional loop in goroutine "+name+" has no exit guarded by the shutdown/stop channel or the transport's shutdown flag")
			return true
		})
	}
	for fn := range targets {
		c.Funcs[fn.Name] = true
		checkBody(fn.Name, fn.Decl.Body)
	}
	for _, fl := range lits {
		enc := p.EnclosingDecl(fl)
		name := "func@?"
		if enc != nil {
			name = enc.Name + "$go"
		}
		checkBody(name, fl.Body)
	}
	c.Floor("unconditional loops in goroutines", n, 6)
	c.Extra["goroutine_targets"] = len(targets) + len(lits)
}

// checkRecordUseAfterUnlock: a record pointer taken from the tables under the
// node lock must not be dereferenced after the lock is released in the same
// function (copy what is needed while holding the lock).
func checkRecordUseAfterUnlock(c *Ctx) {
	p := c.P
	rule := "shared records are read only under the node lock: a pointer taken from the name table / member list while holding the lock is not dereferenced after the lock has been released in the same function"
	c.Rule(rule)
	la := newLockAnalysis(c, map[string]string{})
	_ = la
	n := 0
	for _, fn := range p.SortedFuncs() {
		if !c.reachableFromAPI(fn) {
			continue
		}
		// variables assigned from m.nodeMap[...] or &X.Node of such
		ptrs := map[types.Object]token.Pos{}
		inspectFn(fn, func(nd ast.Node) bool {
			as, ok := nd.(*ast.AssignStmt)
			if !ok || len(as.Rhs) != 1 {
				return true
			}
			rhs := ast.Unparen(as.Rhs[0])
			src := false
			if ix, ok := rhs.(*ast.IndexExpr); ok && (p.FieldOwner(ix.X) == "Memberlist.nodeMap" || p.FieldOwner(ix.X) == "Memberlist.nodes") {
				src = true
			}
			if u, ok := rhs.(*ast.UnaryExpr); ok && u.Op == token.AND {
				if se, ok := ast.Unparen(u.X).(*ast.SelectorExpr); ok {
					if id, ok := ast.Unparen(se.X).(*ast.Ident); ok {
						if _, tracked := ptrs[p.Info.Uses[id]]; tracked {
							src = true
						}
					}
				}
			}
			if !src {
				return true
			}
			if id, ok := as.Lhs[0].(*ast.Ident); ok && id.Name != "_" {
				o := p.Info.Defs[id]
				if o == nil {
					o = p.Info.Uses[id]
				}
				if _, isPtr := o.Type().Underlying().(*types.Pointer); isPtr {
					ptrs[o] = as.Pos()
				}
			}
			return true
		})
		if len(ptrs) == 0 {
			continue
		}
		// lockset at every dereference of those pointers
		held := locksetAt(c, fn)
		for _, use := range held {
			if _, tracked := ptrs[use.obj]; !tracked {
				continue
			}
			n++
			c.Check(fmt.Sprintf("C20/record-under-lock/%s/%s", fn.Name, use.obj.Name()), rule, use.pos, use.held, "record pointer "+use.obj.Name()+" is dereferenced after the node lock was released")
		}
	}
	c.Floor("dereferences of table records", n, 10)
}

type derefUse struct {
	obj  types.Object
	pos  token.Pos
	held bool
}

// locksetAt computes, for each dereference (x.f) of a pointer variable in fn,
// whether the node lock is held there (read or write).
func locksetAt(c *Ctx, fn *core.Func) []derefUse {
	out, _ := locksetWalk(c, fn, 0)
	return out
}

// entryHeld: a helper introduced after the review that is only called
// directly (not as a value, not under go, not from a function literal) at
// sites where the node lock is held starts with the lock held.
func entryHeld(c *Ctx, fn *core.Func, depth int) int {
	if pinnedFuncs[fn.Name] || depth > 3 {
		return 0
	}
	callers := c.G.Callers(fn)
	if len(callers) == 0 {
		return 0
	}
	for _, s := range callers {
		if s.Ref || s.InGo || s.Call == nil || c.P.EnclosingFunc(s.Call) != ast.Node(s.Fn.Decl) || s.Fn == fn {
			return 0
		}
		_, calls := locksetWalk(c, s.Fn, depth+1)
		if calls[s.Call.Pos()] != 1 {
			return 0
		}
	}
	return 1
}

func locksetWalk(c *Ctx, fn *core.Func, depth int) ([]derefUse, map[token.Pos]int) {
	calls := map[token.Pos]int{}
	out := locksetBody(c, fn.Decl.Body, entryHeld(c, fn, depth), calls)
	return out, calls
}

// locksetBody walks one body (a declaration's or a literal's). A literal that
// may run synchronously starts with the lock state at the point where it is
// created; a detached one (closures.go) starts without the lock.
func locksetBody(c *Ctx, body *ast.BlockStmt, entry int, calls map[token.Pos]int) []derefUse {
	p := c.P
	var out []derefUse
	g := cfg.New(body, func(call *ast.CallExpr) bool { return p.Builtin(call) != "panic" })
	if len(g.Blocks) == 0 {
		return nil
	}
	in := map[*cfg.Block]int{g.Blocks[0]: entry} // 0 not held, 1 held
	seen := map[*cfg.Block]bool{g.Blocks[0]: true}
	work := []*cfg.Block{g.Blocks[0]}
	step := func(b *cfg.Block, h int, record bool) int {
		for _, n := range b.Nodes {
			if ds, ok := n.(*ast.DeferStmt); ok {
				if mu, op := mutexName(p, ds.Call); mu == "Memberlist.nodeLock" && (op == "Unlock" || op == "RUnlock") {
					continue
				}
			}
			ast.Inspect(n, func(m ast.Node) bool {
				if fl, isLit := m.(*ast.FuncLit); isLit {
					if record {
						e := h
						if c.detachedLit(fl) {
							e = 0
						}
						out = append(out, locksetBody(c, fl.Body, e, calls)...)
					}
					return false
				}
				switch v := m.(type) {
				case *ast.CallExpr:
					if mu, op := mutexName(p, v); mu == "Memberlist.nodeLock" {
						switch op {
						case "Lock", "RLock":
							h = 1
						case "Unlock", "RUnlock":
							h = 0
						}
					}
					if record {
						calls[v.Pos()] = h
					}
				case *ast.SelectorExpr:
					if record {
						if id, ok := ast.Unparen(v.X).(*ast.Ident); ok {
							if o := p.Info.Uses[id]; o != nil {
								if _, isPtr := o.Type().Underlying().(*types.Pointer); isPtr && p.Info.Selections[v] != nil && p.Info.Selections[v].Kind() == types.FieldVal {
									if fv, _ := p.Info.Selections[v].Obj().(*types.Var); fv != nil && !c.writtenFields()[fv] {
										// a field nobody assigns after construction (a record's name): reading it needs no lock
										return true
									}
									out = append(out, derefUse{o, v.Pos(), h == 1})
								}
							}
						}
					}
				}
				return true
			})
		}
		return h
	}
	for len(work) > 0 {
		b := work[0]
		work = work[1:]
		h := step(b, in[b], false)
		for _, s := range b.Succs {
			if !seen[s] {
				seen[s] = true
				in[s] = h
				work = append(work, s)
			} else if h < in[s] {
				in[s] = h
				work = append(work, s)
			}
		}
	}
	for _, b := range g.Blocks {
		if seen[b] {
			step(b, in[b], true)
		}
	}
	return out
}

// writtenFields: the struct fields some statement of the package assigns
// (x.f = v, x.f op= v, x.f++) or takes the address of. A field outside this
// set is fixed when its struct is built.
func (c *Ctx) writtenFields() map[*types.Var]bool {
	if m, ok := c.models["writtenFields"]; ok {
		return m.(map[*types.Var]bool)
	}
	p := c.P
	out := map[*types.Var]bool{}
	add := func(e ast.Expr) {
		for {
			switch v := ast.Unparen(e).(type) {
			case *ast.SelectorExpr:
				if fv := p.SelField(v); fv != nil {
					out[fv] = true
				}
				e = v.X
				continue
			case *ast.IndexExpr:
				e = v.X
				continue
			case *ast.StarExpr:
				e = v.X
				continue
			}
			return
		}
	}
	for _, f := range p.Files {
		ast.Inspect(f, func(n ast.Node) bool {
			switch v := n.(type) {
			case *ast.AssignStmt:
				for _, l := range v.Lhs {
					add(l)
				}
			case *ast.IncDecStmt:
				add(v.X)
			case *ast.UnaryExpr:
				if v.Op == token.AND {
					add(v.X)
				}
			case *ast.RangeStmt:
				if v.Key != nil {
					add(v.Key)
				}
				if v.Value != nil {
					add(v.Value)
				}
			}
			return true
		})
	}
	c.models["writtenFields"] = out
	return out
}

// checkLockOrder: the held -> acquired relation over the package (through
// calls) has no cycle.
func checkLockOrder(c *Ctx, prop string) {
	p := c.P
	rule := "lock order: the relation 'acquired while holding' over the package's mutexes (through calls) is acyclic"
	c.Rule(rule)
	la := newLockAnalysis(c, map[string]string{})
	// acquires(f): mutexes f may acquire, transitively
	direct := map[*core.Func]map[string]bool{}
	for _, fn := range p.SortedFuncs() {
		direct[fn] = map[string]bool{}
		ast.Inspect(fn.Decl.Body, func(n ast.Node) bool { // helpers are reached through SyncReach below
			if fl, ok := n.(*ast.FuncLit); ok && c.detachedLit(fl) {
				return false // runs on another goroutine, never under the creator's locks
			}
			if call, ok := n.(*ast.CallExpr); ok {
				if mu, op := mutexName(p, call); mu != "" && (op == "Lock" || op == "RLock") {
					direct[fn][mu] = true
				}
			}
			return true
		})
	}
	acq := map[*core.Func]map[string]bool{}
	for _, fn := range p.SortedFuncs() {
		acq[fn] = map[string]bool{}
		for g := range c.G.SyncReach(fn) {
			for mu := range direct[g] {
				acq[fn][mu] = true
			}
		}
	}
	// a closure that acquires a mutex which is held where the closure is created must be
	// detached: it may only ever be started by a go statement or time.AfterFunc
	ruleD := "a closure that takes a mutex held at the point where the closure is created (the suspicion timeout callback takes the node lock) is never run on the creating goroutine: every use of the closure, of the variable, parameter or struct field it flows through, is a go statement or time.AfterFunc"
	c.Rule(ruleD)
	ncl := 0
	ord := map[string]int{}
	for _, u := range la.units {
		if u.Lit == nil {
			continue
		}
		takes := map[string]bool{}
		ast.Inspect(u.Lit.Body, func(n ast.Node) bool {
			if call, ok := n.(*ast.CallExpr); ok {
				if mu, op := mutexName(p, call); mu != "" && (op == "Lock" || op == "RLock") {
					takes[mu] = true
				}
				if f := p.Callee(call); f != nil && p.ByObj[f] != nil {
					if _, isGo := p.Parent(call).(*ast.GoStmt); !isGo {
						for mu := range acq[p.ByObj[f]] {
							takes[mu] = true
						}
					}
				}
			}
			return true
		})
		for mu := range takes {
			if u.Created[mu] == 0 || u.Entry[mu] != 0 {
				continue
			}
			ncl++
			root := c.rootsOf(u.Fn)[0].Name
			ord[root+"/"+mu]++
			c.Check(fmt.Sprintf("%s/lock-order/closure-detached/%s/%s/%d", prop, root, mu, ord[root+"/"+mu]), ruleD, u.Lit.Pos(), c.detachedLit(u.Lit),
				fmt.Sprintf("closure created in %s while %s is held takes %s itself and may run synchronously (a use of it, or of the variable/parameter/field it flows through, is neither a go statement nor time.AfterFunc)", u.Fn.Name, mu, mu))
		}
	}
	c.Floor("closures taking a mutex held at their creation", ncl, 1)
	edges := map[string]map[string]string{}
	addEdge := func(a, b, why string) {
		if a == b {
			return
		}
		if edges[a] == nil {
			edges[a] = map[string]string{}
		}
		if _, ok := edges[a][b]; !ok {
			edges[a][b] = why
		}
	}
	for _, u := range la.units {
		for _, a := range u.Acc {
			if a.Call == nil {
				continue
			}
			callee := p.ByObj[a.Call]
			for held := range a.Held {
				for mu := range acq[callee] {
					addEdge(held, mu, fmt.Sprintf("%s calls %s at %s", u.Name, callee.Name, p.Pos(a.Pos)))
				}
			}
		}
	}
	// re-entry: a call made while holding a mutex must not (transitively, synchronously)
	// acquire that same mutex again - sync.Mutex is not reentrant, and a nested RLock on a
	// sync.RWMutex deadlocks as soon as a writer queues between the two acquisitions
	ruleR := "no lock re-entry: no call made while a mutex is held acquires the same mutex again (a nested read lock deadlocks once a writer is waiting)"
	c.Rule(ruleR)
	nre := 0
	for _, u := range la.units {
		for _, a := range u.Acc {
			if a.Call == nil {
				continue
			}
			callee := p.ByObj[a.Call]
			if callee == nil {
				continue
			}
			for held := range a.Held {
				nre++
				c.Check(fmt.Sprintf("%s/lock-order/no-reentry/%s->%s/%s", prop, u.Name, callee.Name, held), ruleR, a.Pos, !acq[callee][held],
					fmt.Sprintf("%s calls %s while holding %s, and %s (or a function it calls) acquires %s again", u.Name, callee.Name, held, callee.Name, held))
			}
		}
	}
	c.Extra["calls_under_lock"] = nre
	// direct nesting inside one function: Lock(b) while a held
	for _, fn := range p.SortedFuncs() {
		held := map[string]bool{}
		inspectFn(fn, func(n ast.Node) bool {
			if _, isLit := n.(*ast.FuncLit); isLit {
				return false
			}
			if call, ok := n.(*ast.CallExpr); ok {
				if mu, op := mutexName(p, call); mu != "" {
					switch op {
					case "Lock", "RLock":
						for h := range held {
							addEdge(h, mu, fn.Name+" at "+p.Pos(call.Pos()))
						}
						held[mu] = true
					case "Unlock", "RUnlock":
						if ds, isDefer := p.Parent(call).(*ast.DeferStmt); !isDefer || ds == nil {
							delete(held, mu)
						}
					}
				}
			}
			return true
		})
	}
	// cycle detection
	color := map[string]int{}
	var cyc []string
	var dfs func(n string, path []string) bool
	dfs = func(n string, path []string) bool {
		color[n] = 1
		for m := range edges[n] {
			if color[m] == 1 {
				cyc = append(append([]string{}, path...), n, m)
				return true
			}
			if color[m] == 0 && dfs(m, append(path, n)) {
				return true
			}
		}
		color[n] = 2
		return false
	}
	ne := 0
	for a := range edges {
		ne += len(edges[a])
	}
	found := false
	for a := range edges {
		if color[a] == 0 && dfs(a, nil) {
			found = true
			break
		}
	}
	why := ""
	if found {
		why = "lock-order cycle: " + strings.Join(cyc, " -> ")
	}
	c.Check(prop+"/lock-order/acyclic", rule, token.NoPos, !found, why)
	c.Extra["lock_order_edges"] = ne
}

// checkAnyAlive: the "another live member exists" test used before waiting
// for a broadcast is true exactly for a record that is not dead/left and not
// the local node.
func checkAnyAlive(c *Ctx) {
	p := c.P
	fn := c.MustFunc("Memberlist.anyAlive")
	rule := "Leave/UpdateNode wait for their broadcast only if some other member is alive or suspect (a member that is dead or has left never receives gossip, so waiting on it would block until the timeout - or forever without one)"
	c.Rule(rule)
	ok := false
	why := "no range over the member list returning true for a live non-local record"
	inspectFn(fn, func(n ast.Node) bool {
		rs, isR := n.(*ast.RangeStmt)
		if !isR || p.FieldOwner(rs.X) != "Memberlist.nodes" || len(rs.Body.List) != 1 {
			return true
		}
		ifs, isIf := rs.Body.List[0].(*ast.IfStmt)
		if !isIf {
			return true
		}
		x := gea.New(p, fn.Name+"$cond", fn.Decl.Type, &ast.BlockStmt{}, gea.Base{})
		x.DeclareVar("S", stateDom)
		if id, isId := rs.Value.(*ast.Ident); isId {
			x.SetAlias(p.Info.Defs[id], "n")
		}
		x.SetAlias(p.Info.Defs[fn.Decl.Recv.List[0].Names[0]], "m")
		st := (&gea.State{Cube: map[string]string{}, Store: map[string]gea.Term{}, Seen: map[string]int{}}).Bind("n.State", gea.Ref("S"))
		good, cnt := true, 0
		for _, o := range x.EvalBool(st, ifs.Cond, nil) {
			s, hasS := o.St.Cube["S"]
			selfEq := ""
			for k, v := range o.St.Cube {
				if strings.HasPrefix(k, "eq(") && strings.Contains(k, "config.Name") {
					selfEq = v
				}
			}
			if !hasS {
				// the state was not consulted on this outcome: only allowed when the result is false because it is the local node
				if o.V || selfEq != "T" {
					good = false
				}
				continue
			}
			cnt++
			want := !deadOrLeft(s) && selfEq == "F"
			if selfEq == "" {
				want = false
				if !deadOrLeft(s) {
					good = false // name not consulted for a live record
				}
			}
			if o.V != want {
				good = false
			}
		}
		ret := false
		for _, s := range ifs.Body.List {
			if r, isRet := s.(*ast.ReturnStmt); isRet && len(r.Results) == 1 && p.Canon(r.Results[0]) == "true" {
				ret = true
			}
		}
		if good && cnt >= 4 && ret {
			ok = true
		} else {
			why = "the test is not equivalent to (not dead, not left, not the local node) over the four states"
		}
		return true
	})
	c.Check("C20/any-alive", rule, fn.Decl.Pos(), ok, why)
	// used by both waits
	for _, name := range []string{"Memberlist.Leave", "Memberlist.UpdateNode"} {
		f := c.MustFunc(name)
		uses := false
		for _, g := range append([]*core.Func{f}, helpersOf(f)...) {
			for _, s := range c.G.Sites[g] {
				if s.Kind == "CALL" && s.To == fn.Obj {
					uses = true
				}
			}
		}
		c.Check("C20/any-alive/used/"+name, rule, f.Decl.Pos(), uses, name+" waits without the live-peer test")
	}
}
