package rules

import (
	"go/ast"
	"go/types"

	"mlverif/core"
)

// Detached closures.
//
// A function literal is *detached* when no path lets it run on the goroutine
// that evaluates it while that goroutine still holds its locks: it is the
// operand of a go statement, it is handed to time.AfterFunc, or it only flows
// (through a local variable, a parameter of a package function, a nested
// literal or a struct field) to such places. The analysis is a closed,
// syntactic flow over the resolved program: every use of the variable,
// parameter or field must be one of the accepted forms, otherwise the literal
// counts as possibly synchronous.

type detachCtx struct {
	c     *Ctx
	busy  map[any]bool
	memoL map[*ast.FuncLit]bool
	doneL map[*ast.FuncLit]bool
}

func (c *Ctx) detach() *detachCtx {
	if d, ok := c.models["detach"]; ok {
		return d.(*detachCtx)
	}
	d := &detachCtx{c: c, busy: map[any]bool{}, memoL: map[*ast.FuncLit]bool{}, doneL: map[*ast.FuncLit]bool{}}
	c.models["detach"] = d
	return d
}

// detachedLit: see the file comment.
func (c *Ctx) detachedLit(fl *ast.FuncLit) bool {
	d := c.detach()
	if d.doneL[fl] {
		return d.memoL[fl]
	}
	if d.busy[fl] {
		return false
	}
	d.busy[fl] = true
	r := d.lit(fl)
	delete(d.busy, fl)
	d.doneL[fl] = true
	d.memoL[fl] = r
	return r
}

func (d *detachCtx) parentSkipParen(n ast.Node) (ast.Node, ast.Node) {
	p := d.c.P
	child := n
	par := p.Parent(n)
	for {
		if pe, ok := par.(*ast.ParenExpr); ok {
			child = pe
			par = p.Parent(pe)
			continue
		}
		return par, child
	}
}

func (d *detachCtx) lit(fl *ast.FuncLit) bool {
	par, child := d.parentSkipParen(fl)
	return d.valueUse(par, child)
}

// valueUse: the function value `child` is used by `par`; is that use detached?
func (d *detachCtx) valueUse(par, child ast.Node) bool {
	p := d.c.P
	switch v := par.(type) {
	case *ast.CallExpr:
		if ast.Node(v.Fun) == child {
			// the value is called here: only a go statement detaches it
			gs, isGo := p.Parent(v).(*ast.GoStmt)
			return isGo && gs.Call == v
		}
		for i, a := range v.Args {
			if ast.Node(a) == child {
				return d.argDetached(v, i)
			}
		}
		return false
	case *ast.AssignStmt:
		for i, r := range v.Rhs {
			if ast.Node(r) != child || len(v.Lhs) != len(v.Rhs) {
				continue
			}
			return d.targetDetached(v.Lhs[i])
		}
		// the value is on the left-hand side: a write of the variable/field, not a use
		for _, l := range v.Lhs {
			if ast.Node(l) == child {
				return true
			}
		}
		return false
	case *ast.ValueSpec:
		for i, r := range v.Values {
			if ast.Node(r) == child && i < len(v.Names) {
				if o := p.Info.Defs[v.Names[i]]; o != nil {
					return d.varDetached(o)
				}
			}
		}
		return false
	case *ast.KeyValueExpr:
		// composite literal field: T{F: fn}
		if ast.Node(v.Value) == child {
			if id, ok := v.Key.(*ast.Ident); ok {
				if fv, ok := p.Info.Uses[id].(*types.Var); ok && fv.IsField() {
					return d.fieldDetached(fv)
				}
			}
		}
		return false
	}
	return false
}

func (d *detachCtx) targetDetached(lhs ast.Expr) bool {
	p := d.c.P
	switch l := ast.Unparen(lhs).(type) {
	case *ast.Ident:
		o := p.Info.Defs[l]
		if o == nil {
			o = p.Info.Uses[l]
		}
		if o == nil || l.Name == "_" {
			return l.Name == "_"
		}
		return d.varDetached(o)
	case *ast.SelectorExpr:
		if fv := p.SelField(l); fv != nil {
			return d.fieldDetached(fv)
		}
	}
	return false
}

func (d *detachCtx) argDetached(call *ast.CallExpr, i int) bool {
	p := d.c.P
	callee := p.Callee(call)
	if callee == nil {
		return false
	}
	if core.FuncFullName(callee) == "time.AfterFunc" {
		return true
	}
	fi := p.ByObj[callee]
	if fi == nil || fi.Decl.Body == nil {
		return false
	}
	sig, _ := callee.Type().(*types.Signature)
	if sig == nil || sig.Variadic() || i >= sig.Params().Len() {
		return false
	}
	// the i-th parameter's object
	k := 0
	for _, f := range fi.Decl.Type.Params.List {
		if len(f.Names) == 0 {
			k++
			continue
		}
		for _, n := range f.Names {
			if k == i {
				if n.Name == "_" {
					return true
				}
				return d.varDetached(p.Info.Defs[n])
			}
			k++
		}
	}
	return false
}

// varDetached: every use of the local variable / parameter is a detached use.
func (d *detachCtx) varDetached(o types.Object) bool {
	if o == nil {
		return false
	}
	if d.busy[o] {
		return false
	}
	d.busy[o] = true
	defer delete(d.busy, o)
	p := d.c.P
	if _, isVar := o.(*types.Var); !isVar || o.Parent() == p.Types.Scope() {
		return false // package-level variables: anyone may call them
	}
	ok := true
	for id, u := range p.Info.Uses {
		if u != o {
			continue
		}
		par, child := d.parentSkipParen(id)
		// a use inside a nested literal that is itself detached is fine whatever it does
		if fl := d.enclosingLitBelowDecl(id, o); fl != nil && d.c.detachedLit(fl) {
			continue
		}
		if !d.valueUse(par, child) {
			ok = false
		}
	}
	return ok
}

// enclosingLitBelowDecl: the outermost function literal that contains the use
// but not the variable's declaration.
func (d *detachCtx) enclosingLitBelowDecl(use *ast.Ident, o types.Object) *ast.FuncLit {
	p := d.c.P
	var out *ast.FuncLit
	for cur := p.Parent(use); cur != nil; cur = p.Parent(cur) {
		if fl, ok := cur.(*ast.FuncLit); ok {
			if fl.Pos() <= o.Pos() && o.Pos() < fl.End() {
				break
			}
			out = fl
		}
		if _, ok := cur.(*ast.FuncDecl); ok {
			break
		}
	}
	return out
}

// fieldDetached: every read of the struct field in the package is a detached use.
func (d *detachCtx) fieldDetached(fv *types.Var) bool {
	if d.busy[fv] {
		return false
	}
	d.busy[fv] = true
	defer delete(d.busy, fv)
	p := d.c.P
	ok := true
	for se, sel := range p.Info.Selections {
		if sel.Kind() != types.FieldVal || sel.Obj() != types.Object(fv) {
			continue
		}
		par, child := d.parentSkipParen(se)
		if !d.valueUse(par, child) {
			ok = false
		}
	}
	return ok
}
