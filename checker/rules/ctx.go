// Package rules holds the per-property obligation tables. Every rule reads
// the loaded program only; nothing under analysis is executed.
package rules

import (
	"encoding/json"
	"fmt"
	"go/ast"
	"go/token"
	"os"
	"path/filepath"
	"sort"
	"strings"
	"time"

	"mlverif/core"
	"mlverif/gea"
)

// CheckerError is raised (by panic) for conditions that make a verdict
// impossible: unresolved anchors, instance floors not met, truncated
// explorations. It ends the run with exit status 2 and no VIOLATION line.
type CheckerError struct{ Msg string }

func (e CheckerError) Error() string { return e.Msg }

func fail(format string, a ...any) { panic(CheckerError{fmt.Sprintf(format, a...)}) }

// Ob is one obligation instance: rule + construct, with its verdict.
type Ob struct {
	Key     string `json:"key"`  // stable: rule/construct, never a line number
	Rule    string `json:"rule"` // what must hold
	Site    string `json:"site"` // file:line:col (diagnostic only)
	OK      bool   `json:"ok"`
	Witness string `json:"witness,omitempty"`
	Known   bool   `json:"known,omitempty"`
	Cases   int    `json:"cases"` // abstract cases examined for this obligation
}

// Ctx collects what one property check analysed and decided.
type Ctx struct {
	P     *core.Prog
	G     *core.Graph
	Prop  string
	Tier  string
	Start time.Time

	Obs         []*Ob
	byKey       map[string]*Ob
	Funcs       map[string]bool
	Assumptions []string
	Rules       []string
	Opaque      map[string]int
	Evals       int
	Notes       []string
	Extra       map[string]any
	models      map[string]any
	floorFails  []string
	// reviewed functions that the current exploration follows in place as well (a rule
	// about a pipeline of reviewed functions explores it as one unit)
	alsoInline map[string]bool
	// functions introduced after the review whose calls nevertheless stay opaque (a rule
	// treats the call itself as the event it talks about)
	opaqueNew map[string]bool
}

func NewCtx(p *core.Prog, prop, tier string) *Ctx {
	installPinnedNames(p)
	c := newCtx(p, prop, tier)
	curGraph = c.G
	// call sites inside a detached closure (see closures.go) do not run synchronously
	c.G.AsyncSite = func(s *core.Site) bool {
		if s.Call == nil {
			return false
		}
		for cur := p.Parent(s.Call); cur != nil; cur = p.Parent(cur) {
			switch v := cur.(type) {
			case *ast.FuncLit:
				if c.detachedLit(v) {
					return true
				}
			case *ast.FuncDecl:
				return false
			}
		}
		return false
	}
	return c
}

func newCtx(p *core.Prog, prop, tier string) *Ctx {
	return &Ctx{P: p, G: core.BuildGraph(p), Prop: prop, Tier: tier, Start: time.Now(), byKey: map[string]*Ob{},
		Funcs: map[string]bool{}, Opaque: map[string]int{}, Extra: map[string]any{}, models: map[string]any{}}
}

// Rule records a rule description once.
func (c *Ctx) Rule(desc string) {
	for _, r := range c.Rules {
		if r == desc {
			return
		}
	}
	c.Rules = append(c.Rules, desc)
}

func (c *Ctx) Assume(a string) {
	for _, r := range c.Assumptions {
		if r == a {
			return
		}
	}
	c.Assumptions = append(c.Assumptions, a)
}

// Check records the verdict of one obligation instance. Several reports for
// the same key are merged (the obligation holds only if every report holds).
func (c *Ctx) Check(key, rule string, pos token.Pos, ok bool, witness string) {
	c.Evals++
	// rules shared between properties carry their home property's prefix;
	// report them under the property being checked
	if len(key) > 4 && key[0] == 'C' && key[3] == '/' && len(c.Prop) == 3 && key[:3] != c.Prop {
		key = c.Prop + key[3:]
	}
	o := c.byKey[key]
	if o == nil {
		o = &Ob{Key: key, Rule: rule, Site: c.P.Pos(pos), OK: true}
		c.byKey[key] = o
		c.Obs = append(c.Obs, o)
	}
	o.Cases++
	if !ok && o.OK {
		o.OK = false
		o.Witness = witness
		o.Site = c.P.Pos(pos)
	}
}

// Floor fails the run if fewer instances than confirmed by hand were matched.
func (c *Ctx) Floor(what string, got, want int) {
	c.Notes = append(c.Notes, fmt.Sprintf("instances %s: %d (floor %d)", what, got, want))
	if got < want {
		// deferred: if the run also finds violations they are reported (exit 1);
		// otherwise the unmet floor ends the run as a checker error (exit 2)
		c.floorFails = append(c.floorFails, fmt.Sprintf("instance floor not met for %s: matched %d, confirmed by hand %d", what, got, want))
	}
}

// MustFunc resolves a declared function or ends the run with a checker error.
func (c *Ctx) MustFunc(name string) *core.Func {
	f := c.P.Func(name)
	if f == nil {
		fail("anchor unresolved: function %s", name)
	}
	c.Funcs[name] = true
	return f
}

// Explore runs a GEA exploration and accounts for it.
func (c *Ctx) Explore(name string, typ *ast.FuncType, body *ast.BlockStmt, spec gea.Spec) *gea.Exec {
	x := gea.New(c.P, name, typ, body, spec)
	x.InlineCallee = c.inlinePolicy
	x.Run()
	if x.Trunc && len(x.Inlined) > 0 {
		// following new helpers in place made the exploration too large (typically a helper
		// with many effectful branches called in a loop): fall back to treating them as calls
		c.Notes = append(c.Notes, fmt.Sprintf("exploration of %s with helpers followed in place exceeded %d abstract states; re-explored with the helpers as opaque calls", name, x.Limit))
		x = gea.New(c.P, name, typ, body, spec)
		x.Run()
	}
	if x.Trunc {
		fail("exploration of %s exceeded %d abstract states", name, x.Limit)
	}
	c.Funcs[name] = true
	for k, v := range x.Opaque {
		c.Opaque[name+": "+k] += v
	}
	c.Extra["abstract_states"] = intOf(c.Extra["abstract_states"]) + x.States
	return x
}

func intOf(v any) int {
	if i, ok := v.(int); ok {
		return i
	}
	return 0
}

// ---------------------------------------------------------------------------
// known findings

type finding struct {
	Prop, Key, What string
}

func loadFindings(path string) ([]finding, error) {
	b, err := os.ReadFile(path)
	if err != nil {
		if os.IsNotExist(err) {
			return nil, nil
		}
		return nil, err
	}
	var out []finding
	for _, line := range strings.Split(string(b), "\n") {
		line = strings.TrimSpace(line)
		if !strings.HasPrefix(line, "finding:") {
			continue // comments and "fixed:" lines suppress nothing
		}
		rest := strings.TrimSpace(strings.TrimPrefix(line, "finding:"))
		f := finding{}
		for _, part := range splitFields(rest) {
			switch {
			case strings.HasPrefix(part, "property="):
				f.Prop = strings.TrimPrefix(part, "property=")
			case strings.HasPrefix(part, "key="):
				f.Key = strings.TrimPrefix(part, "key=")
			case strings.HasPrefix(part, "what="):
				f.What = strings.Trim(strings.TrimPrefix(part, "what="), "\"")
			}
		}
		if f.Prop != "" && f.Key != "" {
			out = append(out, f)
		}
	}
	return out, nil
}

// splitFields splits on spaces but keeps what="..." together.
func splitFields(s string) []string {
	var out []string
	var cur strings.Builder
	inq := false
	for _, r := range s {
		switch {
		case r == '"':
			inq = !inq
			cur.WriteRune(r)
		case r == ' ' && !inq:
			if cur.Len() > 0 {
				out = append(out, cur.String())
				cur.Reset()
			}
		default:
			cur.WriteRune(r)
		}
	}
	if cur.Len() > 0 {
		out = append(out, cur.String())
	}
	return out
}

// Finish prints the verdict lines, writes the evidence file and returns the
// process exit status.
func (c *Ctx) Finish(verifDir string, seed int) int {
	known, err := loadFindings(filepath.Join(verifDir, "known-findings.txt"))
	if err != nil {
		fail("cannot read known-findings.txt: %v", err)
	}
	isKnown := func(key string) (finding, bool) {
		for _, f := range known {
			if f.Prop == c.Prop && f.Key == key {
				return f, true
			}
		}
		return finding{}, false
	}
	sort.SliceStable(c.Obs, func(i, j int) bool { return c.Obs[i].Key < c.Obs[j].Key })
	violDir := filepath.Join(verifDir, "evidence", "violations")
	_ = os.MkdirAll(violDir, 0o755)
	// remove stale replay files of this property
	if old, _ := filepath.Glob(filepath.Join(violDir, c.Prop+"-*.json")); old != nil {
		for _, f := range old {
			_ = os.Remove(f)
		}
	}
	nviol, nknown, discharged := 0, 0, 0
	var knownLines []string
	for _, o := range c.Obs {
		if o.OK {
			discharged++
			continue
		}
		if f, ok := isKnown(o.Key); ok {
			o.Known = true
			nknown++
			knownLines = append(knownLines, fmt.Sprintf("KNOWN-FINDING: property=%s %s [%s at %s]", c.Prop, f.What, o.Key, o.Site))
			continue
		}
		nviol++
		path := filepath.Join(violDir, fmt.Sprintf("%s-%d.json", c.Prop, nviol))
		b, _ := json.MarshalIndent(map[string]any{"property": c.Prop, "obligation": o, "explain": "re-run: ./check " + c.Prop + " --explain '" + o.Key + "'"}, "", " ")
		_ = os.WriteFile(path, b, 0o644)
		fmt.Printf("VIOLATION property=%s replay=%s\n", c.Prop, path)
		fmt.Printf("  rule: %s\n  construct: %s\n  at: %s\n  witness: %s\n", o.Rule, o.Key, o.Site, o.Witness)
	}
	for _, l := range knownLines {
		fmt.Println(l)
	}
	// evidence
	funcs := make([]string, 0, len(c.Funcs))
	for f := range c.Funcs {
		funcs = append(funcs, f)
	}
	sort.Strings(funcs)
	var samples []any
	for i, o := range c.Obs {
		if i%max(1, len(c.Obs)/12) == 0 || !o.OK {
			samples = append(samples, o)
		}
		if len(samples) >= 24 {
			break
		}
	}
	opaque := make([]string, 0, len(c.Opaque))
	for k := range c.Opaque {
		opaque = append(opaque, k)
	}
	sort.Strings(opaque)
	if len(opaque) > 60 {
		opaque = append(opaque[:60], fmt.Sprintf("... %d more", len(opaque)-60))
	}
	nontrivial := 0
	for _, o := range c.Obs {
		if o.Cases > 0 {
			nontrivial++
		}
	}
	cov := map[string]any{
		"explanation":         "static analysis of /repo's current source (go/packages + go/types + go/cfg; nothing executed). Rules: " + strings.Join(c.Rules, " | "),
		"obligations":         len(c.Obs),
		"discharged":          discharged + nknown,
		"known_findings":      nknown,
		"evaluations":         max(c.Evals, 1),
		"distinct_nontrivial": nontrivial,
		"rule":                "one obligation per rule+construct (keyed by function and construct, never by line); evaluations counts (obligation x abstract case) pairs examined; an obligation is non-trivial if at least one abstract case reached it",
		"samples":             samples,
		"functions_analysed":  funcs,
		"packages_loaded":     c.P.NLoaded,
		"opaque_atoms":        opaque,
		"notes":               c.Notes,
		"exhaustive":          true,
	}
	for k, v := range c.Extra {
		cov[k] = v
	}
	ev := map[string]any{
		"property_id": c.Prop,
		"tier":        c.Tier,
		"seed":        seed,
		"level":       "other",
		"coverage":    cov,
		"assumptions": c.Assumptions,
		"wall_s":      time.Since(c.Start).Seconds(),
		"violations":  nviol,
	}
	_ = os.MkdirAll(filepath.Join(verifDir, "evidence"), 0o755)
	b, _ := json.MarshalIndent(ev, "", " ")
	if err := os.WriteFile(filepath.Join(verifDir, "evidence", c.Prop+".json"), b, 0o644); err != nil {
		fail("cannot write evidence: %v", err)
	}
	fmt.Printf("%s %s: %d obligations, %d discharged, %d known findings, %d violations, %d functions, %.1fs\n",
		c.Prop, c.Tier, len(c.Obs), discharged, nknown, nviol, len(funcs), time.Since(c.Start).Seconds())
	if nviol > 0 {
		return 1
	}
	if len(c.floorFails) > 0 {
		fail("%s", strings.Join(c.floorFails, "; "))
	}
	return 0
}

// Registry of property checks.
var Registry = map[string]func(*Ctx){}

func register(id string, f func(*Ctx)) { Registry[id] = f }
