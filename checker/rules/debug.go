package rules

import (
	"fmt"
	"sort"

	"mlverif/gea"
)

// DumpHandlers prints the explored handler models (debugging aid).
func DumpHandlers(c *Ctx, kind string) {
	hm := c.handlerModels()[kind]
	if hm == nil && kind == "leave" {
		hm = c.leaveModel()
	}
	if hm == nil && kind == "refute" {
		hm = c.refuteModel()
	}
	if hm == nil {
		fmt.Println("no such handler kind", kind)
		return
	}
	x := hm.x
	fmt.Printf("%s: %d abstract states, %d effects, %d exits\n", hm.name, x.States, len(x.Effects), len(x.Exits))
	for _, e := range x.Effects {
		fmt.Printf("  EFFECT %-14s %s %v\n       {%s}\n", e.Class, c.P.Pos(e.Pos), e.Detail, gea.CubeString(e.Cube))
	}
	for _, e := range x.Exits {
		var seen []string
		for k, v := range e.Seen {
			seen = append(seen, fmt.Sprintf("%s:%d", k, v))
		}
		sort.Strings(seen)
		fmt.Printf("  EXIT %s %s seen=%v\n       {%s}\n", e.Kind, c.P.Pos(e.Pos), seen, gea.CubeString(e.Cube))
	}
	var ks []string
	for k := range x.Opaque {
		ks = append(ks, k)
	}
	sort.Strings(ks)
	fmt.Println("opaque:", ks)
}

// DumpFlow prints the flow model of a declared function.
func DumpFlow(c *Ctx, name string) {
	fn := c.P.Func(name)
	if fn == nil {
		fmt.Println("no such function")
		return
	}
	x := c.flow(fn, map[string]string{})
	fmt.Printf("%s: %d abstract states, %d effects, %d exits\n", name, x.States, len(x.Effects), len(x.Exits))
	for _, e := range x.Effects {
		fmt.Printf("  EFFECT %-22s %s %v\n       {%s}\n", e.Class, c.P.Pos(e.Pos), e.Detail, gea.CubeString(e.Cube))
	}
	for _, e := range x.Exits {
		var seen []string
		for k, v := range e.Seen {
			seen = append(seen, fmt.Sprintf("%s:%d", k, v))
		}
		sort.Strings(seen)
		fmt.Printf("  EXIT %s %s ret=%v seen=%v\n       {%s}\n", e.Kind, c.P.Pos(e.Pos), e.Ret, seen, gea.CubeString(e.Cube))
	}
}
