package rules

import (
	"fmt"
	"go/ast"
	"go/types"
	"sort"
	"strings"

	"mlverif/core"
	"mlverif/gea"
)

// flowSpec is the generic spec for message-path functions: it records every
// call to a function of the analysed package ("CALL:<name>") and every
// primitive effect (transport sinks, delegate callbacks, queue pushes ...)
// together with the abstract state under which it is reached.
type flowSpec struct {
	gea.Base
	c     *Ctx
	recv  types.Object
	alias map[types.Object]string
	// pure callees (by qualified name) are transparent: no effect recorded
	quiet   map[string]bool
	noNamed bool // do not abbreviate configuration predicates (when analysing them)
}

func (f *flowSpec) Init(x *gea.Exec, st *gea.State) *gea.State {
	if f.recv != nil {
		x.SetAlias(f.recv, "m")
	}
	for o, a := range f.alias {
		x.SetAlias(o, a)
	}
	return st
}

// namedAtoms: pure configuration predicates evaluated as one stable atom each
var namedAtoms = map[string]string{
	"Config.EncryptionEnabled": "encOn",
	"Config.IPMustBeChecked":   "ipCheck",
	"Memberlist.hasShutdown":   "shutdown",
	"Memberlist.hasLeft":       "left",
}

func (f *flowSpec) Cond(x *gea.Exec, st *gea.State, e ast.Expr, env *gea.Env) ([]gea.OutB, bool) {
	if call, ok := e.(*ast.CallExpr); ok {
		if fn := x.P.Callee(call); fn != nil && fn.Pkg() == x.P.Types {
			if a, ok := namedAtoms[core.QualName(fn)]; ok && !f.noNamed {
				// the sampling of the flag is itself an (ordered) effect
				st = x.Effect(st, "CHECK:"+a, call.Pos(), nil)
				return x.Atom(st, a), true
			}
		}
	}
	return nil, false
}

func (f *flowSpec) Assign(x *gea.Exec, st *gea.State, lhs, rhs ast.Expr, val gea.Term) *gea.State {
	p := x.P
	switch l := ast.Unparen(lhs).(type) {
	case *ast.IndexExpr:
		if fo := p.FieldOwner(l.X); fo != "" {
			kind := "WELEM:"
			if _, isMap := p.TypeOf(l.X).Underlying().(*types.Map); isMap {
				kind = "MAPINS:"
			}
			return x.Effect(st, kind+fo, lhs.Pos(), map[string]string{"key": x.ValueName(st, l.Index, nil), "val": val.String()})
		}
	case *ast.SelectorExpr:
		if fo := p.FieldOwner(l); fo != "" {
			v := val.String()
			if val.K == gea.KConst {
				v = val.S
			}
			return x.Effect(st, "W:"+fo, lhs.Pos(), map[string]string{"val": v, "base": x.ValueName(st, l.X, nil)})
		}
	}
	return st
}

func (f *flowSpec) Call(x *gea.Exec, st *gea.State, call *ast.CallExpr, env *gea.Env) ([]*gea.State, bool) {
	p := x.P
	one := func(s *gea.State) ([]*gea.State, bool) { return []*gea.State{s}, true }
	if b := p.Builtin(call); b != "" {
		switch b {
		case "panic":
			return one(x.Effect(st, "PANIC", call.Pos(), nil))
		case "close":
			return one(x.Effect(st, "CLOSE", call.Pos(), map[string]string{"chan": x.Canon(call.Args[0], env)}))
		case "delete":
			if fo := p.FieldOwner(call.Args[0]); fo != "" {
				s := x.Effect(st, "MAPDEL:"+fo, call.Pos(), map[string]string{"key": x.ValueName(st, call.Args[1], env)})
				return one(x.GenericCallKill(s, call, env))
			}
		case "make":
			if len(call.Args) >= 2 {
				return one(x.Effect(st, "MAKE", call.Pos(), map[string]string{"size": x.ValueName(st, call.Args[1], env)}))
			}
		case "copy":
			if len(call.Args) == 2 {
				// copy changes the contents of dst, not what the variables involved refer to
				return one(x.Effect(st, "COPY", call.Pos(), map[string]string{"dst": x.ValueName(st, call.Args[0], env), "src": x.ValueName(st, call.Args[1], env)}))
			}
		}
		return nil, false
	}
	callee := p.Callee(call)
	if callee == nil {
		return one(x.Effect(st, "CALLVALUE", call.Pos(), map[string]string{"fn": x.Canon(call.Fun, env)}))
	}
	full := core.FuncFullName(callee)
	recv := ""
	if sig, ok := callee.Type().(*types.Signature); ok && sig.Recv() != nil {
		recv = core.NamedPkgOf(sig.Recv().Type())
	}
	args := map[string]string{}
	for i, a := range call.Args {
		args[fmt.Sprintf("arg%d", i)] = x.ValueName(st, a, env)
	}
	if se, ok := ast.Unparen(call.Fun).(*ast.SelectorExpr); ok {
		if p.Info.Selections[se] != nil {
			args["recv"] = x.ValueName(st, se.X, env)
		}
	}
	if kind := core.ClassifyCall(p, call, callee, full, recv); kind != "" {
		if strings.HasPrefix(kind, "LOCK:") {
			if se, ok := ast.Unparen(call.Fun).(*ast.SelectorExpr); ok {
				return one(x.Effect(st, kind+":"+x.Canon(se.X, env), call.Pos(), nil))
			}
		}
		s := x.Effect(st, kind, call.Pos(), args)
		// atomic counters: additionally classify Add(constant) as a step up or down
		if strings.HasPrefix(kind, "ATOMICW:") && callee.Name() == "Add" && len(call.Args) == 1 {
			if v, isC := p.ConstInt(call.Args[0]); isC {
				dir := "ATOMICINC:"
				if v < 0 || v >= 1<<31 {
					dir = "ATOMICDEC:" // ^uint32(0) and friends
				}
				s = x.Effect(s, dir+strings.TrimPrefix(kind, "ATOMICW:"), call.Pos(), args)
			}
		}
		return one(x.GenericCallKill(s, call, env))
	}
	if callee.Pkg() == p.Types {
		qn := core.QualName(callee)
		if fi := p.ByObj[callee]; fi != nil && fi.Decl.Body != nil && (!pinnedFuncs[qn] || f.c.alsoInline[qn]) && !f.c.opaqueNew[qn] {
			return nil, false // a helper introduced after the review: explored in place (inlinePolicy)
		}
		if _, named := namedAtoms[qn]; (named && !f.noNamed) || f.quiet[qn] {
			return one(st)
		}
		s := x.Effect(st, "CALL:"+qn, call.Pos(), args)
		s = x.GenericCallKill(s, call, env)
		// a method called on our receiver may rewrite the receiver's fields: values read
		// from those fields afterwards are new values
		if fi := p.ByObj[callee]; fi != nil && args["recv"] == "m" && f.c != nil {
			for k := range f.c.G.Summary(fi) {
				for _, pre := range []string{"W:Memberlist.", "WELEM:Memberlist.", "MAPINS:Memberlist.", "MAPDEL:Memberlist."} {
					if strings.HasPrefix(k, pre) {
						s = x.Kill(s, "m."+strings.TrimPrefix(k, pre), false, x.Tok(call.Pos()))
					}
				}
			}
		}
		return one(s)
	}
	switch {
	case strings.HasPrefix(full, "github.com/hashicorp/go-metrics"), strings.HasPrefix(full, "log."), strings.HasPrefix(full, "fmt."):
		return one(st)
	case recv == "github.com/google/btree.BTree":
		s := x.Effect(st, "BTREE:"+callee.Name(), call.Pos(), args)
		return one(s)
	case recv == "container/list.List":
		s := x.Effect(st, "LIST:"+callee.Name(), call.Pos(), args)
		return one(s)
	case recv == "bytes.Buffer":
		s := x.Effect(st, "BUF:"+callee.Name(), call.Pos(), args)
		return one(s)
	case recv == "time.Timer":
		s := x.Effect(st, "TIMERCALL:"+callee.Name(), call.Pos(), args)
		return one(s)
	case full == "hash/crc32.ChecksumIEEE":
		return one(x.Effect(st, "CRC", call.Pos(), args))
	case full == "io.CopyN" || full == "io.ReadAtLeast" || full == "io.ReadFull" || full == "io.Copy":
		s := x.Effect(st, "IO:"+callee.Name(), call.Pos(), args)
		return one(x.GenericCallKill(s, call, env))
	case strings.HasPrefix(full, "github.com/hashicorp/go-msgpack") && callee.Name() == "Decode":
		s := x.Effect(st, "DECODE", call.Pos(), args)
		return one(x.GenericCallKill(s, call, env))
	}
	return nil, false
}

// explore runs the flow spec over a declared function.
// flowWith is flow with the named reviewed functions followed in place too.
func (c *Ctx) flowWith(fn *core.Func, alias map[string]string, inline []string, quiet ...string) *gea.Exec {
	save := c.alsoInline
	c.alsoInline = map[string]bool{}
	for _, n := range inline {
		c.alsoInline[n] = true
	}
	defer func() { c.alsoInline = save }()
	return c.flow(fn, alias, quiet...)
}

func (c *Ctx) flow(fn *core.Func, alias map[string]string, quiet ...string) *gea.Exec {
	qs := append([]string(nil), quiet...)
	sort.Strings(qs)
	if len(c.alsoInline) > 0 {
		var in []string
		for n := range c.alsoInline {
			in = append(in, n)
		}
		sort.Strings(in)
		qs = append(qs, "|inline:"+strings.Join(in, ","))
	}
	as := make([]string, 0, len(alias))
	for k, v := range alias {
		as = append(as, k+"="+v)
	}
	sort.Strings(as)
	key := "flow:" + fn.Name + "|" + strings.Join(qs, ",") + "|" + strings.Join(as, ",")
	if m, ok := c.models[key]; ok {
		return m.(*gea.Exec)
	}
	p := c.P
	spec := &flowSpec{c: c, alias: map[types.Object]string{}, quiet: map[string]bool{}}
	for _, q := range quiet {
		spec.quiet[q] = true
	}
	if fn.Decl.Recv != nil && len(fn.Decl.Recv.List[0].Names) > 0 {
		spec.recv = p.Info.Defs[fn.Decl.Recv.List[0].Names[0]]
	}
	// parameters are spelled as on the reviewed tree (Prog.Rename), so renaming one
	// changes nothing a rule sees
	for _, f := range fn.Decl.Type.Params.List {
		for _, n := range f.Names {
			name := n.Name
			if r, ok := p.Rename[p.Info.Defs[n]]; ok {
				name = r
			}
			if a, ok := alias[name]; ok {
				spec.alias[p.Info.Defs[n]] = a
			} else {
				spec.alias[p.Info.Defs[n]] = name
			}
		}
	}
	x := c.Explore(fn.Name, fn.Decl.Type, fn.Decl.Body, spec)
	c.models[key] = x
	return x
}

// cubeAtom finds the cube entry whose key has the prefix and suffix.
func cubeAtom(cube map[string]string, prefix, suffix string) (string, bool) {
	for k, v := range cube {
		if strings.HasPrefix(k, prefix) && strings.HasSuffix(k, suffix) {
			return v, true
		}
	}
	return "", false
}

// flowMay: effects matching `match` are reachable only under cubes
// satisfying allowed (which inspects the recorded cube directly).
func (c *Ctx) flowMay(x *gea.Exec, key, rule string, match func(e *gea.Effect) bool, allowed func(e *gea.Effect) (bool, string)) int {
	c.Rule(rule)
	n := 0
	for _, e := range x.Effects {
		if !match(e) {
			continue
		}
		n++
		ok, why := allowed(e)
		w := ""
		if !ok {
			w = fmt.Sprintf("%s %v reachable under {%s}: %s", e.Class, e.Detail, gea.CubeString(e.Cube), why)
		}
		c.Check(key+"/"+e.Class, rule, e.Pos, ok, w)
	}
	return n
}
