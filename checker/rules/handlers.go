package rules

import (
	"fmt"
	"go/ast"
	"go/token"
	"go/types"
	"sort"
	"strings"

	"mlverif/core"
	"mlverif/gea"
)

// The membership handlers (alive / suspect / dead claim handlers, the
// suspicion-timer closure and the push/pull merge) are explored once with the
// handler spec below; C01, C02, C03, C06, C07, C08, C09 and C18 read different
// obligations off the same exploration.

var stateDom = []string{"StateAlive", "StateSuspect", "StateDead", "StateLeft"}

// canonical names of the abstraction's variables
const (
	vOK     = "ok"    // record found for the claimed name
	vS0     = "S0"    // record state at entry
	vOrd    = "ord"   // compare(claim.Incarnation, record.Incarnation) at entry
	vOrd0   = "ord0"  // compare(claim.Incarnation, 0) for a freshly inserted record
	vSelf   = "self"  // the claim names the local node
	vLeft   = "left"  // Leave has begun
	vIPOK   = "ipOK"  // Config.IPAllowed(claim.Addr) == nil
	vAge    = "age"   // compare(time.Since(record.StateChange), DeadNodeReclaimTime)
	vTimer  = "timer" // a suspicion timer exists for the claimed name
	vBoot   = "boot"  // local announcement (bootstrap parameter)
	vReclCf = "m.config.DeadNodeReclaimTime>=1"
)

type hSpec struct {
	gea.Base
	c     *Ctx
	kind  string // alive | suspect | dead | timer | merge
	fn    *core.Func
	claim types.Object
	recv  types.Object
}

type handlerModel struct {
	kind string
	fn   *core.Func
	x    *gea.Exec
	name string
}

func (h *hSpec) Init(x *gea.Exec, st *gea.State) *gea.State {
	x.DeclareVar(vOK, gea.BoolDom)
	x.DeclareVar(vS0, stateDom)
	x.DeclareVar(vOrd, gea.OrdDom)
	x.DeclareVar(vOrd0, []string{"EQ", "GT"})
	x.DeclareVar(vSelf, gea.BoolDom)
	x.DeclareVar(vLeft, gea.BoolDom)
	x.DeclareVar(vIPOK, gea.BoolDom)
	x.DeclareVar(vAge, gea.OrdDom)
	x.DeclareVar(vTimer, gea.BoolDom)
	x.SetAlias(h.recv, "m")
	x.SetAlias(h.claim, "c")
	return st
}

func (h *hSpec) isRootFunc(x *gea.Exec, call *ast.CallExpr, name string) bool {
	f := x.P.Callee(call)
	return f != nil && f.Pkg() == x.P.Types && core.QualName(f) == name
}

func (h *hSpec) Cond(x *gea.Exec, st *gea.State, e ast.Expr, env *gea.Env) ([]gea.OutB, bool) {
	switch v := e.(type) {
	case *ast.CallExpr:
		if h.isRootFunc(x, v, "Memberlist.hasLeft") {
			return x.Atom(st, vLeft), true
		}
		if h.isRootFunc(x, v, "Memberlist.hasShutdown") {
			return x.Atom(st, "shutdown"), true
		}
	case *ast.BinaryExpr:
		switch v.Op {
		case token.EQL, token.NEQ, token.LSS, token.LEQ, token.GTR, token.GEQ:
		default:
			return nil, false
		}
		a, b := x.ValueName(st, v.X, env), x.ValueName(st, v.Y, env)
		op := v.Op
		// self: claimed name / record name against the configured name
		isName := func(s string) bool { return s == "c.Node" || s == "rec.Node.Name" }
		if (op == token.EQL || op == token.NEQ) && ((isName(a) && b == "m.config.Name") || (isName(b) && a == "m.config.Name")) {
			o := x.Atom(st, vSelf)
			if op == token.NEQ {
				o = negate(o)
			}
			return o, true
		}
		// the record against nil: the name table never holds a nil record (checked by the
		// closed-writer rule: every insertion stores a record built in place), so a looked-up
		// record is nil exactly when the lookup missed, and a freshly built one never is
		if (op == token.EQL || op == token.NEQ) && ((a == "rec" && b == "nil") || (a == "nil" && b == "rec")) {
			var o []gea.OutB
			if st.Store["@fresh"] == gea.True {
				o = []gea.OutB{{St: st, V: false}}
			} else {
				o = negate(x.Atom(st, vOK))
			}
			if op == token.NEQ {
				o = negate(o)
			}
			return o, true
		}
		// incarnation order
		if b == "c.Incarnation" && a != "c.Incarnation" {
			a, b = b, a
			op = core.FlipOp(op)
		}
		if a == "c.Incarnation" {
			var t gea.Term
			switch {
			case b == "rec.Incarnation" && st.Store["@fresh"] == gea.True:
				t = gea.Ref(vOrd0) // freshly built record: incarnation zero
			case b == "rec.Incarnation":
				t = gea.Ref(vOrd)
			case b == "c.Incarnation":
				t = gea.Const("EQ")
			default:
				return nil, false
			}
			var out []gea.OutB
			for _, r := range x.Resolve(st, t) {
				out = append(out, gea.OutB{St: r.St, V: gea.OrdHolds(r.V, op)})
			}
			return out, true
		}
		// age of the record against the reclaim time
		isSince := func(s string) bool { return strings.HasPrefix(s, "time.Since(rec.StateChange)") }
		a, b = x.ValueName(st, v.X, env), x.ValueName(st, v.Y, env)
		op = v.Op
		if isSince(b) {
			a, b = b, a
			op = core.FlipOp(op)
		}
		if isSince(a) && b == "m.config.DeadNodeReclaimTime" {
			var out []gea.OutB
			for _, r := range x.Resolve(st, gea.Ref(vAge)) {
				out = append(out, gea.OutB{St: r.St, V: gea.OrdHolds(r.V, op)})
			}
			return out, true
		}
	}
	return nil, false
}

func negate(o []gea.OutB) []gea.OutB {
	out := make([]gea.OutB, len(o))
	for i := range o {
		out[i] = gea.OutB{St: o[i].St, V: !o[i].V}
	}
	return out
}

func (h *hSpec) Assign(x *gea.Exec, st *gea.State, lhs, rhs ast.Expr, val gea.Term) *gea.State {
	p := x.P
	lkey := x.LocKey(st, lhs, nil)
	if id, ok := ast.Unparen(lhs).(*ast.Ident); ok {
		lkey = x.Canon(id, nil)
		if h.kind == "merge" && lkey == "r" && rhs == nil {
			// a new remote entry: its state is unconstrained again
			n := st.Bind("r.State", gea.Ref("RS"))
			if _, ok := n.Cube["RS"]; ok {
				n = x.DropCube(n, "RS")
			}
			return n
		}
	}
	// role discovery: lookups keyed by the claimed name
	if ix, ok := ast.Unparen(rhsOrNil(rhs)).(*ast.IndexExpr); ok {
		owner := p.FieldOwner(ix.X)
		keyName := x.ValueName(st, ix.Index, nil)
		if owner == "Memberlist.nodeMap" && (keyName == "c.Node" || (h.claim == nil && keyName == "m.config.Name")) {
			if val.K == gea.KRef { // the ok result
				return st.Bind(lkey, gea.Ref(vOK))
			}
			n := st.Bind(lkey, gea.Sym("rec"))
			return n.Bind("rec.State", gea.Ref(vS0))
		}
		if owner == "Memberlist.nodeTimers" && keyName == "c.Node" {
			if val.K == gea.KRef {
				return st.Bind(lkey, gea.Ref(vTimer))
			}
			return st.Bind(lkey, gea.Sym("tmr"))
		}
	}
	// allow-list verdict for the claimed address
	if call, ok := ast.Unparen(rhsOrNil(rhs)).(*ast.CallExpr); ok && val.K == gea.KSym {
		if f := p.Callee(call); f != nil && f.Pkg() == p.Types && core.QualName(f) == "Config.IPAllowed" && len(call.Args) == 1 {
			arg := x.ValueName(st, call.Args[0], nil)
			v := vIPOK
			if arg != "c.Addr" {
				v = "ipOK:" + arg
				x.DeclareVar(v, gea.BoolDom)
			}
			return st.Bind(val.S+"==nil", gea.Ref(v))
		}
	}
	// a freshly built record takes over the role of "the record"; its listed
	// fields are its entry state
	if rhs != nil && core.NamedOf(p.TypeOf(lhs)) == "nodeState" {
		if cl := compositeLit(rhs); cl != nil && core.NamedOf(p.TypeOf(cl)) == "nodeState" {
			n := st
			for k, t := range st.Store {
				if strings.HasPrefix(k, lkey+".") && lkey != "rec" {
					n = n.Bind("rec."+strings.TrimPrefix(k, lkey+"."), t)
				}
			}
			if _, ok := n.Store["rec.State"]; !ok || n.Store["rec.State"].K == gea.KRef {
				n = n.Bind("rec.State", gea.Const("StateAlive")) // zero value
			}
			n = n.Bind(lkey, gea.Sym("rec"))
			return n.Bind("@fresh", gea.True)
		}
	}
	// effects: stores to record fields and to the membership tables
	switch l := ast.Unparen(lhs).(type) {
	case *ast.SelectorExpr:
		if p.BaseNamed(l) == "nodeState" || strings.HasPrefix(p.FieldOwner(l), "nodeState.") {
			fo := p.FieldOwner(l)
			field := fo[strings.Index(fo, ".")+1:]
			target := x.ValueName(st, l.X, nil)
			vn := val.S
			if rhs != nil {
				vn = x.ValueName(st, rhs, nil)
			}
			// the value now stored: ValueName(rhs) was computed after binding, so
			// re-derive it from val for plain copies
			if val.K == gea.KConst {
				vn = val.S
			}
			return x.Effect(st, "W:"+field, lhs.Pos(), map[string]string{"val": vn, "target": target})
		}
		if fo := p.FieldOwner(l); fo == "Memberlist.nodes" {
			return x.Effect(st, "W:nodes", lhs.Pos(), map[string]string{"val": val.S})
		}
	case *ast.IndexExpr:
		switch p.FieldOwner(l.X) {
		case "Memberlist.nodeMap":
			return x.Effect(st, "MAPINS", lhs.Pos(), map[string]string{"key": x.ValueName(st, l.Index, nil), "val": val.S})
		case "Memberlist.nodeTimers":
			return x.Effect(st, "TIMERSET", lhs.Pos(), map[string]string{"key": x.ValueName(st, l.Index, nil), "val": val.S})
		case "Memberlist.nodes":
			return x.Effect(st, "NODESWAP", lhs.Pos(), nil)
		}
	}
	return st
}

func compositeLit(e ast.Expr) *ast.CompositeLit {
	e = ast.Unparen(e)
	if u, ok := e.(*ast.UnaryExpr); ok && u.Op == token.AND {
		e = ast.Unparen(u.X)
	}
	cl, _ := e.(*ast.CompositeLit)
	return cl
}

func rhsOrNil(e ast.Expr) ast.Expr {
	if e == nil {
		return &ast.BadExpr{}
	}
	return e
}

// claimFields renders the fields of the claim passed to a handler call.
func claimFields(x *gea.Exec, st *gea.State, arg ast.Expr) map[string]string {
	d := map[string]string{}
	base := ast.Unparen(arg)
	if u, ok := base.(*ast.UnaryExpr); ok && u.Op == token.AND {
		base = ast.Unparen(u.X)
	}
	bk := x.Canon(base, nil)
	if t, ok := st.Store[bk]; ok && t.K == gea.KSym && strings.HasPrefix(t.S, "&") {
		// pointer to a literal bound earlier: fields were bound under the variable
	}
	for _, f := range []string{"Incarnation", "Node", "From", "Addr", "Port", "Meta", "Vsn", "Name"} {
		if t, ok := st.Store[bk+"."+f]; ok {
			d[f] = strings.TrimPrefix(t.String(), "=")
		}
	}
	d["claim"] = bk
	return d
}

func (h *hSpec) Call(x *gea.Exec, st *gea.State, call *ast.CallExpr, env *gea.Env) ([]*gea.State, bool) {
	p := x.P
	one := func(s *gea.State) ([]*gea.State, bool) { return []*gea.State{s}, true }
	if b := p.Builtin(call); b != "" {
		if b == "delete" {
			switch p.FieldOwner(call.Args[0]) {
			case "Memberlist.nodeTimers":
				s := x.Effect(st, "TIMERDEL", call.Pos(), map[string]string{"key": x.ValueName(st, call.Args[1], env)})
				return one(s)
			case "Memberlist.nodeMap":
				s := x.Effect(st, "MAPDEL", call.Pos(), map[string]string{"key": x.ValueName(st, call.Args[1], env)})
				return one(s)
			}
		}
		if b == "append" && len(call.Args) > 0 && p.FieldOwner(call.Args[0]) == "Memberlist.nodes" {
			return one(x.Effect(st, "APPEND", call.Pos(), nil))
		}
		return nil, false
	}
	callee := p.Callee(call)
	if callee == nil {
		// call of a function value (timeoutFn etc.)
		return one(x.Effect(st, "CALLVALUE", call.Pos(), map[string]string{"fn": x.Canon(call.Fun, env)}))
	}
	full := core.FuncFullName(callee)
	recvT := ""
	if sig, ok := callee.Type().(*types.Signature); ok && sig.Recv() != nil {
		recvT = core.NamedPkgOf(sig.Recv().Type())
	}
	root := core.RootPath + "."
	arg := func(i int) string {
		if i < len(call.Args) {
			return x.ValueName(st, call.Args[i], env)
		}
		return ""
	}
	switch recvT {
	case root + "EventDelegate":
		return one(x.Effect(st, "EVT:"+strings.TrimPrefix(callee.Name(), "Notify"), call.Pos(), map[string]string{"arg": arg(0)}))
	case root + "ConflictDelegate":
		d := map[string]string{"existing": arg(0), "other": arg(1)}
		if len(call.Args) > 1 {
			for k, v := range claimFields(x, st, call.Args[1]) {
				if k != "claim" {
					d["other."+k] = v
				}
			}
		}
		return one(x.Effect(st, "CONFLICT", call.Pos(), d))
	case root + "AliveDelegate":
		return one(x.Effect(st, "ALIVEDELEGATE", call.Pos(), nil))
	case root + "suspicion":
		if callee.Name() == "Confirm" {
			return one(x.Effect(st, "CONFIRM", call.Pos(), map[string]string{"from": arg(0)}))
		}
	}
	if callee.Pkg() != p.Types {
		switch {
		case strings.HasPrefix(full, "github.com/hashicorp/go-metrics"), strings.HasPrefix(full, "log."), strings.HasPrefix(full, "fmt."),
			strings.HasPrefix(full, "time."), strings.HasPrefix(full, "bytes."), strings.HasPrefix(full, "net."), strings.HasPrefix(full, "strings."):
			return one(st)
		case strings.HasPrefix(full, "sync.") && (callee.Name() == "Lock" || callee.Name() == "Unlock" || callee.Name() == "RLock" || callee.Name() == "RUnlock"):
			if se, ok := ast.Unparen(call.Fun).(*ast.SelectorExpr); ok {
				return one(x.Effect(st, "LOCK:"+callee.Name()+":"+x.Canon(se.X, env), call.Pos(), nil))
			}
		case strings.HasPrefix(full, "sync/atomic."):
			if k := atomicTarget(p, call); k != "" && (callee.Name() == "Add" || callee.Name() == "Store") {
				return one(x.Effect(st, "ATOMICW:"+k, call.Pos(), nil))
			}
			return one(st)
		}
		return nil, false
	}
	// functions of the package under analysis, classified by what they do
	fi := p.ByObj[callee]
	qn := core.QualName(callee)
	if fi != nil && fi.Decl.Body != nil && !pinnedFuncs[qn] {
		return nil, false // a helper introduced after the review: explored in place (inlinePolicy)
	}
	switch qn {
	case "Memberlist.aliveNode", "Memberlist.suspectNode", "Memberlist.deadNode":
		d := claimFields(x, st, call.Args[0])
		for i := 1; i < len(call.Args); i++ {
			d[fmt.Sprintf("arg%d", i)] = arg(i)
		}
		return one(x.Effect(st, "CALL:"+strings.TrimSuffix(strings.TrimPrefix(qn, "Memberlist."), "Node"), call.Pos(), d))
	case "Memberlist.hasLeft", "Memberlist.hasShutdown":
		return one(st)
	case "newSuspicion":
		d := map[string]string{}
		if fi != nil {
			i := 0
			for _, f := range fi.Decl.Type.Params.List {
				for _, n := range f.Names {
					name := n.Name
					if r, ok := p.Rename[p.Info.Defs[n]]; ok {
						name = r // keyed by the parameter's reviewed name
					}
					d[name] = arg(i)
					i++
				}
			}
		}
		return one(x.Effect(st, "TIMERNEW", call.Pos(), d))
	}
	if fi == nil {
		return nil, false
	}
	sum := h.c.G.Summary(fi)
	switch {
	case sum["ATOMICW:Memberlist.incarnation"] && sum["QB"]:
		// the refutation helper: advances the local incarnation and gossips
		s := x.Effect(st, "REFUTE", call.Pos(), map[string]string{"rec": arg(0), "accused": arg(1)})
		s = x.Kill(s, arg(0)+".Incarnation", false, x.Tok(call.Pos()))
		return one(s)
	case sum["QB"]:
		d := map[string]string{}
		if sig, ok := callee.Type().(*types.Signature); ok {
			for i := 0; i < sig.Params().Len() && i < len(call.Args); i++ {
				pt := sig.Params().At(i).Type()
				switch {
				case types.Identical(pt, types.Typ[types.String]):
					d["node"] = arg(i)
				case core.NamedOf(pt) == "messageType":
					d["type"] = arg(i)
				default:
					if _, isChan := pt.Underlying().(*types.Chan); isChan {
						d["notify"] = arg(i)
					} else {
						d["msg"] = arg(i)
						for k, v := range claimFields(x, st, call.Args[i]) {
							if k != "claim" {
								d["msg."+k] = v
							}
						}
					}
				}
			}
		}
		return one(x.Effect(st, "BCAST", call.Pos(), d))
	}
	eff := effectful(sum)
	if len(eff) == 0 {
		return one(st) // no membership-relevant effect: transparent
	}
	s := x.Effect(st, "CALL:"+qn, call.Pos(), map[string]string{"summary": strings.Join(eff, ",")})
	return one(x.GenericCallKill(s, call, env))
}

func atomicTarget(p *core.Prog, call *ast.CallExpr) string {
	if se, ok := ast.Unparen(call.Fun).(*ast.SelectorExpr); ok {
		return p.FieldOwner(se.X)
	}
	return ""
}

// effectful filters a summary down to the kinds that matter for membership.
func effectful(sum map[string]bool) []string {
	var out []string
	for k := range sum {
		switch {
		case strings.HasPrefix(k, "W:nodeState."), strings.HasPrefix(k, "W:Node."), strings.HasPrefix(k, "MAPINS:Memberlist."), strings.HasPrefix(k, "MAPDEL:Memberlist."),
			k == "W:Memberlist.nodes", k == "WELEM:Memberlist.nodes", k == "QB", strings.HasPrefix(k, "EVT:"), k == "CONFLICT", strings.HasPrefix(k, "DELEGATE:"),
			k == "MERGEDELEGATE", strings.HasPrefix(k, "SINK:"), k == "DIAL", k == "W:awareness.score", strings.HasPrefix(k, "ATOMICW:Memberlist."), k == "TIMER", k == "GO":
			out = append(out, k)
		}
	}
	sort.Strings(out)
	return out
}

// ---------------------------------------------------------------------------
// locating and exploring the handlers

func (c *Ctx) handlerModels() map[string]*handlerModel {
	if m, ok := c.models["handlers"]; ok {
		return m.(map[string]*handlerModel)
	}
	out := map[string]*handlerModel{}
	p := c.P
	for _, fn := range p.SortedFuncs() {
		if fn.Decl.Recv == nil || core.NamedOf(p.TypeOf(fn.Decl.Recv.List[0].Type)) != "Memberlist" {
			continue
		}
		params := fn.Decl.Type.Params.List
		if len(params) == 0 || len(params[0].Names) == 0 {
			continue
		}
		pt := p.TypeOf(params[0].Type)
		if _, isPtr := pt.(*types.Pointer); !isPtr {
			continue
		}
		kind := core.NamedOf(pt)
		if kind != "alive" && kind != "suspect" && kind != "dead" {
			continue
		}
		// a handler is a method taking the claim that writes a record field
		sum := c.G.Summary(fn)
		if !sum["W:nodeState.State"] && !sum["W:nodeState.Incarnation"] {
			continue
		}
		if !handlerChoice(c, kind, fn) {
			continue
		}
		if _, dup := out[kind]; dup {
			fail("anchor ambiguous: two %s handlers", kind)
		}
		spec := &hSpec{c: c, kind: kind, fn: fn, claim: p.Info.Defs[params[0].Names[0]]}
		if len(fn.Decl.Recv.List[0].Names) > 0 {
			spec.recv = p.Info.Defs[fn.Decl.Recv.List[0].Names[0]]
		}
		x := gea.New(p, fn.Name, fn.Decl.Type, fn.Decl.Body, spec)
		x.InlineCallee = c.inlinePolicy
		if kind == "alive" {
			// the bootstrap flag is the handler's boolean parameter
			for _, f := range params {
				if b, ok := p.TypeOf(f.Type).(*types.Basic); ok && b.Kind() == types.Bool {
					for _, n := range f.Names {
						x.SetAlias(p.Info.Defs[n], vBoot)
					}
				}
			}
		}
		x.Run()
		if x.Trunc {
			fail("exploration of %s exceeded the state limit", fn.Name)
		}
		c.Funcs[fn.Name] = true
		c.Extra["abstract_states"] = intOf(c.Extra["abstract_states"]) + x.States
		for k, v := range x.Opaque {
			c.Opaque[fn.Name+": "+k] += v
		}
		out[kind] = &handlerModel{kind: kind, fn: fn, x: x, name: fn.Name}
		// the suspicion-timer closure lives in the suspect handler
		if kind == "suspect" {
			inspectFn(fn, func(n ast.Node) bool {
				fl, ok := n.(*ast.FuncLit)
				if !ok {
					return true
				}
				callsDead := false
				ast.Inspect(fl.Body, func(m ast.Node) bool {
					if ce, ok := m.(*ast.CallExpr); ok {
						if f := p.Callee(ce); f != nil && f.Pkg() == p.Types {
							if t := p.ByObj[f]; t != nil && c.G.Summary(t)["W:nodeState.State"] {
								callsDead = true
							}
						}
					}
					return true
				})
				if callsDead {
					ts := &hSpec{c: c, kind: "timer", fn: fn, claim: spec.claim, recv: spec.recv}
					if enc := p.EnclosingDecl(fl); enc != nil && enc != fn {
						// the closure moved into a helper extracted from the handler: it
						// captures the helper's receiver and claim parameter
						ts.claim, ts.recv = nil, nil
						if enc.Decl.Recv != nil && len(enc.Decl.Recv.List[0].Names) > 0 {
							ts.recv = p.Info.Defs[enc.Decl.Recv.List[0].Names[0]]
						}
						for _, f := range enc.Decl.Type.Params.List {
							if _, isPtr := p.TypeOf(f.Type).(*types.Pointer); isPtr && core.NamedOf(p.TypeOf(f.Type)) == kind && len(f.Names) > 0 {
								ts.claim = p.Info.Defs[f.Names[0]]
							}
						}
					}
					tx := gea.New(p, fn.Name+"$timer", fl.Type, fl.Body, ts)
					tx.InlineCallee = c.inlinePolicy
					tx.Run()
					if tx.Trunc {
						fail("exploration of the timer closure exceeded the state limit")
					}
					c.Funcs[fn.Name+"$timer"] = true
					out["timer"] = &handlerModel{kind: "timer", fn: fn, x: tx, name: fn.Name + "$timer"}
				}
				return false
			})
		}
	}
	for _, k := range []string{"alive", "suspect", "dead", "timer"} {
		if out[k] == nil {
			fail("anchor unresolved: %s handler (method of *Memberlist taking *%s and writing a record field)", k, k)
		}
	}
	c.models["handlers"] = out
	return out
}

// getter helpers over a completion
type getf = func(string) string

func isT(g getf, v string) bool { return g(v) == "T" }
func geq(g getf, v string) bool { s := g(v); return s == "EQ" || s == "GT" }
func deadOrLeft(s string) bool  { return s == "StateDead" || s == "StateLeft" }

// mayRow checks: every occurrence of an effect of the given classes is
// reachable only under completions satisfying allowed.
func (c *Ctx) mayRow(hm *handlerModel, key, rule string, match func(e *gea.Effect) bool, allowed func(g getf, e *gea.Effect) bool) {
	c.Rule(rule)
	n := 0
	for _, e := range hm.x.Effects {
		if !match(e) {
			continue
		}
		n++
		e := e
		ok, wit := hm.x.ForAll(e.Cube, func(g getf) bool { return allowed(g, e) })
		w := ""
		if !ok {
			w = fmt.Sprintf("%s %v reachable under {%s}", e.Class, e.Detail, gea.CubeString(wit))
		}
		c.Check(fmt.Sprintf("%s/%s/%s", key, hm.kind, e.Class), rule, e.Pos, ok, w)
	}
	if n == 0 {
		// a rule that matches nothing must not pass silently where the
		// handler is expected to have the effect; callers assert floors
		c.Notes = append(c.Notes, fmt.Sprintf("%s/%s: no matching effect", key, hm.kind))
	}
}

// mustRow checks: on every exit whose abstract state satisfies required, an
// effect of class cls has occurred.
func (c *Ctx) mustRow(hm *handlerModel, key, rule string, cls []string, required func(g getf) bool) {
	c.Rule(rule)
	for _, ex := range hm.x.Exits {
		ex := ex
		ok, wit := hm.x.ForAll(ex.Cube, func(g getf) bool {
			if !required(g) {
				return true
			}
			for _, k := range cls {
				if ex.Seen[k] == 0 && !(k == "TIMERDEL" && g(vTimer) == "F") {
					// clearing the timer is moot on a path that established that none exists
					return false
				}
			}
			return true
		})
		w := ""
		if !ok {
			w = fmt.Sprintf("exit at %s reached without %v under {%s}", c.P.Pos(ex.Pos), cls, gea.CubeString(wit))
		}
		c.Check(fmt.Sprintf("%s/%s/must:%s", key, hm.kind, strings.Join(cls, "+")), rule, ex.Pos, ok, w)
	}
}

func classIn(set ...string) func(e *gea.Effect) bool {
	return func(e *gea.Effect) bool {
		for _, s := range set {
			if e.Class == s || (strings.HasSuffix(s, "*") && strings.HasPrefix(e.Class, strings.TrimSuffix(s, "*"))) {
				return true
			}
		}
		return false
	}
}

func classNotIn(set ...string) func(e *gea.Effect) bool {
	in := classIn(set...)
	return func(e *gea.Effect) bool { return !in(e) }
}

// handlerChoice: a later change may split a handler into a wrapper and a
// worker that takes the same claim (both write the record through their
// summaries). The handler is then the outermost one: a candidate that is a
// helper introduced after the review and runs only as part of another
// candidate of the same kind is explored in place, not as a second handler.
func handlerChoice(c *Ctx, kind string, fn *core.Func) bool {
	if pinnedFuncs[fn.Name] {
		return true
	}
	p := c.P
	within := map[*core.Func]bool{}
	for _, o := range p.SortedFuncs() {
		if o == fn || o.Decl.Recv == nil || core.NamedOf(p.TypeOf(o.Decl.Recv.List[0].Type)) != "Memberlist" {
			continue
		}
		params := o.Decl.Type.Params.List
		if len(params) == 0 || len(params[0].Names) == 0 {
			continue
		}
		pt := p.TypeOf(params[0].Type)
		if _, isPtr := pt.(*types.Pointer); !isPtr || core.NamedOf(pt) != kind {
			continue
		}
		if !pinnedFuncs[o.Name] {
			continue
		}
		within[o] = true
	}
	if len(within) == 0 {
		return true
	}
	// (referenced from a literal inside the handler counts too: the timer callback's body
	// may become a method that takes the claim)
	return !c.allRoots(fn, func(r *core.Func) bool { return within[r] })
}
