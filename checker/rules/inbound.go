package rules

import (
	"fmt"
	"regexp"
	"strings"

	"mlverif/core"
	"mlverif/gea"
)

var firstByteRe = regexp.MustCompile(`^enum:buf(#[0-9]+)?\[0\]`)

// atomU looks a cube entry up by its position-token-free key.
func atomU(cube map[string]string, key string) (string, bool) {
	for k, v := range cube {
		if untok(k) == key {
			return v, true
		}
	}
	return "", false
}

// atomPS: first cube entry whose token-free key has the prefix and suffix.
func atomPS(cube map[string]string, prefix, suffix string) (string, string, bool) {
	for k, v := range cube {
		u := untok(k)
		if strings.HasPrefix(u, prefix) && strings.HasSuffix(u, suffix) {
			return u, v, true
		}
	}
	return "", "", false
}

// labelAccepted decides, from the path condition, whether the received label
// was accepted: header removed without error and either equal to the
// configured label, or (inbound check delegated) empty.
func labelAccepted(cube map[string]string, remover string) (bool, string) {
	if v, ok := atomU(cube, remover+"#2==nil"); !ok || v != "T" {
		return false, "label header removal error not checked"
	}
	skip, hasSkip := cube["m.config.SkipInboundLabelCheck"]
	if !hasSkip {
		return false, "SkipInboundLabelCheck not consulted"
	}
	lbl := remover + "#1"
	if skip == "T" {
		// only traffic without a label header
		a, b := `""`, lbl
		if a > b {
			a, b = b, a
		}
		if v, ok := atomU(cube, "eq("+a+","+b+")"); ok && v == "T" {
			return true, ""
		}
		return false, "with the inbound check delegated, a non-empty label is accepted"
	}
	a, b := lbl, "m.config.Label"
	if a > b {
		a, b = b, a
	}
	if v, ok := atomU(cube, "eq("+a+","+b+")"); ok && v == "T" {
		return true, ""
	}
	return false, "received label not compared (equal) with the configured label"
}

// checkIngestPacket covers the packet path for C14 (auth) and C16 (label).
func checkIngestPacket(c *Ctx, prop string, wantLabel, wantAuth bool) {
	fn := c.MustFunc("Memberlist.ingestPacket")
	x := c.flow(fn, map[string]string{})
	const rm = "RemoveLabelHeaderFromPacket(buf)"
	disp := "CALL:Memberlist.handleCommand"
	if wantLabel {
		n := c.flowMay(x, prop+"/packet/label", "packet path: the dispatcher is reached only if the label header was removed without error and the received label equals the configured one (with the inbound check delegated: only if no label header was present)",
			func(e *gea.Effect) bool { return e.Class == disp || e.Class == "CALL:decryptPayload" }, func(e *gea.Effect) (bool, string) { return labelAccepted(e.Cube, rm) })
		c.Floor("dispatcher/decrypt calls on the packet path", n, 3)
		c.flowMay(x, prop+"/packet/no-effect-before-label", "packet path: nothing but logging happens before the label is accepted", func(e *gea.Effect) bool {
			return !strings.HasPrefix(e.Class, "CALL:Log") && e.Class != "CALL:RemoveLabelHeaderFromPacket"
		}, func(e *gea.Effect) (bool, string) { return labelAccepted(e.Cube, rm) })
	}
	if wantAuth {
		c.flowMay(x, prop+"/packet/authenticated", "packet path: with a keyring, the dispatcher is reached only with the plaintext of a successful decryption, or - only when incoming verification is off - with the raw buffer",
			func(e *gea.Effect) bool { return e.Class == disp }, func(e *gea.Effect) (bool, string) {
				enc, ok := e.Cube["encOn"]
				if !ok {
					return false, "encryption-enabled test missing on this path"
				}
				arg := untok(e.Detail["arg0"])
				if enc == "F" {
					return true, ""
				}
				_, dv, okd := atomPS(e.Cube, "decryptPayload(", "#1==nil")
				if !okd {
					return false, "decryption result not tested"
				}
				if dv == "T" {
					if !strings.HasPrefix(arg, "decryptPayload(") {
						return false, "dispatcher gets " + arg + " instead of the decrypted plaintext"
					}
					return true, ""
				}
				if v, ok := e.Cube["m.config.GossipVerifyIncoming"]; !ok || v != "F" {
					return false, "undecryptable packet dispatched although incoming verification is on"
				}
				return true, ""
			})
		n := c.flowMay(x, prop+"/packet/decrypt-args", "packet path: decryption is offered all installed keys, the buffer after label removal, and the accepted label as associated data",
			func(e *gea.Effect) bool { return e.Class == "CALL:decryptPayload" }, func(e *gea.Effect) (bool, string) {
				d := e.Detail
				if !strings.HasPrefix(d["arg0"], "m.config.Keyring.GetKeys()") {
					return false, "keys: " + untok(d["arg0"])
				}
				if untok(d["arg1"]) != rm+"#0" {
					return false, "ciphertext: " + untok(d["arg1"])
				}
				aad := untok(d["arg2"])
				want := "[]byte(" + rm + "#1)"
				if e.Cube["m.config.SkipInboundLabelCheck"] == "T" {
					want = "[]byte(m.config.Label)" // the received label is empty here; the node's own label is what senders sealed with
				}
				if aad != want {
					return false, "associated data is " + aad + ", expected " + want
				}
				return true, ""
			})
		c.Floor("decrypt calls on the packet path", n, 1)
		c.flowMay(x, prop+"/packet/checksum", "packet path: a payload announced as checksummed is dispatched only if the checksum over the rest matches", func(e *gea.Effect) bool {
			return e.Class == disp && strings.Contains(e.Detail["arg0"], "[5:]")
		}, func(e *gea.Effect) (bool, string) {
			for k, v := range e.Cube {
				u := untok(k)
				if strings.HasPrefix(u, "cmp(") && strings.Contains(u, "crc32.ChecksumIEEE(") && strings.Contains(u, "binary.BigEndian.Uint32(") {
					return v == "EQ", "checksum mismatch dispatched"
				}
			}
			return false, "no checksum comparison on this path"
		})
	}
}

// checkHandleConn covers the inbound stream handler.
func checkHandleConn(c *Ctx, prop string, wantLabel, wantAuth bool) {
	fn := c.MustFunc("Memberlist.handleConn")
	x := c.flow(fn, map[string]string{})
	const rm = "RemoveLabelHeaderFromStream(conn)"
	if wantLabel {
		n := c.flowMay(x, prop+"/stream/label", "stream path: the stream reader (and everything after it) is reached only if the label header was removed without error and the received label equals the configured one (inbound check delegated: only without a label header)",
			func(e *gea.Effect) bool {
				switch {
				case strings.HasPrefix(e.Class, "CALL:Log"), e.Class == "CALL:RemoveLabelHeaderFromStream", e.Class == "CONNCLOSE", strings.HasPrefix(e.Class, "DEADLINE"):
					return false
				}
				return true
			}, func(e *gea.Effect) (bool, string) { return labelAccepted(e.Cube, rm) })
		c.Floor("post-label effects on the stream path", n, 8)
		c.flowMay(x, prop+"/stream/reader-args", "stream path: the reader gets the connection wrapped after header removal and the accepted label (the configured one when the inbound check is delegated)",
			func(e *gea.Effect) bool { return e.Class == "CALL:Memberlist.readStream" }, func(e *gea.Effect) (bool, string) {
				d := e.Detail
				lbl := untok(d["arg1"])
				okLbl := lbl == rm+"#1" || (e.Cube["m.config.SkipInboundLabelCheck"] == "T" && lbl == "m.config.Label")
				return untok(d["arg0"]) == rm+"#0" && okLbl, fmt.Sprintf("readStream(%s, %s)", untok(d["arg0"]), lbl)
			})
	}
	if wantAuth {
		rs := "m.readStream(conn,streamLabel)#3==nil"
		c.flowMay(x, prop+"/stream/acts-only-after-read", "stream path: user-message / push-pull / ping handling is reached only if the stream reader returned without error; after a reader error the only reaction is (at most) one generic error reply",
			func(e *gea.Effect) bool {
				switch e.Class {
				case "CALL:Memberlist.readUserMsg", "CALL:Memberlist.readRemoteState", "CALL:Memberlist.sendLocalState", "CALL:Memberlist.mergeRemoteState", "DECODE", "ATOMICW:Memberlist.pushPullReq", "CALL:Memberlist.rawSendMsgStream", "CALL:encode":
					return true
				}
				return false
			}, func(e *gea.Effect) (bool, string) {
				var v string
				found := false
				for k, val := range e.Cube {
					u := untok(k)
					if strings.HasPrefix(u, "m.readStream(") && strings.HasSuffix(u, "#3==nil") {
						v, found = val, true
					}
				}
				_ = rs
				if !found {
					return false, "reader error not tested"
				}
				if v == "T" {
					return true, ""
				}
				// error path: only encode(errMsg) and one raw send
				if e.Class == "CALL:encode" {
					return e.Detail["arg0"] == "errMsg", "encodes " + e.Detail["arg0"] + " on the error path"
				}
				if e.Class == "CALL:Memberlist.rawSendMsgStream" {
					return e.Seen["CALL:Memberlist.rawSendMsgStream"] == 0 && e.Seen["CALL:encode"] == 1, "more than the generic error reply"
				}
				return false, "acts on a stream whose reader failed"
			})
	}
}

// checkReadStream: the stream reader returns without error only for an
// authenticated encrypted stream, or a plaintext stream when that is allowed.
func checkReadStream(c *Ctx, prop string) {
	fn := c.MustFunc("Memberlist.readStream")
	// the reader and its decrypt step are explored as one unit: a check may sit on either
	// side of the call
	x := c.flowWith(fn, map[string]string{}, []string{"Memberlist.decryptRemoteState"})
	rule := "stream reader: returns without error only if the stream was encrypted, encryption is configured and decryption succeeded - or the stream was plaintext and not (encryption configured and incoming verification on)"
	c.Rule(rule)
	n := 0
	for _, ex := range x.Exits {
		if len(ex.Ret) != 4 || ex.Ret[3] != "nil" {
			continue
		}
		n++
		typ := ""
		for k, v := range ex.Cube {
			if firstByteRe.MatchString(untok(k)) {
				typ = v
			}
		}
		ok, why := false, ""
		enc, hasEnc := ex.Cube["encOn"]
		switch {
		case typ == "encryptMsg":
			_, dv, okd := atomPS(ex.Cube, "decryptPayload(", "#1==nil")
			ok = hasEnc && enc == "T" && okd && dv == "T"
			why = "encrypted stream accepted without configured encryption / successful decryption"
			if r0 := untok(ex.Ret[0]); ok && !strings.Contains(r0, "decryptPayload(") && !strings.HasPrefix(r0, "decompressBuffer(") {
				ok, why = false, "message type not taken from the decrypted plaintext"
			}
		case typ != "" && !gea.EnumIs(typ, "encryptMsg"):
			ok = hasEnc && (enc == "F" || ex.Cube["m.config.GossipVerifyIncoming"] == "F")
			why = "plaintext stream accepted although encryption is configured and incoming verification is on"
		default:
			why = "first byte not classified as encrypted / not encrypted"
		}
		c.Check(prop+"/stream-reader/returns", rule, ex.Pos, ok, why+" {"+untok(gea.CubeString(ex.Cube))+"}")
	}
	c.Floor("successful exits of the stream reader", n, 3)
	// the decrypt step: keys, ciphertext and associated data (streamLabel is the reader's
	// own parameter: the label it was asked to accept)
	xd := x
	nd := c.flowMay(xd, prop+"/stream-decrypt/args", "stream decryption: all installed keys; ciphertext = bytes after the 5-byte header; associated data = message type byte + 4-byte length + stream label",
		func(e *gea.Effect) bool { return e.Class == "CALL:decryptPayload" }, func(e *gea.Effect) (bool, string) {
			d := e.Detail
			if !strings.HasPrefix(d["arg0"], "m.config.Keyring.GetKeys()") {
				return false, "keys: " + untok(d["arg0"])
			}
			ct, aad := untok(d["arg1"]), untok(d["arg2"])
			if !strings.HasSuffix(ct, ".Bytes()[5:]") {
				return false, "ciphertext: " + ct
			}
			if !strings.HasPrefix(aad, "appendBytes(") || !strings.Contains(aad, ".Bytes()[:5]") || !strings.Contains(aad, "[]byte(streamLabel)") {
				return false, "associated data: " + aad
			}
			return true, ""
		})
	c.Floor("decrypt calls in the stream decryptor", nd, 1)
}

// checkDecryptHelper: plaintext is returned only from a successful Open with
// one of the supplied keys; and (authenticated-influence rule) no byte of the
// message outside nonce / ciphertext / associated data selects how the
// plaintext is post-processed.
func checkDecryptHelper(c *Ctx, prop string) {
	p := c.P
	// the decrypt pipeline is explored as one unit: decryptPayload with the per-key helper
	// (decryptMessage on the reviewed tree) and any helper extracted later followed in place
	dp := c.MustFunc("decryptPayload")
	xp := c.flowWith(dp, map[string]string{}, []string{"decryptMessage"})
	rule := "decryption returns plaintext only from a successful AEAD.Open under a supplied key with the caller's associated data"
	c.Rule(rule)
	no := c.flowMay(xp, prop+"/decrypt/open-args", "AEAD.Open gets nonce and ciphertext from the message and the caller's associated data", func(e *gea.Effect) bool { return e.Class == "AEAD:Open" },
		func(e *gea.Effect) (bool, string) {
			d := e.Detail
			return d["arg3"] == "data" && strings.HasPrefix(untok(d["arg1"]), "msg[1:13]") && strings.HasPrefix(untok(d["arg2"]), "msg[13:]"), fmt.Sprintf("Open(_, %s, %s, %s)", untok(d["arg1"]), untok(d["arg2"]), d["arg3"])
		})
	c.Floor("AEAD.Open calls", no, 1)
	// successful returns: the value must derive from Open's result on its success edge
	var rets []string
	distinct := map[string]map[string]string{}
	for _, ex := range xp.Exits {
		// a return that can report success: (value, nil), or the (value, error)
		// pair of a call handed through (e.g. the padding remover's)
		succ := len(ex.Ret) == 2 && ex.Ret[1] == "nil"
		if len(ex.Ret) == 1 && strings.Contains(ex.Ret[0], "(") {
			succ = true
		}
		if !succ {
			continue
		}
		dv, ok := "", false
		for k, v := range ex.Cube {
			if u := untok(k); strings.Contains(u, ".Open(") && strings.HasSuffix(u, "#1==nil") {
				dv, ok = v, true
			}
		}
		r := untok(ex.Ret[0])
		c.Check(prop+"/decrypt/plaintext-only-after-open", rule, ex.Pos, ok && dv == "T" && ex.Seen["AEAD:Open"] > 0 && strings.Contains(r, ".Open("), "decryptPayload returns "+r+" without a successful Open")
		if _, seen := distinct[r]; !seen {
			distinct[r] = ex.Cube
			rets = append(rets, r)
		}
	}
	// authenticated influence: if the accepted plaintext differs between success
	// paths, the distinguishing condition must not be a message byte that Open did not cover
	c.Floor("decryptPayload success returns", len(rets), 1)
	ruleA := "authenticated influence: every byte of the received message that selects how the plaintext is post-processed after a successful Open lies inside the nonce, ciphertext or associated data given to Open"
	c.Rule(ruleA)
	if len(rets) > 1 {
		// which atoms differ between the success paths?
		culprit := ""
		for k := range distinct[rets[0]] {
			u := untok(k)
			if (strings.Contains(u, "msg[0]")) && distinct[rets[0]][k] != distinct[rets[1]][k] {
				culprit = u
			}
		}
		if culprit == "" {
			for k := range distinct[rets[1]] {
				if strings.Contains(untok(k), "msg[0]") {
					culprit = untok(k)
				}
			}
		}
		c.Check(prop+"/auth-influence/decryptPayload:msg[0]", ruleA, dp.Decl.Pos(), culprit == "",
			fmt.Sprintf("after a successful Open the plaintext is post-processed differently (%s) depending on %s; msg[0] (the encryption version byte) is outside msg[1:13] (nonce), msg[13:] (ciphertext) and the associated data, so flipping it makes the receiver accept a different plaintext than the sender sealed", strings.Join(rets, " vs "), culprit))
	} else {
		c.Check(prop+"/auth-influence/decryptPayload:msg[0]", ruleA, dp.Decl.Pos(), true, "")
	}
	_ = p
	_ = core.RootPath
}

// checkPacketDelivery: a claim that arrived in a packet and decoded is handed
// to its handler on every path; only a failed decode or, for alive claims, the
// source / advertised address gate (C18) may drop it. A filter on the claim's
// contents in front of the handler hides accusations from the refutation logic
// and departures / failures from the membership table.
func checkPacketDelivery(c *Ctx, prop string) {
	rule := "every suspect / alive / dead claim that decoded is handed to its handler on every path; the only things that may drop one are a failed decode and (alive) the source / advertised address gates"
	c.Rule(rule)
	n := 0
	for _, h := range []struct{ name, callee string }{
		{"Memberlist.handleSuspect", "CALL:Memberlist.suspectNode"},
		{"Memberlist.handleAlive", "CALL:Memberlist.aliveNode"},
		{"Memberlist.handleDead", "CALL:Memberlist.deadNode"},
	} {
		fn := c.MustFunc(h.name)
		x := c.flow(fn, map[string]string{})
		for _, ex := range x.Exits {
			if ex.Kind == "panic" {
				continue
			}
			n++
			if ex.Seen[h.callee] > 0 {
				continue
			}
			consent := ""
			for k, v := range ex.Cube {
				u := untok(k)
				if v != "F" || !strings.HasSuffix(u, "==nil") {
					continue
				}
				switch {
				case strings.Contains(u, "decode("):
					consent = "decode failed"
				case h.name == "Memberlist.handleAlive" && (strings.Contains(u, "ensureCanConnect(") || strings.Contains(u, "IPAllowed(")):
					consent = "address gate"
				}
			}
			c.Check(prop+"/packet/delivers-all/"+h.name, rule, ex.Pos, consent != "",
				fmt.Sprintf("exit at %s without %s although the claim decoded and passed the address gates {%s}", c.P.Pos(ex.Pos), strings.TrimPrefix(h.callee, "CALL:"), gea.CubeString(ex.Cube)))
		}
	}
	c.Floor("exits of the packet claim handlers", n, 6)
}

var ackEncRe = regexp.MustCompile(`encode\(ackRespMsg,&([^,]+),`)

// checkStreamPingAnswer: the TCP fallback ping is answered under the same rule
// as the packet ping - only when it is addressed to this node (or to nobody),
// and with the ping's own sequence number. A node that acknowledges a fallback
// ping meant for another name keeps a crashed member whose address it took
// over alive in every prober's view.
func checkStreamPingAnswer(c *Ctx, prop string) {
	rule := "the stream (TCP fallback) ping is acknowledged only when it names this node or nobody, with the ping's own sequence number"
	c.Rule(rule)
	fn := c.MustFunc("Memberlist.handleConn")
	x := c.flow(fn, map[string]string{})
	n := 0
	for _, e := range x.Effects {
		if e.Class != "CALL:Memberlist.rawSendMsgStream" {
			continue
		}
		m := ackEncRe.FindStringSubmatch(untok(e.Detail["arg1"]))
		if m == nil {
			continue
		}
		n++
		forUs, base := false, ""
		for k, v := range e.Cube {
			u := untok(k)
			if !strings.HasPrefix(u, "eq(") || !strings.Contains(u, ".Node") {
				continue
			}
			if v == "T" && (strings.Contains(u, `eq("",`) || strings.Contains(u, "m.config.Name")) {
				forUs = true
				if i := strings.LastIndex(u, ","); i >= 0 {
					base = strings.TrimSuffix(strings.TrimSuffix(u[i+1:], ")"), ".Node")
					base = strings.TrimSuffix(base, "~")
				}
			}
		}
		c.Check(prop+"/stream-ping/addressed-to-us", rule, e.Pos, forUs, "ack on the stream reachable without the ping naming this node or nobody {"+gea.CubeString(e.Cube)+"}")
		if forUs {
			// the ack's fields as they were when it was encoded (the encoder is handed a pointer,
			// after which the exploration no longer trusts the fields)
			store := e.Store
			for _, enc := range x.Effects {
				if enc.Class == "CALL:encode" && enc.Detail["arg0"] == "ackRespMsg" && subCube(enc.Cube, e.Cube) {
					store = enc.Store
				}
			}
			seq := strings.ReplaceAll(untok(store[m[1]+".SeqNo"].S), "~", "")
			if seq == "" {
				// the ack is built as one composite literal: positional (SeqNo first) or keyed
				lit := strings.ReplaceAll(untok(store[m[1]].S), "~", "")
				if k := strings.Index(lit, "{"); k >= 0 {
					body := lit[k+1:]
					if q := strings.Index(body, "SeqNo:"); q >= 0 {
						body = body[q+len("SeqNo:"):]
					}
					if q := strings.IndexAny(body, ",}"); q >= 0 {
						seq = body[:q]
					}
				}
			}
			c.Check(prop+"/stream-ping/own-seqno", rule, e.Pos, seq == strings.ReplaceAll(base, "~", "")+".SeqNo", "the stream ack carries "+seq+", not the ping's sequence number")
		}
	}
	c.Floor("stream ack sends", n, 1)
}

// checkStreamLabelConsistent: on an accepted stream the label that is
// authenticated with the request (handed to the stream reader) is the label
// every reply on that stream is sealed with - the push/pull reply, the ack of a
// stream ping and the error reply. Under SkipInboundLabelCheck the wire label is
// empty and the configured label takes its place for all of them.
func checkStreamLabelConsistent(c *Ctx, prop string) {
	rule := "every reply on an accepted stream is sealed with the same label the request was authenticated with"
	c.Rule(rule)
	fn := c.MustFunc("Memberlist.handleConn")
	x := c.flow(fn, map[string]string{})
	var reads []*gea.Effect
	for _, e := range x.Effects {
		if e.Class == "CALL:Memberlist.readStream" {
			reads = append(reads, e)
		}
	}
	c.Floor("stream reads in the inbound handler", len(reads), 1)
	n := 0
	for _, e := range x.Effects {
		arg := ""
		switch e.Class {
		case "CALL:Memberlist.sendLocalState", "CALL:Memberlist.rawSendMsgStream":
			arg = e.Detail["arg2"]
		default:
			continue
		}
		n++
		ok, want := true, ""
		for _, r := range reads {
			if subCube(r.Cube, e.Cube) && untok(r.Detail["arg1"]) != untok(arg) {
				ok, want = false, untok(r.Detail["arg1"])
			}
		}
		c.Check(prop+"/stream/reply-label/"+strings.TrimPrefix(e.Class, "CALL:Memberlist."), rule, e.Pos, ok, "the reply is sealed with label "+untok(arg)+" but the request was authenticated with "+want+" {"+untok(gea.CubeString(e.Cube))+"}: the initiator cannot open it")
	}
	c.Floor("replies on the accepted stream", n, 3)
}
