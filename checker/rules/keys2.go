package rules

import (
	"go/ast"
	"go/types"
	"strings"

	"mlverif/core"
	"mlverif/gea"
)

// checkKeyHandling: rules about *which* key material a send or receive uses
// at the moment it is used. They complement the keyring's own integrity rules
// (C17.1-4): the node keeps working on the application's keyring object, asks
// it afresh for every message, and uses each key whole.
func checkKeyHandling(c *Ctx, prop string) {
	p := c.P

	// 1. "encryption is on" is a function of the keyring's *current* content. Every send
	// and receive gate evaluates it (the explorations treat it as one stable atom, which
	// this rule justifies): it may not remember an earlier answer.
	rule1 := "encryption is enabled exactly when a keyring is configured and currently holds a key: the predicate consults the keyring on every call and has no state of its own"
	c.Rule(rule1)
	ee := c.MustFunc("Config.EncryptionEnabled")
	{
		spec := &flowSpec{c: c, alias: map[types.Object]string{}, quiet: map[string]bool{}, noNamed: true}
		if ee.Decl.Recv != nil && len(ee.Decl.Recv.List[0].Names) > 0 {
			spec.alias[p.Info.Defs[ee.Decl.Recv.List[0].Names[0]]] = "c"
		}
		x := gea.New(p, ee.Name+"$def", ee.Decl.Type, ee.Decl.Body, spec)
		x.InlineCallee = c.inlinePolicy
		x.BoolReturns = true
		x.Run()
		if x.Trunc {
			fail("exploration of %s exceeded the state limit", ee.Name)
		}
		c.Funcs[ee.Name] = true
		n := 0
		for _, ex := range x.Exits {
			if len(ex.Ret) != 1 {
				continue
			}
			n++
			ring, has := "", ""
			for k, v := range ex.Cube {
				u := untok(k)
				switch {
				case u == "c.Keyring==nil":
					ring = v
				case strings.HasPrefix(u, "len(c.Keyring.GetKeys()") && strings.HasSuffix(u, ">=1"):
					has = v
				}
			}
			want := ring == "F" && has == "T"
			ok := (ex.Ret[0] == "true") == want && (want || ring == "T" || has == "F")
			c.Check(prop+"/encryption-enabled/definition", rule1, ex.Pos, ok, "returns "+ex.Ret[0]+" under {"+untok(gea.CubeString(ex.Cube))+"}: not (keyring configured and currently non-empty)")
		}
		c.Floor("exits of the encryption-enabled predicate", n, 2)
		stateful := ""
		for _, e := range x.Effects {
			if strings.HasPrefix(e.Class, "W:") || strings.HasPrefix(e.Class, "ATOMICW:") || strings.HasPrefix(e.Class, "MAPINS:") {
				stateful = e.Class
			}
		}
		for k := range c.G.Summary(ee) {
			if strings.HasPrefix(k, "W:") || strings.HasPrefix(k, "ATOMICW:") {
				stateful = k
			}
		}
		c.Check(prop+"/encryption-enabled/stateless", rule1, ee.Decl.Pos(), stateful == "", "the predicate writes state ("+stateful+"): an answer computed while the keyring was empty can outlive the first AddKey")
	}

	// 2. the node works on the application's keyring object: the configuration's keyring
	// field is assigned only while it is nil (a secret key without a keyring), never replaced
	// or cleared afterwards - the application rotates keys through the handle it passed in
	rule2 := "the configured keyring is never replaced or dropped: Config.Keyring is assigned only on a path that found it nil"
	c.Rule(rule2)
	nw := 0
	for _, fn := range p.SortedFuncs() {
		if !pinnedFuncs[fn.Name] {
			continue
		}
		writes := false
		for _, h := range append([]*core.Func{fn}, helpersOf(fn)...) {
			for _, s := range c.G.Sites[h] {
				if s.Kind == "W:Config.Keyring" {
					writes = true
				}
			}
		}
		if !writes {
			continue
		}
		x := c.flow(fn, map[string]string{})
		for _, e := range x.Effects {
			if e.Class != "W:Config.Keyring" {
				continue
			}
			nw++
			wasNil := false
			for k, v := range e.Cube {
				if u := untok(k); strings.HasSuffix(u, ".Keyring==nil") && v == "T" {
					wasNil = true
				}
			}
			c.Check(prop+"/keyring-object-kept/"+fn.Name, rule2, e.Pos, wasNil && e.Detail["val"] != "nil", "Config.Keyring is assigned "+untok(e.Detail["val"])+" on a path that did not find it nil {"+untok(gea.CubeString(e.Cube))+"}: key changes made through the application's handle no longer reach the node (or sends fall back to plaintext)")
		}
	}
	c.Floor("assignments of Config.Keyring", nw, 1)

	// 3. keys are asked for when they are used: nothing that can block on the network lies
	// between fetching the key list and trying it (a removed key must stop being accepted)
	rule3 := "the key list offered to decryption is fetched after the last read from the stream, immediately before use"
	c.Rule(rule3)
	ng := 0
	for _, name := range []string{"Memberlist.decryptRemoteState", "Memberlist.ingestPacket", "Memberlist.readStream"} {
		fn := c.MustFunc(name)
		x := c.flow(fn, map[string]string{})
		ioClasses := map[string]bool{}
		for _, e := range x.Effects {
			if strings.HasPrefix(e.Class, "IO:") || e.Class == "CALL:Memberlist.decryptRemoteState" && false {
				ioClasses[e.Class] = true
			}
		}
		// the number of stream reads on the longest path
		maxIO := 0
		for _, ex := range x.Exits {
			n := 0
			for cl := range ioClasses {
				n += ex.Seen[cl]
			}
			if n > maxIO {
				maxIO = n
			}
		}
		for _, e := range x.Effects {
			if e.Class != "CALL:Keyring.GetKeys" {
				continue
			}
			ng++
			n := 0
			for cl := range ioClasses {
				n += e.Seen[cl]
			}
			// every decrypt that uses this value happens on a path with no read after the fetch
			late := false
			for _, d := range x.Effects {
				if d.Class != "CALL:decryptPayload" || !subCube(e.Cube, d.Cube) {
					continue
				}
				m := 0
				for cl := range ioClasses {
					m += d.Seen[cl]
				}
				if m > n {
					late = true
				}
			}
			c.Check(prop+"/keys-fetched-at-use/"+name, rule3, e.Pos, !late, "the key list is fetched before a read from the stream that precedes its use: a key removed while the sender stalls is still accepted")
		}
	}
	c.Floor("key-list fetches on the receive paths", ng, 2)

	// 4. trying a key never destroys the message for the next key: Open gets no destination
	// that overlaps the ciphertext (crypto/cipher clears dst when authentication fails)
	rule4 := "a failed decryption attempt leaves the ciphertext intact for the next key: AEAD.Open is given a nil destination"
	c.Rule(rule4)
	no := 0
	for _, fn := range p.SortedFuncs() {
		has := false
		for _, s := range c.G.Sites[fn] {
			if s.Kind == "AEAD:Open" {
				has = true
			}
		}
		if !has || !pinnedFuncs[c.rootsOf(fn)[0].Name] && len(c.rootsOf(fn)) == 1 && c.rootsOf(fn)[0] != fn {
			continue
		}
		ast.Inspect(fn.Decl.Body, func(n ast.Node) bool {
			call, ok := n.(*ast.CallExpr)
			if !ok {
				return true
			}
			f := p.Callee(call)
			if f == nil || core.FuncFullName(f) != "crypto/cipher.AEAD.Open" || len(call.Args) != 4 {
				return true
			}
			no++
			dst := ast.Unparen(call.Args[0])
			id, isId := dst.(*ast.Ident)
			c.Check(prop+"/open-keeps-ciphertext/"+fn.Name, rule4, call.Pos(), isId && id.Name == "nil", "AEAD.Open writes its output to "+p.Canon(dst)+": when authentication under one key fails the buffer is cleared and every later key fails too")
			return true
		})
	}
	c.Floor("AEAD.Open call sites", no, 1)

	// 5. each key is used whole: the AES cipher is built from the key the caller handed in,
	// not from a slice or transformation of it
	rule5 := "the AES cipher is built from the whole key it was given (a parameter of the function, unmodified)"
	c.Rule(rule5)
	nc := 0
	for _, fn := range p.SortedFuncs() {
		ast.Inspect(fn.Decl.Body, func(n ast.Node) bool {
			call, ok := n.(*ast.CallExpr)
			if !ok {
				return true
			}
			f := p.Callee(call)
			if f == nil || core.FuncFullName(f) != "crypto/aes.NewCipher" || len(call.Args) != 1 {
				return true
			}
			nc++
			ok2 := wholeParam(c, fn, call.Args[0], 0)
			c.Check(prop+"/whole-key/"+fn.Name, rule5, call.Pos(), ok2, "the cipher is built from "+p.Canon(call.Args[0])+", not from the key as configured: holders of the configured key cannot read the traffic and keys sharing a prefix collapse into one")
			return true
		})
	}
	c.Floor("aes.NewCipher call sites", nc, 2)
}

// wholeParam: e is a parameter of fn, unmodified; if fn is a helper introduced
// after the review, every call site hands that parameter an unmodified
// parameter of its own function in turn.
func wholeParam(c *Ctx, fn *core.Func, e ast.Expr, depth int) bool {
	p := c.P
	id, isId := ast.Unparen(e).(*ast.Ident)
	if !isId || depth > 3 {
		return false
	}
	v, isVar := p.Info.Uses[id].(*types.Var)
	if !isVar {
		return false
	}
	idx, i := -1, 0
	for _, fl := range fn.Decl.Type.Params.List {
		for _, nm := range fl.Names {
			if p.Info.Defs[nm] == v {
				idx = i
			}
			i++
		}
	}
	if idx < 0 {
		// a range variable over a parameter (trying each key of a list) is the key itself
		ok := false
		ast.Inspect(fn.Decl.Body, func(n ast.Node) bool {
			if rs, isR := n.(*ast.RangeStmt); isR {
				if vid, isV := rs.Value.(*ast.Ident); isV && p.Info.Defs[vid] == v {
					ok = true
				}
			}
			return true
		})
		return ok
	}
	if pinnedFuncs[fn.Name] {
		return true
	}
	sites := c.G.Callers(fn)
	if len(sites) == 0 {
		return true
	}
	for _, s := range sites {
		if s.Call == nil || idx >= len(s.Call.Args) || !wholeParam(c, s.Fn, s.Call.Args[idx], depth+1) {
			return false
		}
	}
	return true
}
