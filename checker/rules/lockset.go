package rules

import (
	"fmt"
	"go/ast"
	"go/token"
	"go/types"
	"sort"
	"strings"

	"golang.org/x/tools/go/cfg"

	"mlverif/core"
)

// Lockset analysis: an intraprocedural must-hold dataflow over go/cfg
// (Lock/RLock add, Unlock/RUnlock remove, deferred unlocks are ignored so the
// lock counts as held to the exit), lifted over the package reference graph:
// a function that touches a protected field without holding its lock
// "requires" that lock of all its callers; entry points must require nothing.

type lockMode int

const (
	heldNone lockMode = iota
	heldRead
	heldWrite
)

type lockState map[string]lockMode // mutex name ("Type.field") -> mode

func (s lockState) clone() lockState {
	n := lockState{}
	for k, v := range s {
		n[k] = v
	}
	return n
}

func meet(a, b lockState) lockState {
	n := lockState{}
	for k, v := range a {
		if w, ok := b[k]; ok {
			if w < v {
				v = w
			}
			if v != heldNone {
				n[k] = v
			}
		}
	}
	return n
}

func eqState(a, b lockState) bool {
	if len(a) != len(b) {
		return false
	}
	for k, v := range a {
		if b[k] != v {
			return false
		}
	}
	return true
}

// access is one read or write of a protected field, or a call into a
// function of the package, with the lockset at that point.
type access struct {
	Field string // protected field "Type.field" ("" for calls)
	Write bool
	Pos   token.Pos
	Held  lockState
	Call  *types.Func // callee for call records
	Lit   *ast.FuncLit
}

type lockUnit struct {
	Name    string
	Fn      *core.Func // enclosing declaration
	Body    *ast.BlockStmt
	Lit     *ast.FuncLit
	Entry   lockState // locks known held on entry (inline closures)
	Detach  bool      // runs on its own goroutine / later (go, AfterFunc, stored callbacks)
	Created lockState // locks held where the literal is evaluated
	Acc     []access
}

type lockAnalysis struct {
	c         *Ctx
	protected map[string]string // field -> mutex
	exemptFn  map[string]string // function name -> reason: its accesses happen before publication
	units     []*lockUnit
	byDecl    map[*core.Func]*lockUnit
	byLit     map[*ast.FuncLit]*lockUnit
}

// mutexName names the mutex a Lock/Unlock call operates on.
func mutexName(p *core.Prog, call *ast.CallExpr) (string, string) {
	se, ok := ast.Unparen(call.Fun).(*ast.SelectorExpr)
	if !ok {
		return "", ""
	}
	f := p.Callee(call)
	if f == nil {
		return "", ""
	}
	full := core.FuncFullName(f)
	if !strings.HasPrefix(full, "sync.Mutex.") && !strings.HasPrefix(full, "sync.RWMutex.") {
		return "", ""
	}
	op := f.Name()
	// m.nodeLock.Lock(): receiver expression selects a field
	if fo := p.FieldOwner(se.X); fo != "" {
		return fo, op
	}
	// embedded mutex: a.Lock() where a is *awareness
	if sel := p.Info.Selections[se]; sel != nil && len(sel.Index()) > 1 {
		if n := core.NamedOf(p.TypeOf(se.X)); n != "" {
			return n + ".(embedded)", op
		}
	}
	return p.Canon(se.X), op
}

func newLockAnalysis(c *Ctx, protected map[string]string) *lockAnalysis {
	la := &lockAnalysis{c: c, protected: protected, byDecl: map[*core.Func]*lockUnit{}, byLit: map[*ast.FuncLit]*lockUnit{}}
	p := c.P
	for _, fn := range p.SortedFuncs() {
		u := &lockUnit{Name: fn.Name, Fn: fn, Body: fn.Decl.Body, Entry: lockState{}}
		la.units = append(la.units, u)
		la.byDecl[fn] = u
	}
	// analyse declarations first; literals are added as they are discovered
	for i := 0; i < len(la.units); i++ {
		la.analyse(la.units[i])
	}
	// helpers introduced after the review start with the locks every one of their (direct)
	// call sites holds: their code used to be part of the callers
	for round := 0; round < 3; round++ {
		changed := false
		for _, fn := range p.SortedFuncs() {
			if pinnedFuncs[fn.Name] {
				continue
			}
			u := la.byDecl[fn]
			var entry lockState
			ok := true
			for _, s := range c.G.Callers(fn) {
				if s.Ref {
					ok = false
				}
			}
			n := 0
			for _, cu := range la.units {
				for _, a := range cu.Acc {
					if a.Call != fn.Obj {
						continue
					}
					n++
					if entry == nil {
						entry = a.Held.clone()
					} else {
						entry = meet(entry, a.Held)
					}
				}
			}
			if !ok || n == 0 || entry == nil {
				entry = lockState{}
			}
			if eqState(entry, u.Entry) {
				continue
			}
			changed = true
			u.Entry = entry
			u.Acc = nil
			var keep []*lockUnit
			for _, x := range la.units {
				if x.Lit != nil && x.Fn == fn {
					delete(la.byLit, x.Lit)
					continue
				}
				keep = append(keep, x)
			}
			la.units = keep
			start := len(la.units)
			la.analyse(u)
			for i := start; i < len(la.units); i++ {
				la.analyse(la.units[i])
			}
		}
		if !changed {
			break
		}
	}
	return la
}

func (la *lockAnalysis) analyse(u *lockUnit) {
	p := la.c.P
	g := cfg.New(u.Body, func(call *ast.CallExpr) bool { return p.Builtin(call) != "panic" })
	in := map[*cfg.Block]lockState{}
	seen := map[*cfg.Block]bool{}
	if len(g.Blocks) == 0 {
		return
	}
	in[g.Blocks[0]] = u.Entry.clone()
	seen[g.Blocks[0]] = true
	work := []*cfg.Block{g.Blocks[0]}
	transfer := func(b *cfg.Block, st lockState, record bool) lockState {
		st = st.clone()
		for _, n := range b.Nodes {
			la.node(u, n, st, record)
		}
		return st
	}
	for len(work) > 0 {
		b := work[0]
		work = work[1:]
		out := transfer(b, in[b], false)
		for _, s := range b.Succs {
			if !seen[s] {
				seen[s] = true
				in[s] = out.clone()
				work = append(work, s)
				continue
			}
			m := meet(in[s], out)
			if !eqState(m, in[s]) {
				in[s] = m
				work = append(work, s)
			}
		}
	}
	for _, b := range g.Blocks {
		if seen[b] {
			transfer(b, in[b], true)
		}
	}
}

// node interprets one CFG node: lock operations update st; field accesses,
// calls and nested literals are recorded (when record is set).
func (la *lockAnalysis) node(u *lockUnit, n ast.Node, st lockState, record bool) {
	p := la.c.P
	if ds, ok := n.(*ast.DeferStmt); ok {
		if mu, op := mutexName(p, ds.Call); mu != "" && (op == "Unlock" || op == "RUnlock") {
			return // released at exit: held for the rest of the function
		}
		if fl, ok := ast.Unparen(ds.Call.Fun).(*ast.FuncLit); ok {
			// deferred closure: runs before the deferred unlocks registered earlier
			if record {
				la.addLit(u, fl, st.clone(), false, st)
			}
			return
		}
	}
	if gs, ok := n.(*ast.GoStmt); ok {
		if fl, ok := ast.Unparen(gs.Call.Fun).(*ast.FuncLit); ok {
			if record {
				la.addLit(u, fl, lockState{}, true, st)
			}
			for _, a := range gs.Call.Args {
				la.expr(u, a, st, record, false)
			}
			return
		}
		if record {
			if f := p.Callee(gs.Call); f != nil && p.ByObj[f] != nil {
				u.Acc = append(u.Acc, access{Pos: gs.Pos(), Held: lockState{}, Call: f})
			}
		}
		for _, a := range gs.Call.Args {
			la.expr(u, a, st, record, false)
		}
		return
	}
	switch v := n.(type) {
	case *ast.AssignStmt:
		for _, r := range v.Rhs {
			la.expr(u, r, st, record, false)
		}
		for _, l := range v.Lhs {
			la.expr(u, l, st, record, v.Tok != token.DEFINE || true)
		}
	case *ast.IncDecStmt:
		la.expr(u, v.X, st, record, true)
	case *ast.ExprStmt:
		la.expr(u, v.X, st, record, false)
	case *ast.ReturnStmt:
		for _, r := range v.Results {
			la.expr(u, r, st, record, false)
		}
	case *ast.SendStmt:
		la.expr(u, v.Chan, st, record, false)
		la.expr(u, v.Value, st, record, false)
	case *ast.DeferStmt:
		la.expr(u, v.Call, st, record, false)
	case *ast.ValueSpec:
		for _, r := range v.Values {
			la.expr(u, r, st, record, false)
		}
	case *ast.DeclStmt:
	case ast.Expr:
		la.expr(u, v, st, record, false)
	}
}

func (la *lockAnalysis) addLit(u *lockUnit, fl *ast.FuncLit, entry lockState, detach bool, created lockState) {
	if la.byLit[fl] != nil {
		return
	}
	nu := &lockUnit{Name: fmt.Sprintf("%s$func@%d", u.Fn.Name, la.c.P.Fset.Position(fl.Pos()).Line), Fn: u.Fn, Body: fl.Body, Lit: fl, Entry: entry, Detach: detach, Created: created.clone()}
	la.byLit[fl] = nu
	la.units = append(la.units, nu)
}

// expr walks an expression in evaluation order.
func (la *lockAnalysis) expr(u *lockUnit, e ast.Expr, st lockState, record bool, write bool) {
	p := la.c.P
	if e == nil {
		return
	}
	switch v := e.(type) {
	case *ast.ParenExpr:
		la.expr(u, v.X, st, record, write)
	case *ast.FuncLit:
		// a literal used as a value: runs later with unknown locks unless it is
		// an argument of a call (handled in CallExpr)
		if record {
			la.addLit(u, v, lockState{}, true, st)
		}
	case *ast.CallExpr:
		if mu, op := mutexName(p, v); mu != "" {
			switch op {
			case "Lock":
				st[mu] = heldWrite
			case "RLock":
				if st[mu] < heldRead {
					st[mu] = heldRead
				}
			case "Unlock", "RUnlock":
				delete(st, mu)
			}
			return
		}
		if !p.IsConversion(v) {
			if se, ok := ast.Unparen(v.Fun).(*ast.SelectorExpr); ok {
				la.expr(u, se.X, st, record, false)
			}
		}
		callee := p.Callee(v)
		detachedArg := false
		if callee != nil {
			switch core.FuncFullName(callee) {
			case "time.AfterFunc":
				detachedArg = true
			}
		}
		for _, a := range v.Args {
			if fl, ok := ast.Unparen(a).(*ast.FuncLit); ok {
				if record {
					if detachedArg {
						la.addLit(u, fl, lockState{}, true, st)
					} else {
						la.addLit(u, fl, st.clone(), false, st) // invoked by the callee while we hold our locks
					}
				}
				continue
			}
			la.expr(u, a, st, record, false)
		}
		if b := p.Builtin(v); b == "delete" || b == "append" || b == "clear" {
			// delete(m.x, k) / append(m.x, ...) : the first operand is written / read
			if b != "append" && len(v.Args) > 0 {
				la.expr(u, v.Args[0], st, record, true)
			}
		}
		if record && callee != nil && p.ByObj[callee] != nil {
			u.Acc = append(u.Acc, access{Pos: v.Pos(), Held: st.clone(), Call: callee})
		}
	case *ast.SelectorExpr:
		if fo := p.FieldOwner(v); fo != "" {
			if _, prot := la.protected[fo]; prot && record {
				u.Acc = append(u.Acc, access{Field: fo, Write: write, Pos: v.Pos(), Held: st.clone()})
			}
		}
		la.expr(u, v.X, st, record, false)
	case *ast.IndexExpr:
		la.expr(u, v.X, st, record, write) // m.x[k] = v writes the container
		la.expr(u, v.Index, st, record, false)
	case *ast.SliceExpr:
		la.expr(u, v.X, st, record, false)
		la.expr(u, v.Low, st, record, false)
		la.expr(u, v.High, st, record, false)
		la.expr(u, v.Max, st, record, false)
	case *ast.StarExpr:
		la.expr(u, v.X, st, record, write)
	case *ast.UnaryExpr:
		la.expr(u, v.X, st, record, write || v.Op == token.AND)
	case *ast.BinaryExpr:
		la.expr(u, v.X, st, record, false)
		la.expr(u, v.Y, st, record, false)
	case *ast.TypeAssertExpr:
		la.expr(u, v.X, st, record, false)
	case *ast.CompositeLit:
		for _, el := range v.Elts {
			if kv, ok := el.(*ast.KeyValueExpr); ok {
				la.expr(u, kv.Value, st, record, false)
			} else {
				la.expr(u, el, st, record, false)
			}
		}
	case *ast.KeyValueExpr:
		la.expr(u, v.Value, st, record, false)
	}
}

// requirement: lock needed by a unit's callers, with the access that needs it.
type requirement struct {
	Mutex string
	Write bool
	Why   string
	Pos   token.Pos
}

// requires computes, per declared function, the locks its callers must hold.
func (la *lockAnalysis) requires() map[*core.Func][]requirement {
	p := la.c.P
	req := map[*lockUnit]map[string]requirement{}
	for _, u := range la.units {
		req[u] = map[string]requirement{}
	}
	need := func(u *lockUnit, r requirement) bool {
		cur, ok := req[u][r.Mutex]
		if !ok || (r.Write && !cur.Write) {
			req[u][r.Mutex] = r
			return true
		}
		return false
	}
	satisfied := func(h lockState, mu string, write bool) bool {
		m := h[mu]
		if write {
			return m == heldWrite
		}
		return m >= heldRead
	}
	changed := true
	for changed {
		changed = false
		for _, u := range la.units {
			for _, a := range u.Acc {
				if a.Field != "" {
					mu := la.protected[a.Field]
					if _, ex := la.exemptFn[u.Fn.Name]; ex {
						continue
					}
					if !satisfied(a.Held, mu, a.Write) {
						kind := "read"
						if a.Write {
							kind = "write"
						}
						if need(u, requirement{Mutex: mu, Write: a.Write, Why: fmt.Sprintf("%s of %s at %s", kind, a.Field, p.Pos(a.Pos)), Pos: a.Pos}) {
							changed = true
						}
					}
					continue
				}
				if a.Call != nil {
					cu := la.byDecl[p.ByObj[a.Call]]
					if cu == nil {
						continue
					}
					for mu, r := range req[cu] {
						if !satisfied(a.Held, mu, r.Write) {
							if need(u, requirement{Mutex: mu, Write: r.Write, Why: fmt.Sprintf("call to %s at %s -> %s", cu.Name, p.Pos(a.Pos), r.Why), Pos: a.Pos}) {
								changed = true
							}
						}
					}
				}
			}
		}
		// inline closures propagate to their parent unless the parent held the lock at creation (already in Entry)
		for _, u := range la.units {
			if u.Lit == nil || u.Detach {
				continue
			}
			parent := la.parentOf(u)
			if parent == nil {
				continue
			}
			for _, r := range req[u] {
				if need(parent, requirement{Mutex: r.Mutex, Write: r.Write, Why: "closure " + u.Name + ": " + r.Why, Pos: r.Pos}) {
					changed = true
				}
			}
		}
	}
	out := map[*core.Func][]requirement{}
	for _, u := range la.units {
		if u.Lit != nil && !u.Detach {
			continue
		}
		var rs []requirement
		for _, r := range req[u] {
			rs = append(rs, r)
		}
		sort.Slice(rs, func(i, j int) bool { return rs[i].Mutex < rs[j].Mutex })
		if u.Lit != nil {
			// detached closure: must be self-sufficient; report under its parent's name
			if len(rs) > 0 {
				out[u.Fn] = append(out[u.Fn], tagReq(rs, "detached closure "+u.Name+": ")...)
			}
			continue
		}
		la.declReq(out, u.Fn, rs)
	}
	return out
}

func tagReq(rs []requirement, tag string) []requirement {
	out := make([]requirement, len(rs))
	for i, r := range rs {
		r.Why = tag + r.Why
		r.Mutex = "!" + r.Mutex // '!' marks a requirement nobody can satisfy
		out[i] = r
	}
	return out
}

func (la *lockAnalysis) declReq(out map[*core.Func][]requirement, fn *core.Func, rs []requirement) {
	out[fn] = append(out[fn], rs...)
}

func (la *lockAnalysis) parentOf(u *lockUnit) *lockUnit {
	// the innermost unit whose body contains the literal
	var best *lockUnit
	for _, cand := range la.units {
		if cand == u {
			continue
		}
		if cand.Body.Pos() <= u.Lit.Pos() && u.Lit.End() <= cand.Body.End() {
			if best == nil || (cand.Body.Pos() >= best.Body.Pos() && cand.Body.End() <= best.Body.End()) {
				best = cand
			}
		}
	}
	return best
}

// checkLocking reports, for every entry point (exported function/method,
// goroutine target, detached closure), the locks it would need from a caller.
func (c *Ctx) checkLocking(prop string, protected map[string]string, exempt map[string]string, floorAccesses int) {
	p := c.P
	la := newLockAnalysis(c, protected)
	la.exemptFn = exempt
	for fn, why := range exempt {
		c.Notes = append(c.Notes, "lock exemption "+fn+": "+why)
	}
	req := la.requires()
	rule := "lock discipline: every access to a protected field happens with its mutex held (write mode for writes), directly or at every call site of the helper that performs it"
	c.Rule(rule)
	nacc := 0
	for _, u := range la.units {
		for _, a := range u.Acc {
			if a.Field != "" {
				nacc++
			}
		}
	}
	c.Floor("accesses to protected fields", nacc, floorAccesses)
	c.Extra["protected_field_accesses"] = nacc
	// entry points: exported, referenced as values / go targets, or without callers in the package
	called := map[*core.Func]bool{}
	valueRef := map[*core.Func]bool{}
	for _, fn := range p.SortedFuncs() {
		for _, s := range c.G.Sites[fn] {
			if s.Kind == "CALL" {
				if t := p.ByObj[s.To]; t != nil {
					if s.Ref || s.InGo {
						valueRef[t] = true
					} else {
						called[t] = true
					}
				}
			}
		}
	}
	for _, fn := range p.SortedFuncs() {
		rs := req[fn]
		entry := ast.IsExported(fn.Decl.Name.Name) || valueRef[fn]
		if !entry && !called[fn] {
			// an unexported function nobody in the non-test build calls or references is
			// unreachable (a test helper, or left over after its last call site was inlined),
			// unless it can be reached through an interface declared in this package
			entry = (ifaceMethodNames(p)[fn.Decl.Name.Name] && fn.Decl.Recv != nil) || (fn.Decl.Recv == nil && (fn.Decl.Name.Name == "init" || fn.Decl.Name.Name == "main"))
			if !entry {
				c.Notes = append(c.Notes, "not an entry point (unexported, no non-test caller or reference): "+fn.Name)
			}
		}
		for _, r := range rs {
			detached := strings.HasPrefix(r.Mutex, "!")
			if !entry && !detached {
				continue // satisfied (or not) at its call sites, which are judged there
			}
			mu := strings.TrimPrefix(r.Mutex, "!")
			key := fmt.Sprintf("%s/lock/%s/%s", prop, fn.Name, mu)
			c.Check(key, rule, r.Pos, false, fmt.Sprintf("entry point %s needs %s held: %s", fn.Name, mu, r.Why))
		}
		if len(rs) == 0 || !entry {
			// record a discharged obligation per function that touches protected state
			touches := false
			if u := la.byDecl[fn]; u != nil {
				for _, a := range u.Acc {
					if a.Field != "" {
						touches = true
					}
				}
			}
			if touches {
				c.Check(fmt.Sprintf("%s/lock/%s", prop, fn.Name), rule, fn.Decl.Pos(), true, "")
			}
		}
	}
}

// ifaceMethodNames: names of the methods of the interface types the root package declares.
func ifaceMethodNames(p *core.Prog) map[string]bool {
	out := map[string]bool{}
	sc := p.Types.Scope()
	for _, n := range sc.Names() {
		if tn, ok := sc.Lookup(n).(*types.TypeName); ok {
			if it, ok := tn.Type().Underlying().(*types.Interface); ok {
				for i := 0; i < it.NumMethods(); i++ {
					out[it.Method(i).Name()] = true
				}
			}
		}
	}
	return out
}
