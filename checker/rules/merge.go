package rules

import (
	"go/ast"
	"go/types"
	"regexp"
	"strings"

	"mlverif/core"
	"mlverif/gea"
)

// baseIsLocalLiteral: the store site.Node (x.f = ...) has a base variable that
// is defined in fn from a composite literal (or its address).
func baseIsLocalLiteral(p *core.Prog, fn *core.Func, s *core.Site) bool {
	sel, ok := ast.Unparen(s.Node.(ast.Expr)).(*ast.SelectorExpr)
	if !ok {
		return false
	}
	base := ast.Unparen(sel.X)
	for {
		if inner, ok := base.(*ast.SelectorExpr); ok && p.Info.Selections[inner] != nil {
			base = ast.Unparen(inner.X)
			continue
		}
		break
	}
	id, ok := base.(*ast.Ident)
	if !ok {
		return false
	}
	obj := p.Info.Uses[id]
	if obj == nil {
		obj = p.Info.Defs[id]
	}
	found := false
	inspectFn(fn, func(n ast.Node) bool {
		as, ok := n.(*ast.AssignStmt)
		if !ok {
			return true
		}
		for i, l := range as.Lhs {
			lid, ok := l.(*ast.Ident)
			if !ok || i >= len(as.Rhs) {
				continue
			}
			o := p.Info.Defs[lid]
			if o == nil {
				o = p.Info.Uses[lid]
			}
			if o == obj && compositeLit(as.Rhs[i]) != nil {
				found = true
			}
		}
		return true
	})
	return found
}

// mergeModel explores the push/pull merge function: the method of
// *Memberlist that ranges over remote states and calls all three handlers.
func (c *Ctx) mergeModel() *handlerModel {
	if m, ok := c.models["merge"]; ok {
		return m.(*handlerModel)
	}
	p := c.P
	hm := c.handlerModels()
	var target *core.Func
	for _, fn := range p.SortedFuncs() {
		calls := map[*types.Func]bool{}
		for _, s := range c.G.Sites[fn] {
			if s.Kind == "CALL" && !s.Ref {
				calls[s.To] = true
			}
		}
		if calls[hm["alive"].fn.Obj] && calls[hm["suspect"].fn.Obj] && calls[hm["dead"].fn.Obj] {
			if target != nil {
				fail("anchor ambiguous: two functions call all three claim handlers (%s, %s)", target.Name, fn.Name)
			}
			target = fn
		}
	}
	if target == nil {
		fail("anchor unresolved: push/pull merge function (calls all three claim handlers)")
	}
	spec := &hSpec{c: c, kind: "merge", fn: target}
	if target.Decl.Recv != nil && len(target.Decl.Recv.List[0].Names) > 0 {
		spec.recv = p.Info.Defs[target.Decl.Recv.List[0].Names[0]]
	}
	x := gea.New(p, target.Name, target.Decl.Type, target.Decl.Body, spec)
	x.InlineCallee = c.inlinePolicy
	x.DeclareVar("RS", stateDom)
	// the range value variable is "r"
	inspectFn(target, func(n ast.Node) bool {
		if rs, ok := n.(*ast.RangeStmt); ok && rs.Value != nil {
			if id, ok := rs.Value.(*ast.Ident); ok && core.NamedOf(p.TypeOf(id)) == "pushNodeState" {
				x.SetAlias(p.Info.Defs[id], "r")
			}
		}
		return true
	})
	x.Run()
	if x.Trunc {
		fail("exploration of %s exceeded the state limit", target.Name)
	}
	c.Funcs[target.Name] = true
	m := &handlerModel{kind: "merge", fn: target, x: x, name: target.Name}
	c.models["merge"] = m
	return m
}

var markRe = regexp.MustCompile(`~(@[0-9]+:[0-9]+@)+`)

// unmark strips modification markers from a value name (the marker only says
// "the value this location holds in the current loop iteration").
func unmark(s string) string { return markRe.ReplaceAllString(s, "") }

func checkMerge(c *Ctx, prop string) {
	m := c.mergeModel()
	for _, e := range m.x.Effects {
		for k, v := range e.Detail {
			e.Detail[k] = unmark(v)
		}
	}
	rs := func(g getf) string { return g("RS") }
	c.mayRow(m, prop+"/merge/alive", "push/pull: a remote alive entry is delivered to the alive handler as a non-bootstrap claim carrying the entry's own fields",
		classIn("CALL:alive"), func(g getf, e *gea.Effect) bool {
			d := e.Detail
			return rs(g) == "StateAlive" && d["Incarnation"] == "r.Incarnation" && d["Node"] == "r.Name" && d["Addr"] == "r.Addr" && d["Port"] == "r.Port" &&
				d["Meta"] == "r.Meta" && d["Vsn"] == "r.Vsn" && d["arg2"] == "false"
		})
	c.mayRow(m, prop+"/merge/left", "push/pull: only a remote left entry reaches the dead handler, as a self-signed departure of that name",
		classIn("CALL:dead"), func(g getf, e *gea.Effect) bool {
			d := e.Detail
			return rs(g) == "StateLeft" && d["Incarnation"] == "r.Incarnation" && d["Node"] == "r.Name" && d["From"] == "r.Name"
		})
	c.mayRow(m, prop+"/merge/hearsay", "push/pull: a remote dead or suspect entry only starts local suspicion (suspect handler, accuser = local node), it never kills directly",
		classIn("CALL:suspect"), func(g getf, e *gea.Effect) bool {
			d := e.Detail
			return (rs(g) == "StateDead" || rs(g) == "StateSuspect") && d["Incarnation"] == "r.Incarnation" && d["Node"] == "r.Name" && d["From"] == "m.config.Name"
		})
	c.mayRow(m, prop+"/merge/classes", "push/pull merge performs nothing but handler calls",
		classNotIn("CALL:alive", "CALL:dead", "CALL:suspect", "LOCK:*"), func(g getf, e *gea.Effect) bool { return false })
	// every remote entry is delivered: one iteration of the merge loop, explored on its own
	var body *ast.BlockStmt
	var rangeVal *ast.Ident
	inspectFn(m.fn, func(n ast.Node) bool {
		if rs, ok := n.(*ast.RangeStmt); ok && body == nil {
			if id, ok := rs.Value.(*ast.Ident); ok && core.NamedOf(c.P.TypeOf(id)) == "pushNodeState" {
				body, rangeVal = rs.Body, id
			}
		}
		return true
	})
	if body == nil {
		fail("anchor unresolved: loop over the remote entries in %s", m.fn.Name)
	}
	spec := &hSpec{c: c, kind: "mergeiter", fn: m.fn, recv: m.x.Spec.(*hSpec).recv}
	ix := gea.New(c.P, m.fn.Name+"$iteration", m.fn.Decl.Type, body, spec)
	ix.InlineCallee = c.inlinePolicy
	ix.DeclareVar("RS", stateDom)
	ix.SetAlias(c.P.Info.Defs[rangeVal], "r")
	ix.Run()
	c.Funcs[m.fn.Name+"$iteration"] = true
	ruleD := "push/pull: every remote entry is handed to its handler; the merge itself never filters entries on local state (that is the handlers' job: refutation, precedence)"
	c.Rule(ruleD)
	for _, ex := range ix.Exits {
		want := map[string]string{"StateAlive": "CALL:alive", "StateLeft": "CALL:dead", "StateDead": "CALL:suspect", "StateSuspect": "CALL:suspect"}
		rsv := ""
		for k, v := range ex.Cube {
			if strings.HasPrefix(k, "enum:r.State") {
				rsv = v
			}
		}
		if rsv == "" || rsv == "<other>" {
			continue
		}
		ok := ex.Seen[want[rsv]] > 0
		why := ""
		if !ok {
			// tolerated only if the skipping path tested nothing but the entry's own fields
			local := ""
			for k := range ex.Cube {
				if strings.HasPrefix(k, "enum:r.State") {
					continue
				}
				if strings.Contains(k, "m.") || strings.HasPrefix(k, "?") {
					local = k
				}
			}
			if local == "" {
				ok = true
			} else {
				why = "a remote " + rsv + " entry is skipped depending on " + local
			}
		}
		c.Check(prop+"/merge/delivers-all/"+rsv, ruleD, ex.Pos, ok, why)
	}
	// every remote state is delivered somewhere
	for _, want := range []struct{ st, cls string }{{"StateAlive", "CALL:alive"}, {"StateLeft", "CALL:dead"}, {"StateDead", "CALL:suspect"}, {"StateSuspect", "CALL:suspect"}} {
		found := false
		for _, e := range m.x.Effects {
			if e.Class == want.cls && e.Cube["RS"] == want.st {
				found = true
			}
		}
		c.Check(prop+"/merge/delivers/"+want.st, "push/pull: every remote entry state is delivered to a handler", m.fn.Decl.Pos(), found, "no "+want.cls+" for remote state "+want.st)
	}
}
