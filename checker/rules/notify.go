package rules

import (
	"fmt"
	"go/ast"
	"go/token"
	"go/types"
	"sort"

	"mlverif/core"
)

// checkNotifyChannels: a broadcast's completion is announced by a
// non-blocking send on its notify channel (the queue must never block on a
// caller that stopped waiting). A non-blocking send on an unbuffered channel
// is dropped unless the receiver is already parked, so every channel that can
// reach a broadcast's notify field must have room for the one notification:
// otherwise a broadcast that completes (transmit limit reached, superseded,
// pruned) between being queued and the caller starting to wait leaves the
// caller - Leave, UpdateNode - waiting for its whole timeout, or for ever when
// there is none.
func checkNotifyChannels(c *Ctx, prop string) {
	p := c.P
	rule := "a broadcast's completion notification cannot be lost: the completion callback sends without blocking, and every channel that can reach a broadcast's notify field is created with capacity >= 1 (or is nil)"
	c.Rule(rule)
	bt := p.Named("memberlistBroadcast")
	if bt == nil {
		fail("anchor unresolved: type memberlistBroadcast")
	}
	notify := p.Field("memberlistBroadcast", "notify")
	if notify == nil {
		fail("anchor unresolved: field memberlistBroadcast.notify")
	}
	// 1. every send on the notify field is the communication of a select with a default arm; a close is fine too
	nSend := 0
	for _, fn := range p.SortedFuncs() {
		ast.Inspect(fn.Decl.Body, func(n ast.Node) bool {
			ss, ok := n.(*ast.SendStmt)
			if !ok || p.SelField(ss.Chan) != notify {
				return true
			}
			nSend++
			nonBlocking := false
			if cc, ok := p.Parent(ss).(*ast.CommClause); ok {
				if blk, ok := p.Parent(cc).(*ast.BlockStmt); ok {
					if sel, ok := p.Parent(blk).(*ast.SelectStmt); ok {
						for _, cl := range sel.Body.List {
							if cl.(*ast.CommClause).Comm == nil {
								nonBlocking = true
							}
						}
					}
				}
			}
			c.Check(prop+"/notify/send-non-blocking/"+fn.Name, rule, ss.Pos(), nonBlocking, "the completion callback sends on the notify channel outside a select with default: the queue (and with it gossip) blocks on a caller that stopped waiting")
			return true
		})
	}
	c.Floor("sends on a broadcast's notify channel", nSend, 1)

	// 2. sources of the notify field: trace composite literals and assignments back through parameters
	type pkey struct {
		fn  *types.Func
		idx int
	}
	marked := map[pkey]bool{}
	var work []pkey
	type src struct {
		e   ast.Expr
		in  *core.Func
		via string
	}
	var sources []src
	seenExpr := map[ast.Expr]bool{}
	var classify func(e ast.Expr, in *core.Func, via string)
	paramIndex := func(fn *core.Func, o types.Object) int {
		i := 0
		for _, f := range fn.Decl.Type.Params.List {
			for _, nm := range f.Names {
				if p.Info.Defs[nm] == o {
					return i
				}
				i++
			}
			if len(f.Names) == 0 {
				i++
			}
		}
		return -1
	}
	classify = func(e ast.Expr, in *core.Func, via string) {
		e = ast.Unparen(e)
		if seenExpr[e] {
			return
		}
		seenExpr[e] = true
		if id, ok := e.(*ast.Ident); ok {
			if id.Name == "nil" && p.Info.Uses[id] == types.Universe.Lookup("nil") {
				return
			}
			if o := p.Info.Uses[id]; o != nil {
				if i := paramIndex(in, o); i >= 0 {
					k := pkey{in.Obj, i}
					if !marked[k] {
						marked[k] = true
						work = append(work, k)
					}
					return
				}
				// a local: every value assigned to it in this function
				found := false
				ast.Inspect(in.Decl.Body, func(n ast.Node) bool {
					switch s := n.(type) {
					case *ast.AssignStmt:
						for i, l := range s.Lhs {
							if lid, ok := l.(*ast.Ident); ok && (p.Info.Defs[lid] == o || p.Info.Uses[lid] == o) && len(s.Rhs) == len(s.Lhs) {
								found = true
								classify(s.Rhs[i], in, via)
							}
						}
					case *ast.ValueSpec:
						for i, nm := range s.Names {
							if p.Info.Defs[nm] == o && i < len(s.Values) {
								found = true
								classify(s.Values[i], in, via)
							}
						}
					}
					return true
				})
				if found {
					return
				}
			}
		}
		if f := p.SelField(e); f != nil {
			// a struct field: every value stored in it anywhere in the package
			for _, fn := range p.SortedFuncs() {
				ast.Inspect(fn.Decl.Body, func(n ast.Node) bool {
					switch s := n.(type) {
					case *ast.AssignStmt:
						for i, l := range s.Lhs {
							if p.SelField(l) == f && len(s.Rhs) == len(s.Lhs) {
								classify(s.Rhs[i], fn, core.QualName(fn.Obj)+": "+f.Name())
							}
						}
					case *ast.KeyValueExpr:
						if id, ok := s.Key.(*ast.Ident); ok && p.Info.Uses[id] == f {
							classify(s.Value, fn, core.QualName(fn.Obj)+": "+f.Name())
						}
					}
					return true
				})
			}
			return
		}
		sources = append(sources, src{e, in, via})
	}
	// seeds: values given to the notify field
	for _, fn := range p.SortedFuncs() {
		ast.Inspect(fn.Decl.Body, func(n ast.Node) bool {
			switch s := n.(type) {
			case *ast.CompositeLit:
				if core.NamedOf(p.TypeOf(s)) != "memberlistBroadcast" {
					return true
				}
				st, _ := bt.Underlying().(*types.Struct)
				for i, el := range s.Elts {
					if kv, ok := el.(*ast.KeyValueExpr); ok {
						if id, ok := kv.Key.(*ast.Ident); ok && p.Info.Uses[id] == notify {
							classify(kv.Value, fn, fn.Name)
						}
					} else if st != nil && i < st.NumFields() && st.Field(i) == notify {
						classify(el, fn, fn.Name)
					}
				}
			case *ast.AssignStmt:
				for i, l := range s.Lhs {
					if p.SelField(l) == notify && len(s.Rhs) == len(s.Lhs) {
						classify(s.Rhs[i], fn, fn.Name)
					}
				}
			}
			return true
		})
	}
	for len(work) > 0 {
		k := work[0]
		work = work[1:]
		callee := p.ByObj[k.fn]
		if callee == nil {
			continue
		}
		for _, s := range c.G.Callers(callee) {
			if s.Call == nil {
				// referenced as a value: its arguments are not visible
				c.Check(prop+"/notify/source/"+s.Fn.Name, rule, s.Pos, false, callee.Name+" is used as a function value: the channel it is handed cannot be traced")
				continue
			}
			if k.idx < len(s.Call.Args) {
				classify(s.Call.Args[k.idx], s.Fn, s.Fn.Name)
			}
		}
	}
	sort.Slice(sources, func(i, j int) bool { return sources[i].e.Pos() < sources[j].e.Pos() })
	nsrc := 0
	for _, s := range sources {
		nsrc++
		ok, why := false, "the notify channel comes from "+p.Canon(s.e)+", which is not a channel creation"
		if call, isCall := s.e.(*ast.CallExpr); isCall && p.Builtin(call) == "make" {
			why = "the notify channel is created without room for the notification (unbuffered): a completion that fires before the caller waits is dropped by the non-blocking send"
			if len(call.Args) >= 2 {
				if v, isC := p.ConstInt(call.Args[1]); isC && v >= 1 {
					ok = true
				}
			}
		}
		c.Check(fmt.Sprintf("%s/notify/buffered/%s", prop, s.in.Name), rule, s.e.Pos(), ok, why)
	}
	c.Floor("channels that can reach a broadcast's notify field", nsrc, 2)
	_ = token.NoPos
}
