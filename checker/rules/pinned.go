package rules

import (
	"go/ast"
	"go/types"
	"sort"
	"strings"

	"mlverif/core"
)

// pinnedFuncs lists the functions and methods the root package declares on
// the reviewed tree. A same-package function that is NOT in this list is a
// helper introduced by a later change: the path-sensitive explorations follow
// calls to such helpers in place (the code they contain used to be part of
// the analysed function), instead of treating them as opaque calls. Functions
// in the list keep the treatment the rules were reviewed with.
var pinnedFuncs = map[string]bool{
	"AddLabelHeaderToPacket":                      true,
	"AddLabelHeaderToStream":                      true,
	"Address.String":                              true,
	"ChannelEventDelegate.NotifyJoin":             true,
	"ChannelEventDelegate.NotifyLeave":            true,
	"ChannelEventDelegate.NotifyUpdate":           true,
	"Config.BuildVsnArray":                        true,
	"Config.EncryptionEnabled":                    true,
	"Config.IPAllowed":                            true,
	"Config.IPMustBeChecked":                      true,
	"Create":                                      true,
	"DefaultLANConfig":                            true,
	"DefaultLocalConfig":                          true,
	"DefaultWANConfig":                            true,
	"Keyring.AddKey":                              true,
	"Keyring.GetKeys":                             true,
	"Keyring.GetPrimaryKey":                       true,
	"Keyring.RemoveKey":                           true,
	"Keyring.UseKey":                              true,
	"Keyring.getPrimaryKeyLocked":                 true,
	"Keyring.init":                                true,
	"Keyring.installKeysLocked":                   true,
	"LogAddress":                                  true,
	"LogConn":                                     true,
	"LogStringAddress":                            true,
	"Memberlist.GetHealthScore":                   true,
	"Memberlist.Join":                             true,
	"Memberlist.Leave":                            true,
	"Memberlist.LocalNode":                        true,
	"Memberlist.Members":                          true,
	"Memberlist.NumMembers":                       true,
	"Memberlist.Ping":                             true,
	"Memberlist.ProtocolVersion":                  true,
	"Memberlist.SendBestEffort":                   true,
	"Memberlist.SendReliable":                     true,
	"Memberlist.SendTo":                           true,
	"Memberlist.SendToAddress":                    true,
	"Memberlist.SendToTCP":                        true,
	"Memberlist.SendToUDP":                        true,
	"Memberlist.Shutdown":                         true,
	"Memberlist.UpdateNode":                       true,
	"Memberlist.aliveNode":                        true,
	"Memberlist.anyAlive":                         true,
	"Memberlist.changeNode":                       true,
	"Memberlist.checkBroadcastQueueDepth":         true,
	"Memberlist.deadNode":                         true,
	"Memberlist.decryptRemoteState":               true,
	"Memberlist.deschedule":                       true,
	"Memberlist.encodeAndBroadcast":               true,
	"Memberlist.encodeAndSendMsg":                 true,
	"Memberlist.encodeBroadcastNotify":            true,
	"Memberlist.encryptLocalState":                true,
	"Memberlist.encryptionVersion":                true,
	"Memberlist.ensureCanConnect":                 true,
	"Memberlist.estNumNodes":                      true,
	"Memberlist.getAdvertise":                     true,
	"Memberlist.getBroadcasts":                    true,
	"Memberlist.getNextMessage":                   true,
	"Memberlist.getNodeState":                     true,
	"Memberlist.getNodeStateChange":               true,
	"Memberlist.gossip":                           true,
	"Memberlist.handleAck":                        true,
	"Memberlist.handleAlive":                      true,
	"Memberlist.handleCommand":                    true,
	"Memberlist.handleCompound":                   true,
	"Memberlist.handleCompressed":                 true,
	"Memberlist.handleConn":                       true,
	"Memberlist.handleDead":                       true,
	"Memberlist.handleIndirectPing":               true,
	"Memberlist.handleNack":                       true,
	"Memberlist.handlePing":                       true,
	"Memberlist.handleSuspect":                    true,
	"Memberlist.handleUser":                       true,
	"Memberlist.hasLeft":                          true,
	"Memberlist.hasShutdown":                      true,
	"Memberlist.ingestPacket":                     true,
	"Memberlist.invokeAckHandler":                 true,
	"Memberlist.invokeNackHandler":                true,
	"Memberlist.mergeRemoteState":                 true,
	"Memberlist.mergeState":                       true,
	"Memberlist.nextIncarnation":                  true,
	"Memberlist.nextSeqNo":                        true,
	"Memberlist.packetHandler":                    true,
	"Memberlist.packetListen":                     true,
	"Memberlist.probe":                            true,
	"Memberlist.probeNode":                        true,
	"Memberlist.probeNodeByAddr":                  true,
	"Memberlist.pushPull":                         true,
	"Memberlist.pushPullNode":                     true,
	"Memberlist.pushPullTrigger":                  true,
	"Memberlist.queueBroadcast":                   true,
	"Memberlist.rawSendMsgPacket":                 true,
	"Memberlist.rawSendMsgStream":                 true,
	"Memberlist.readRemoteState":                  true,
	"Memberlist.readStream":                       true,
	"Memberlist.readUserMsg":                      true,
	"Memberlist.refreshAdvertise":                 true,
	"Memberlist.refute":                           true,
	"Memberlist.resetNodes":                       true,
	"Memberlist.resolveAddr":                      true,
	"Memberlist.schedule":                         true,
	"Memberlist.sendAndReceiveState":              true,
	"Memberlist.sendLocalState":                   true,
	"Memberlist.sendMsg":                          true,
	"Memberlist.sendPingAndWaitForAck":            true,
	"Memberlist.sendUserMsg":                      true,
	"Memberlist.setAckHandler":                    true,
	"Memberlist.setAdvertise":                     true,
	"Memberlist.setAlive":                         true,
	"Memberlist.setProbeChannels":                 true,
	"Memberlist.skipIncarnation":                  true,
	"Memberlist.streamListen":                     true,
	"Memberlist.suspectNode":                      true,
	"Memberlist.tcpLookupIP":                      true,
	"Memberlist.triggerFunc":                      true,
	"Memberlist.verifyProtocol":                   true,
	"MockAddress.Network":                         true,
	"MockAddress.String":                          true,
	"MockNetwork.NewTransport":                    true,
	"MockTransport.DialAddressTimeout":            true,
	"MockTransport.DialTimeout":                   true,
	"MockTransport.FinalAdvertiseAddr":            true,
	"MockTransport.IngestPacket":                  true,
	"MockTransport.IngestStream":                  true,
	"MockTransport.PacketCh":                      true,
	"MockTransport.Shutdown":                      true,
	"MockTransport.StreamCh":                      true,
	"MockTransport.WriteTo":                       true,
	"MockTransport.WriteToAddress":                true,
	"MockTransport.getPeer":                       true,
	"NetTransport.DialAddressTimeout":             true,
	"NetTransport.DialTimeout":                    true,
	"NetTransport.FinalAdvertiseAddr":             true,
	"NetTransport.GetAutoBindPort":                true,
	"NetTransport.IngestPacket":                   true,
	"NetTransport.IngestStream":                   true,
	"NetTransport.PacketCh":                       true,
	"NetTransport.Shutdown":                       true,
	"NetTransport.StreamCh":                       true,
	"NetTransport.WriteTo":                        true,
	"NetTransport.WriteToAddress":                 true,
	"NetTransport.tcpListen":                      true,
	"NetTransport.udpListen":                      true,
	"NewKeyring":                                  true,
	"NewNetTransport":                             true,
	"NoPingResponseError.Error":                   true,
	"Node.Address":                                true,
	"Node.FullAddress":                            true,
	"Node.String":                                 true,
	"NodeStateType.metricsString":                 true,
	"ParseCIDRs":                                  true,
	"RemoveLabelHeaderFromPacket":                 true,
	"RemoveLabelHeaderFromStream":                 true,
	"TransmitLimitedQueue.GetBroadcasts":          true,
	"TransmitLimitedQueue.NumQueued":              true,
	"TransmitLimitedQueue.Prune":                  true,
	"TransmitLimitedQueue.QueueBroadcast":         true,
	"TransmitLimitedQueue.Reset":                  true,
	"TransmitLimitedQueue.addItem":                true,
	"TransmitLimitedQueue.deleteItem":             true,
	"TransmitLimitedQueue.getTransmitRange":       true,
	"TransmitLimitedQueue.lazyInit":               true,
	"TransmitLimitedQueue.lenLocked":              true,
	"TransmitLimitedQueue.queueBroadcast":         true,
	"TransmitLimitedQueue.resetIDGenIfIdleLocked": true,
	"TransmitLimitedQueue.walkReadOnlyLocked":     true,
	"ValidateKey":                                 true,
	"appendBytes":                                 true,
	"awareness.ApplyDelta":                        true,
	"awareness.GetHealthScore":                    true,
	"awareness.ScaleTimeout":                      true,
	"compressPayload":                             true,
	"decode":                                      true,
	"decodeCompoundMessage":                       true,
	"decompressBuffer":                            true,
	"decompressPayload":                           true,
	"decryptMessage":                              true,
	"decryptPayload":                              true,
	"encode":                                      true,
	"encryptOverhead":                             true,
	"encryptPayload":                              true,
	"encryptedLength":                             true,
	"ensurePort":                                  true,
	"failedRemote":                                true,
	"hasPort":                                     true,
	"init":                                        true,
	"joinHostPort":                                true,
	"kRandomNodes":                                true,
	"labelOverhead":                               true,
	"labelWrappedTransport.DialAddressTimeout":    true,
	"labelWrappedTransport.DialTimeout":           true,
	"labelWrappedTransport.WriteTo":               true,
	"labelWrappedTransport.WriteToAddress":        true,
	"limitedBroadcast.Less":                       true,
	"makeCompoundMessage":                         true,
	"makeCompoundMessages":                        true,
	"makeLabelHeader":                             true,
	"memberlistBroadcast.Finished":                true,
	"memberlistBroadcast.Invalidates":             true,
	"memberlistBroadcast.Message":                 true,
	"memberlistBroadcast.Name":                    true,
	"moveDeadNodes":                               true,
	"newAwareness":                                true,
	"newMemberlist":                               true,
	"newPeekedConnFromBufferedReader":             true,
	"newSuspicion":                                true,
	"nodeState.Address":                           true,
	"nodeState.DeadOrLeft":                        true,
	"nodeState.FullAddress":                       true,
	"peekedConn.Read":                             true,
	"pkcs7decode":                                 true,
	"pkcs7decodeChecked":                          true,
	"pkcs7encode":                                 true,
	"pushPullScale":                               true,
	"randomOffset":                                true,
	"remainingSuspicionTime":                      true,
	"retransmitLimit":                             true,
	"setUDPRecvBuf":                               true,
	"shimNodeAwareTransport.DialAddressTimeout":   true,
	"shimNodeAwareTransport.WriteToAddress":       true,
	"shuffleNodes":                                true,
	"suspicion.Confirm":                           true,
	"suspicionTimeout":                            true,
}

// inlinePolicy is installed on every exploration (see pinnedFuncs).
func (c *Ctx) inlinePolicy(f *types.Func) *ast.FuncDecl {
	if f == nil || f.Pkg() != c.P.Types {
		return nil
	}
	fi := c.P.ByObj[f]
	if fi == nil || fi.Decl.Body == nil || (pinnedFuncs[fi.Name] && !c.alsoInline[fi.Name]) || c.opaqueNew[fi.Name] {
		return nil
	}
	return fi.Decl
}

// onlyWithin: fn is one of the given functions, or a helper introduced after
// the review (not in pinnedFuncs) that is only ever called - directly, not as
// a value, not under go, not from a function literal - from functions that
// satisfy onlyWithin themselves. Code in such a helper runs as part of the
// given functions (whose explorations follow it in place).
func (c *Ctx) onlyWithin(fn *core.Func, within map[*core.Func]bool, depth int) bool {
	if within[fn] {
		return true
	}
	if depth > 3 || pinnedFuncs[fn.Name] {
		return false
	}
	callers := c.G.Callers(fn)
	if len(callers) == 0 {
		return false
	}
	for _, s := range callers {
		if s.Ref || s.InGo || s.Call == nil || c.P.EnclosingFunc(s.Call) != ast.Node(s.Fn.Decl) {
			return false
		}
		if !c.onlyWithin(s.Fn, within, depth+1) {
			return false
		}
	}
	return true
}

// rootsOf: the functions of the reviewed tree whose code fn's body is part of.
// A reviewed function is its own root; a helper introduced after the review
// belongs to every reviewed function that references it through such helpers
// (call, go, function value - all of them are "code of" the root for the
// who-may-write rules). A helper nobody references is its own root.
func (c *Ctx) rootsOf(fn *core.Func) []*core.Func {
	if pinnedFuncs[fn.Name] {
		return []*core.Func{fn}
	}
	seen := map[*core.Func]bool{fn: true}
	var out []*core.Func
	var walk func(f *core.Func, depth int)
	walk = func(f *core.Func, depth int) {
		if depth > 4 {
			return
		}
		for _, s := range c.G.Callers(f) {
			if seen[s.Fn] {
				continue
			}
			seen[s.Fn] = true
			if pinnedFuncs[s.Fn.Name] {
				out = append(out, s.Fn)
			} else {
				walk(s.Fn, depth+1)
			}
		}
	}
	walk(fn, 0)
	if len(out) == 0 {
		return []*core.Func{fn}
	}
	sort.Slice(out, func(i, j int) bool { return out[i].Name < out[j].Name })
	return out
}

func (c *Ctx) allRoots(fn *core.Func, pred func(*core.Func) bool) bool {
	for _, r := range c.rootsOf(fn) {
		if !pred(r) {
			return false
		}
	}
	return true
}

// traceParam: an identifier that names a parameter of a helper introduced
// after the review, where the helper has exactly one call site, stands for the
// argument passed there (followed through at most four such helpers).
func (c *Ctx) traceParam(e ast.Expr) ast.Expr {
	p := c.P
	for depth := 0; depth < 4; depth++ {
		id, ok := ast.Unparen(e).(*ast.Ident)
		if !ok {
			return e
		}
		o := p.Info.Uses[id]
		if o == nil {
			return e
		}
		var owner *core.Func
		idx := -1
		for _, fn := range p.SortedFuncs() {
			if pinnedFuncs[fn.Name] || fn.Decl.Body == nil {
				continue
			}
			k := 0
			for _, f := range fn.Decl.Type.Params.List {
				if len(f.Names) == 0 {
					k++
				}
				for _, n := range f.Names {
					if p.Info.Defs[n] == o {
						owner, idx = fn, k
					}
					k++
				}
			}
		}
		if owner == nil {
			return e
		}
		callers := c.G.Callers(owner)
		if len(callers) != 1 || callers[0].Call == nil || callers[0].Ref || idx >= len(callers[0].Call.Args) || callers[0].Call.Ellipsis.IsValid() {
			return e
		}
		e = callers[0].Call.Args[idx]
	}
	return e
}

// paramIndex: o is the i-th parameter of a helper introduced after the review.
func (c *Ctx) paramIndex(o types.Object) (*core.Func, int) {
	p := c.P
	if o == nil {
		return nil, -1
	}
	for _, fn := range p.SortedFuncs() {
		if pinnedFuncs[fn.Name] || fn.Decl.Body == nil || o.Pos() < fn.Decl.Pos() || o.Pos() > fn.Decl.End() {
			continue
		}
		k := 0
		for _, f := range fn.Decl.Type.Params.List {
			if len(f.Names) == 0 {
				k++
			}
			for _, n := range f.Names {
				if p.Info.Defs[n] == o {
					return fn, k
				}
				k++
			}
		}
	}
	return nil, -1
}

// argsReaching: the argument expressions that reach parameter o of a helper
// (introduced after the review) from the call sites inside fn or the helpers
// extracted from fn. nil when o is not such a parameter or a site cannot be read.
func (c *Ctx) argsReaching(o types.Object, fn *core.Func) []ast.Expr {
	h, idx := c.paramIndex(o)
	if h == nil {
		return nil
	}
	in := map[*core.Func]bool{fn: true}
	for _, x := range helpersOf(fn) {
		in[x] = true
	}
	var out []ast.Expr
	for _, s := range c.G.Callers(h) {
		if !in[s.Fn] {
			continue
		}
		if s.Call == nil || s.Ref || s.Call.Ellipsis.IsValid() || idx >= len(s.Call.Args) {
			return nil
		}
		out = append(out, s.Call.Args[idx])
	}
	return out
}

// flowsFrom: e is the variable target, or a parameter of a helper extracted
// from fn that receives target (through at most four helpers) at every call
// site inside fn's code.
func (c *Ctx) flowsFrom(e ast.Expr, target types.Object, fn *core.Func, depth int) bool {
	id, ok := ast.Unparen(e).(*ast.Ident)
	if !ok || depth > 4 || target == nil {
		return false
	}
	o := c.P.Info.Uses[id]
	if o == target {
		return true
	}
	args := c.argsReaching(o, fn)
	if len(args) == 0 {
		return false
	}
	for _, a := range args {
		if !c.flowsFrom(a, target, fn, depth+1) {
			return false
		}
	}
	return true
}

// sitesOf: the effect sites of fn and of the helpers extracted from it.
func (c *Ctx) sitesOf(fn *core.Func) []*core.Site {
	out := append([]*core.Site{}, c.G.Sites[fn]...)
	for _, h := range helpersOf(fn) {
		out = append(out, c.G.Sites[h]...)
	}
	return out
}

// curGraph is the reference graph of the run (one Ctx per process).
var curGraph *core.Graph

// helpersOf lists the helpers introduced after the review (not in
// pinnedFuncs) that fn reaches through direct calls, transitively through
// such helpers only.
func helpersOf(fn *core.Func) []*core.Func {
	if curGraph == nil || fn == nil {
		return nil
	}
	var out []*core.Func
	seen := map[*core.Func]bool{fn: true}
	var walk func(f *core.Func, depth int)
	walk = func(f *core.Func, depth int) {
		if depth > 3 {
			return
		}
		for _, s := range curGraph.Sites[f] {
			if s.Kind != "CALL" || s.To == nil || s.Ref {
				continue
			}
			h := curGraph.P.ByObj[s.To]
			if h == nil || seen[h] || pinnedFuncs[h.Name] || h.Decl.Body == nil {
				continue
			}
			seen[h] = true
			out = append(out, h)
			walk(h, depth+1)
		}
	}
	walk(fn, 0)
	return out
}

// inspectFn visits fn's body and then the bodies of the helpers a later
// change extracted from it (helpersOf): syntactic rules about "the code of
// fn" keep seeing that code after an extract-method refactor.
func inspectFn(fn *core.Func, visit func(ast.Node) bool) {
	if fn == nil || fn.Decl == nil || fn.Decl.Body == nil {
		return
	}
	ast.Inspect(fn.Decl.Body, visit)
	for _, h := range helpersOf(fn) {
		ast.Inspect(h.Decl.Body, visit)
	}
}

// installPinnedNames fills Prog.Rename: every receiver, parameter and named
// result of a function of the reviewed tree is spelled, in canonical strings,
// as it was when the rules were reviewed (matched by position; skipped when
// the signature's shape changed).
func installPinnedNames(p *core.Prog) {
	if p.Rename != nil {
		return
	}
	p.Rename = map[types.Object]string{}
	// functions renamed since the review: a reviewed function that is missing, and exactly
	// one new function with the same receiver and signature
	var missing []string
	for name := range pinnedFuncs {
		if p.Funcs[name] == nil {
			missing = append(missing, name)
		}
	}
	sort.Strings(missing)
	taken := map[*core.Func]bool{}
	for _, old := range missing {
		recv := ""
		if i := strings.Index(old, "."); i > 0 {
			recv = old[:i+1]
		}
		var cands []*core.Func
		for _, fn := range p.SortedFuncs() {
			if pinnedFuncs[fn.Name] || taken[fn] || !strings.HasPrefix(fn.Name, recv) || (recv == "" && strings.Contains(fn.Name, ".")) {
				continue
			}
			if core.SigStr(p, fn.Obj) == pinnedSigs[old] {
				cands = append(cands, fn)
			}
		}
		if len(cands) != 1 {
			continue
		}
		fn := cands[0]
		taken[fn] = true
		core.FuncAlias[fn.Obj] = strings.TrimPrefix(old, recv)
		delete(p.Funcs, fn.Name)
		fn.Name = old
		p.Funcs[old] = fn
	}
	for name, fn := range p.Funcs {
		pinned := pinnedParams[name]
		if len(pinned) == 0 {
			continue
		}
		var cur []*ast.Ident
		var kinds []string
		if fn.Decl.Recv != nil && len(fn.Decl.Recv.List) == 1 && len(fn.Decl.Recv.List[0].Names) == 1 {
			cur = append(cur, fn.Decl.Recv.List[0].Names[0])
			kinds = append(kinds, "recv:")
		}
		for _, fl := range fn.Decl.Type.Params.List {
			if len(fl.Names) == 0 {
				cur = append(cur, nil)
				kinds = append(kinds, "")
			}
			for _, n := range fl.Names {
				cur = append(cur, n)
				kinds = append(kinds, "")
			}
		}
		if fn.Decl.Type.Results != nil {
			for _, fl := range fn.Decl.Type.Results.List {
				for _, n := range fl.Names {
					cur = append(cur, n)
					kinds = append(kinds, "res:")
				}
			}
		}
		if len(cur) != len(pinned) {
			continue
		}
		okShape := true
		for i := range cur {
			pk := ""
			if j := strings.Index(pinned[i], ":"); j > 0 {
				pk = pinned[i][:j+1]
			}
			if pk != kinds[i] {
				okShape = false
			}
		}
		if !okShape {
			continue
		}
		for i, id := range cur {
			want := pinned[i]
			if j := strings.Index(want, ":"); j > 0 {
				want = want[j+1:]
			}
			if id == nil || id.Name == "_" || want == "_" || id.Name == want {
				continue
			}
			if o := p.Info.Defs[id]; o != nil {
				p.Rename[o] = want
			}
		}
	}
	// locals: only when the function declares exactly the reviewed sequence of types
	for name, fn := range p.Funcs {
		pl := pinnedLocals[name]
		if len(pl) == 0 {
			continue
		}
		cur := core.LocalsOf(p, fn)
		if len(cur) != len(pl) {
			continue
		}
		same := true
		for i, o := range cur {
			if core.TypeStr(p, o.Type()) != pl[i][0] {
				same = false
				break
			}
		}
		if !same {
			continue
		}
		for i, o := range cur {
			if o.Name() != pl[i][1] {
				p.Rename[o] = pl[i][1]
			}
		}
	}
}
