package memberlist

import (
	"bytes"
	"io"
	"log"
	"testing"
)

type seedDemoDelegate struct{ meta []byte }

func (d *seedDemoDelegate) NodeMeta(limit int) []byte                  { return d.meta }
func (d *seedDemoDelegate) NotifyMsg([]byte)                           {}
func (d *seedDemoDelegate) GetBroadcasts(overhead, limit int) [][]byte { return nil }
func (d *seedDemoDelegate) LocalState(join bool) []byte                { return nil }
func (d *seedDemoDelegate) MergeRemoteState(buf []byte, join bool)     {}

func seedDemoMemberlist(t *testing.T, name string, f func(c *Config)) *Memberlist {
	t.Helper()
	c := DefaultLANConfig()
	c.Name = name
	c.BindAddr = "127.0.0.1"
	c.BindPort = 0
	c.Logger = log.New(io.Discard, "", 0)
	if f != nil {
		f(c)
	}
	m, err := newMemberlist(c)
	if err != nil {
		t.Fatalf("newMemberlist: %v", err)
	}
	return m
}

// seedDemoFullState is what sendLocalState would put on the wire.
func seedDemoFullState(m *Memberlist) []pushNodeState {
	m.nodeLock.RLock()
	defer m.nodeLock.RUnlock()
	out := make([]pushNodeState, len(m.nodes))
	for i, n := range m.nodes {
		out[i] = pushNodeState{
			Name: n.Name, Addr: n.Addr, Port: n.Port, Meta: n.Meta,
			Incarnation: n.Incarnation, State: n.State,
			Vsn: []uint8{n.PMin, n.PMax, n.PCur, n.DMin, n.DMax, n.DCur},
		}
	}
	return out
}

func seedDemoMetaOf(m *Memberlist, name string) ([]byte, bool) {
	for _, n := range m.Members() {
		if n.Name == name {
			return n.Meta, true
		}
	}
	return nil, false
}

// Same-address restart with changed metadata. Node X ran with meta "v1" at
// incarnation 1 and crashed before anyone noticed. It restarts under the same
// name and address with meta "v2"; a fresh process starts at incarnation 1
// again. Peer P still holds (X, inc 1, "v1"). After X and P have exchanged
// full state (push/pull, both directions, repeatedly) P must list X with X's
// latest metadata "v2".
func TestSeedDemo_RestartWithNewMetaConverges(t *testing.T) {
	p := seedDemoMemberlist(t, "P", nil)
	defer func() { _ = p.Shutdown() }()
	if err := p.setAlive(); err != nil {
		t.Fatalf("setAlive P: %v", err)
	}

	x := seedDemoMemberlist(t, "X", func(c *Config) {
		c.Delegate = &seedDemoDelegate{meta: []byte("v2")}
	})
	defer func() { _ = x.Shutdown() }()
	if err := x.setAlive(); err != nil {
		t.Fatalf("setAlive X: %v", err)
	}
	xSelf := x.LocalNode()

	// What P remembers from X's previous life: same name, same address,
	// incarnation 1, old meta.
	old := alive{
		Node: "X", Addr: xSelf.Addr, Port: xSelf.Port,
		Incarnation: 1, Meta: []byte("v1"), Vsn: x.config.BuildVsnArray(),
	}
	p.aliveNode(&old, nil, false)
	if meta, ok := seedDemoMetaOf(p, "X"); !ok || !bytes.Equal(meta, []byte("v1")) {
		t.Fatalf("setup: P should list X with v1, got %q %v", meta, ok)
	}

	// Anti-entropy rounds between X and P, in both directions.
	for round := 0; round < 5; round++ {
		ps := seedDemoFullState(p)
		xs := seedDemoFullState(x)
		x.mergeState(ps) // X pulls P's view (contains the stale claim about X)
		p.mergeState(xs) // P receives X's view as it was sent
	}

	meta, ok := seedDemoMetaOf(p, "X")
	if !ok {
		t.Fatalf("P no longer lists X")
	}
	if !bytes.Equal(meta, []byte("v2")) {
		t.Fatalf("P lists X with stale meta %q after 5 full state exchanges; X's latest meta is %q (X incarnation %d)",
			meta, "v2", x.incarnation.Load())
	}
	if own, _ := seedDemoMetaOf(x, "X"); !bytes.Equal(own, []byte("v2")) {
		t.Fatalf("X lost its own meta: %q", own)
	}
}
