package memberlist

import (
	"io"
	"log"
	"net"
	"strconv"
	"testing"
	"time"
)

func seedDemoMemberlist(t *testing.T, name string, f func(c *Config)) *Memberlist {
	t.Helper()
	c := DefaultLANConfig()
	c.Name = name
	c.BindAddr = "127.0.0.1"
	c.BindPort = 0
	c.Logger = log.New(io.Discard, "", 0)
	if f != nil {
		f(c)
	}
	m, err := newMemberlist(c)
	if err != nil {
		t.Fatalf("newMemberlist: %v", err)
	}
	return m
}

func seedDemoListed(m *Memberlist, name string) bool {
	for _, n := range m.Members() {
		if n.Name == name {
			return true
		}
	}
	return false
}

func seedDemoWaitListed(m *Memberlist, name string, d time.Duration) bool {
	deadline := time.Now().Add(d)
	for time.Now().Before(deadline) {
		if seedDemoListed(m, name) {
			return true
		}
		time.Sleep(10 * time.Millisecond)
	}
	return seedDemoListed(m, name)
}

// A cluster in the middle of a key rotation: every node has both keys
// installed, node A still uses k1 as primary, node B has already switched to
// k2. That is a legal, possibly long-lived configuration (any installed key
// must be accepted). A knows a node C that B has not heard about, B knows a
// node D that A has not heard about, and the gossip about them is long gone,
// so only the periodic full state exchange can repair the views. A push/pull
// between A and B must succeed in both directions and bring both views to
// {A, B, C, D}.
func TestSeedDemo_PushPullDuringKeyRotation(t *testing.T) {
	k1 := []byte{0, 1, 2, 3, 4, 5, 6, 7, 8, 9, 10, 11, 12, 13, 14, 15}
	k2 := []byte{15, 14, 13, 12, 11, 10, 9, 8, 7, 6, 5, 4, 3, 2, 1, 0}

	mk := func(name string, primary []byte) *Memberlist {
		return seedDemoMemberlist(t, name, func(c *Config) {
			kr, err := NewKeyring([][]byte{k1, k2}, primary)
			if err != nil {
				t.Fatalf("keyring: %v", err)
			}
			c.Keyring = kr
		})
	}
	a := mk("A", k1)
	defer func() { _ = a.Shutdown() }()
	b := mk("B", k2)
	defer func() { _ = b.Shutdown() }()
	if err := a.setAlive(); err != nil {
		t.Fatalf("setAlive A: %v", err)
	}
	if err := b.setAlive(); err != nil {
		t.Fatalf("setAlive B: %v", err)
	}

	vsn := a.config.BuildVsnArray()
	a.aliveNode(&alive{Node: "C", Addr: []byte{127, 0, 0, 1}, Port: 1, Incarnation: 1, Vsn: vsn}, nil, false)
	b.aliveNode(&alive{Node: "D", Addr: []byte{127, 0, 0, 1}, Port: 2, Incarnation: 1, Vsn: vsn}, nil, false)

	addrOf := func(m *Memberlist) Address {
		ip, port := m.getAdvertise()
		return Address{Addr: net.JoinHostPort(ip.String(), strconv.Itoa(int(port))), Name: m.config.Name}
	}

	// A initiates a periodic (non-join) push/pull with B ...
	errAB := a.pushPullNode(addrOf(b), false)
	// ... and B initiates one with A.
	errBA := b.pushPullNode(addrOf(a), false)

	if errAB != nil {
		t.Errorf("push/pull A->B failed: %v", errAB)
	}
	if errBA != nil {
		t.Errorf("push/pull B->A failed: %v", errBA)
	}
	for _, want := range []string{"A", "B", "C", "D"} {
		if !seedDemoWaitListed(a, want, 2*time.Second) {
			t.Errorf("A does not list %s after full state exchange; A.Members()=%v", want, a.Members())
		}
		if !seedDemoWaitListed(b, want, 2*time.Second) {
			t.Errorf("B does not list %s after full state exchange; B.Members()=%v", want, b.Members())
		}
	}
}
