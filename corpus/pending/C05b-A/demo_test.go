package memberlist

import (
	"testing"
	"time"
)

// A record of a node that died (or left) less than GossipToTheDeadTime ago
// must survive the reaper no matter where in the node list it happens to sit.
func TestSeedDemo_MoveDeadNodesKeepsRecentRecordAtTail(t *testing.T) {
	now := time.Now()
	for _, recentState := range []NodeStateType{StateDead, StateLeft} {
		old := &nodeState{Node: Node{Name: "old"}, State: StateDead, StateChange: now.Add(-time.Hour)}
		live := &nodeState{Node: Node{Name: "live"}, State: StateAlive, StateChange: now.Add(-time.Hour)}
		recent := &nodeState{Node: Node{Name: "recent"}, State: recentState, StateChange: now}

		nodes := []*nodeState{old, live, recent}
		idx := moveDeadNodes(nodes, time.Minute)
		if idx != 2 {
			t.Fatalf("state %v: expected 2 nodes to be kept, got %d", recentState, idx)
		}
		kept := map[string]bool{}
		for _, n := range nodes[:idx] {
			kept[n.Name] = true
		}
		if !kept["live"] || !kept["recent"] || kept["old"] {
			t.Fatalf("state %v: wrong nodes kept: %v", recentState, kept)
		}
	}
}

// End to end on one node: "old" died long ago, "recent" has just been declared
// dead. When the probe loop wraps around and reaps, the record of "recent"
// has to stay so that (a) the node keeps gossiping to it (it may be a false
// accusation that has to be refuted) and (b) a stale alive message with the
// old incarnation, still circulating, cannot bring the crashed node back into
// Members().
func TestSeedDemo_ReaperKeepsRecentlyDeadRecord(t *testing.T) {
	m := GetMemberlist(t, func(c *Config) {
		c.GossipToTheDeadTime = time.Minute
	})
	defer func() { _ = m.Shutdown() }()

	vsn := m.config.BuildVsnArray()
	for i, name := range []string{"old", "live", "recent"} {
		a := alive{Node: name, Addr: []byte{127, 0, 0, byte(10 + i)}, Port: 7946, Incarnation: 3, Vsn: vsn}
		m.aliveNode(&a, nil, false)
	}
	m.deadNode(&dead{Node: "old", Incarnation: 3, From: "live"})
	m.deadNode(&dead{Node: "recent", Incarnation: 3, From: "live"})

	m.nodeLock.Lock()
	m.nodeMap["old"].StateChange = time.Now().Add(-time.Hour)
	// The list order is arbitrary (random insertion, shuffling): pick the
	// one where the fresh record happens to be last.
	m.nodes = []*nodeState{m.nodeMap["old"], m.nodeMap["live"], m.nodeMap["recent"]}
	m.nodeLock.Unlock()

	m.resetNodes()

	m.nodeLock.RLock()
	_, haveOld := m.nodeMap["old"]
	rec, haveRecent := m.nodeMap["recent"]
	numNodes := len(m.nodes)
	m.nodeLock.RUnlock()

	if haveOld {
		t.Fatalf("the long dead node should have been reaped")
	}
	if !haveRecent || rec.State != StateDead {
		t.Fatalf("the record of the recently dead node was reaped before GossipToTheDeadTime elapsed")
	}
	if numNodes != 2 {
		t.Fatalf("expected 2 nodes in the list, got %d", numNodes)
	}

	// A stale alive message (same incarnation as the death) arrives late.
	stale := alive{Node: "recent", Addr: []byte{127, 0, 0, 12}, Port: 7946, Incarnation: 3, Vsn: vsn}
	m.aliveNode(&stale, nil, false)

	for _, n := range m.Members() {
		if n.Name == "recent" {
			t.Fatalf("crashed node is listed again after a stale alive message")
		}
	}
}
