package memberlist

import (
	"bytes"
	"testing"
	"time"
)

// Two nodes on the in-process mock network, configured with
// RequireNodeNames (a legal, documented configuration). Gossip and probing are
// switched off so that the only way a change can travel is the periodic
// push/pull exchange - the situation after every gossip transmission of an
// update has been lost. One round of the periodic push/pull (driven by hand
// instead of waiting for the timer) must bring node1 up to date with node2's
// latest metadata and with the members node2 knows about.
func TestSeedDemo_PeriodicPushPullWithRequiredNodeNames(t *testing.T) {
	mockNet := &MockNetwork{}

	newNode := func(name string) (*Memberlist, *MockDelegate, *MockTransport) {
		tr := mockNet.NewTransport(name)
		d := &MockDelegate{}
		d.setMeta([]byte("v1"))
		c := DefaultLANConfig()
		c.Name = name
		c.Transport = tr
		c.Delegate = d
		c.RequireNodeNames = true
		c.GossipNodes = 0           // no gossip ticker
		c.ProbeInterval = time.Hour // no probes (and so no piggybacking)
		c.PushPullInterval = 0      // push/pull is driven by hand below
		m, err := Create(c)
		if err != nil {
			t.Fatalf("create %s: %v", name, err)
		}
		return m, d, tr
	}

	m1, _, t1 := newNode("node1")
	defer func() { _ = m1.Shutdown() }()
	m2, d2, _ := newNode("node2")
	defer func() { _ = m2.Shutdown() }()

	if n, err := m2.Join([]string{"node1/" + t1.addr.String()}); n != 1 || err != nil {
		t.Fatalf("join: %d %v", n, err)
	}
	// node1 merges the joiner's state right after it has replied, wait for it.
	for i := 0; i < 200 && len(m1.Members()) != 2; i++ {
		time.Sleep(10 * time.Millisecond)
	}
	if len(m1.Members()) != 2 || len(m2.Members()) != 2 {
		t.Fatalf("join did not produce a two node cluster: %d %d", len(m1.Members()), len(m2.Members()))
	}

	// node2 changes its metadata. Nothing gossips, so the update broadcast
	// is never sent (UpdateNode times out waiting for it, which is fine).
	d2.setMeta([]byte("v2"))
	_ = m2.UpdateNode(20 * time.Millisecond)

	// node2 has also heard of a third member that node1 does not know yet.
	a3 := alive{Node: "node3", Addr: []byte{127, 0, 0, 1}, Port: 9999, Incarnation: 1, Vsn: m2.config.BuildVsnArray()}
	m2.aliveNode(&a3, nil, false)

	// One periodic anti-entropy round on node1. node2 is its only live peer.
	m1.pushPull()

	var meta []byte
	names := map[string]bool{}
	for _, n := range m1.Members() {
		names[n.Name] = true
		if n.Name == "node2" {
			meta = n.Meta
		}
	}
	if !bytes.Equal(meta, []byte("v2")) {
		t.Fatalf("after a push/pull round node1 still has stale metadata %q for node2 (want \"v2\")", meta)
	}
	if !names["node3"] {
		t.Fatalf("after a push/pull round node1 has not learned about node3: %v", names)
	}

}
