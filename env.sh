# environment for every build / analysis step (offline, pinned toolchain)
export GOFLAGS=-mod=mod GOPROXY=off GOSUMDB=off GOTOOLCHAIN=local GOWORK=off
export PATH=/opt/veriftools/go1.26.8/bin:$PATH
