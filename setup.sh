#!/bin/bash
# builds the checker from files on disk only (offline)
set -e
cd "$(dirname "$0")"
. ./env.sh
mkdir -p bin evidence
(cd checker && go build -o ../bin/mlcheck ./cmd/mlcheck)
echo "built bin/mlcheck"
