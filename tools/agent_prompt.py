#!/usr/bin/env python3
import json, sys
pid = sys.argv[1]
props = {json.loads(l)['id']: json.loads(l) for l in open('/verif/properties.jsonl')}
p = props[pid]
rnd = sys.argv[2] if len(sys.argv) > 2 else "1"
wt = f"/tmp/wt-{pid}" if rnd == "1" else f"/tmp/w{rnd}-{pid}"
extra = "" if rnd == "1" else """ In this round, stay away from the most obvious single-operator flips inside the main function the property names: prefer changes in helper functions, in call sites and argument wiring, in initialisation / configuration paths, in error or rarely-taken branches, in the interaction of two functions that each still look right, or in the less prominent clauses of the statement and of its quantifier text (unusual configurations, empty / boundary inputs, rotation or restart histories)."""
if rnd not in ("1","2"):
    import glob, os
    prev=[]
    for d in sorted(glob.glob(f"/verif/seeded/{pid}-*")):
        try: prev.append("  - "+json.load(open(d+"/meta.json")).get("summary","")[:260].replace("\n"," ")+" ...")
        except Exception: pass
    extra += """ Changes of the following kinds have ALREADY been collected for this property in earlier rounds; do NOT repeat them or close variants of them (same function + same mechanism) - find breakage somewhere else: a different function, a different clause of the statement, a different file, a cooperating pair of edits in two functions, a concurrency/ordering change (lock scope, goroutine hand-off, channel use), a resource/cleanup path, a configuration-dependent branch, or an arithmetic/boundary condition that only some configurations reach:
""" + "\n".join(prev) + "\n"
print(f"""You are working on a scratch git worktree of the Go library hashicorp/memberlist (SWIM/Lifeguard gossip membership) at {wt}. Work ONLY inside {wt}. Never touch /repo or /verif, never read anything under /verif, and do not commit anything.

Environment (the sandbox has NO network; run this at the start of every shell command because the environment does not persist):
  export GOFLAGS=-mod=mod GOPROXY=off GOSUMDB=off GOTOOLCHAIN=local PATH=/opt/veriftools/go1.26.8/bin:$PATH
The existing test suite is run with:  cd {wt} && unshare -rn sh -c 'ip link set lo up; go test -vet=off -count=1 -timeout 25m ./...'   (the unshare wrapper gives the run its own loopback network so that it cannot collide on ports with other jobs on this shared machine; use the same wrapper for every go test invocation; about 45-60 seconds; a few tests bind loopback ports and are timing sensitive and the machine is shared, so if a test unrelated to your change fails, re-run just that test with -run a few times to confirm it is flaky).

Here is a semantic property that the library is supposed to satisfy (this JSON record is all you are given about it):

{json.dumps(p, indent=1)}

YOUR TASK: produce TWO different, independent changes ("seed A" and "seed B") to the library's NON-test source code, each of which BREAKS this property while the code STILL COMPILES and the EXISTING test suite STILL PASSES unchanged. Each must be a realistic, small semantic regression of the kind a plausible refactor, "optimisation" or bug-fix-gone-wrong could introduce (e.g. a changed comparison, a dropped or weakened guard, a re-ordered step, a missing lock/unlock, a skipped branch, a wrong variable, a path that bypasses a mechanism) - not vandalism, and not something that ordinary use would expose at once. Prefer changes that need something SPECIFIC to manifest: a particular interleaving, a fault at a particular point, a multi-step sequence of operations, an unusual input, or two cooperating sites that each look fine alone. The two seeds should attack different mechanisms / different clauses of the property where possible.{extra}

For EACH seed you must also write a demonstration: a Go test file (package memberlist, in-package, so it can use unexported identifiers; name the test functions TestSeedDemo_...) that FAILS (or panics / is reported by -race if the defect is a data race) WITH your change applied and PASSES WITHOUT it (on the pristine tree). Keep demonstrations deterministic and fast (under ~20 s) where you can; drive internal functions directly rather than relying on real-time network behaviour if possible.

Procedure for each seed:
 1. Read the relevant code in {wt} and design the change.
 2. Apply it in {wt}; confirm `go build ./... && go vet ./... ` is fine and the FULL existing test suite passes (command above).
 3. Write the demonstration test in {wt}/seed_demo_test.go; confirm it FAILS with the change (`go test -vet=off -count=1 -run TestSeedDemo ./`), then save your change with `git diff > /tmp/<yourseed>.diff` and revert it with `git checkout -- .` (keep the demo file; do NOT use `git stash` - the stash is shared between all worktrees of this repository and other agents are working in sibling worktrees), confirm the demo PASSES on the pristine source, then restore with `git apply`.
 4. Save the artefacts in a directory OUTSIDE the source files being tested: {wt}/_seeds/A/ and {wt}/_seeds/B/ each containing:
      patch.diff   - `git diff` of the non-test source change only (must apply with `git apply` to a pristine tree)
      demo_test.go - the demonstration test file (copy of seed_demo_test.go for that seed)
      meta.json    - {{"property": "{pid}", "summary": "<one paragraph: what was changed and why it breaks the property>", "needs": "<what specific input/sequence/interleaving it needs to manifest>", "ran": ["<commands you ran and their outcome>"]}}
 5. After saving seed A, restore the tree to pristine (`git checkout -- . && rm -f seed_demo_test.go`) before starting seed B. Leave the worktree pristine at the end (only the untracked _seeds/ directory remains).

Report at the end, for each seed: the diff, what it breaks, what it needs to manifest, and confirmation of the four facts (compiles; existing suite passes with it; demo fails with it; demo passes without it). If you cannot find a second seed after a serious attempt, deliver one and say so.""")
