#!/usr/bin/env python3
"""Prompt for a sub-agent that writes behaviour-PRESERVING edits of the code a property is anchored in
(used to test that the checks raise no alarm on code where the property still holds)."""
import json, sys
pid = sys.argv[1]
props = {json.loads(l)['id']: json.loads(l) for l in open('/verif/properties.jsonl')}
p = props[pid]
rnd = sys.argv[2] if len(sys.argv) > 2 else "1"
wt = f"/tmp/wb-{pid}" if rnd == "1" else f"/tmp/wb{rnd}-{pid}"
extra = "" if rnd == "1" else """

THIS ROUND: earlier rounds already covered simple local rewrites (if/else <-> switch, inverted conditions, extracted guard helpers, renamed variables, defer <-> explicit unlock). Go further this time - still strictly behaviour-preserving, but STRUCTURAL:
  - move a statement or a check across a function boundary: from a callee up into ALL of its callers, or from the callers down into the callee (only where that is truly equivalent on every path);
  - split one function into two (e.g. a locked wrapper and a *Locked worker, or a decode step and an apply step), or merge a small single-caller helper back into its caller;
  - change a helper's signature (add/remove/reorder parameters, return an extra value, take a struct instead of several values) and adapt every call site;
  - replace a loop form (range <-> index loop <-> early-exit search helper), use newer standard library helpers (min/max builtins, slices.Contains/Index/Delete, bytes.Clone, errors.Is) where exactly equivalent;
  - introduce a small local type or a named constant for a repeated literal; hoist repeated field reads into locals; replace a boolean flag variable by structured control flow or the reverse;
  - change the error-handling shape (wrap in a helper that returns early, named results with a single exit, sentinel errors) without changing which errors are returned when.
Produce TWO edits (A and B) this round instead of three, each 15-60 changed lines, each using a different one of these structural kinds."""
if rnd == "4":
    extra = """

THIS ROUND: earlier rounds covered local rewrites and structural refactorings. This round is about ADDITIVE and HOUSEKEEPING changes a maintainer makes over time, which leave the behaviour described by the property untouched but add or move code around it:
  - add observability: an extra log line (any level), a metrics counter / gauge / MeasureSince, a debug-only field; wrap returned errors with more context (fmt.Errorf("...: %w", err)) where callers only test err != nil;
  - add a new Config option that is OFF / zero by default and, when off, takes exactly the old path (the new branch may do something harmless like extra logging or an extra sanity check that returns the same result);
  - add a new exported read-only accessor or a String()/GoString() method, a new unexported helper used in one place, a new field on an internal struct that is written but only read by the new accessor / log line;
  - add a defensive check that can never fire on reachable states (nil check of something never nil, bounds check implied by an earlier one) with an early return or a log line;
  - modernise idioms where exactly equivalent: range-over-int loops, clear(), slices/maps helpers, strings.Cut, any for interface{}, atomic types' methods, time.Since/Until; replace magic numbers by named constants; replace an anonymous struct/closure by a named one;
  - move a function to another file of the package, reorder functions/methods within a file, rename an unexported helper or type consistently, group related var/const declarations, rewrite comments.
Produce TWO edits (A and B) this round instead of three, each 10-60 changed lines, using two different kinds from this list, and each touching the functions this property is anchored in (an additive change placed INSIDE or right next to the anchored code is what is wanted, not one in an unrelated corner)."""
print(f"""You are working on a scratch git worktree of the Go library hashicorp/memberlist (SWIM/Lifeguard gossip membership) at {wt}. Work ONLY inside {wt}. Never touch /repo or /verif, never read anything under /verif, and do not commit anything. Do NOT use `git stash` (the stash is shared between worktrees; other agents work in sibling worktrees).

Environment (the sandbox has NO network; run this at the start of every shell command because the environment does not persist):
  export GOFLAGS=-mod=mod GOPROXY=off GOSUMDB=off GOTOOLCHAIN=local PATH=/opt/veriftools/go1.26.8/bin:$PATH
The existing test suite is run with:  cd {wt} && unshare -rn sh -c 'ip link set lo up; go test -vet=off -count=1 -timeout 25m ./...'   (the unshare wrapper gives the run its own loopback network so that it cannot collide on ports with other jobs on this shared machine; use the same wrapper for every go test invocation; about 45-90 seconds; a few tests bind loopback ports and are timing sensitive and the machine is shared, so if a test unrelated to your change fails, re-run just that test with -run a few times to confirm it is flaky).

Here is a semantic property that the library satisfies (this JSON record is all you are given about it):

{json.dumps(p, indent=1)}

YOUR TASK: produce THREE different, independent source changes ("edit A", "edit B", "edit C"; see the end of this message if a different number is asked for in this round) to the library's NON-test source code in the functions this property is anchored in (the mechanisms it names, their helpers and their call sites), each of which is a realistic maintenance edit that PRESERVES the behaviour the property describes - the property must still hold, for every input, schedule and history, after your edit, and the observable behaviour of the library should be unchanged (or changed only in ways irrelevant to the property, e.g. a log message, an extra metric, an early-out that cannot change results, stopping a timer that is about to be deleted anyway). These edits will be used to test a static checker for false alarms, so make them the kind of thing a maintainer really does AND that changes the SHAPE of the code the property depends on:
  - rewrite an if/else chain as a switch or vice versa; invert a condition and swap the branches; turn an early return into a nested block or the reverse;
  - extract a few lines (a guard, a computation, a state update) into a new small helper function or method, or inline an existing small helper at its call sites;
  - rename local variables / introduce a local for a repeated expression / remove such a local; reorder INDEPENDENT statements;
  - replace a condition by an equivalent one (De Morgan, `!(a < b)` for `a >= b`, `len(x) == 0` for `len(x) < 1`, comparing in the other operand order);
  - replace `defer mu.Unlock()` by explicit unlocks on every path (or the reverse) where that is clearly equivalent;
  - add harmless extra work: a debug log line, a metrics counter, a defensive check that can never fire on valid state.
Each edit should touch the code that matters for THIS property (not an unrelated corner), should be 5-40 changed lines, and the three edits should use different kinds of rewrite and preferably touch different functions. Be careful: the edit must be a true equivalence for the property - think about every path (including error paths, nil cases, lock state at every exit, evaluation order of side effects) and say in the summary why it is equivalent.

Procedure for each edit:
 1. Read the relevant code in {wt} and design the edit.
 2. Apply it in {wt}; confirm `go build ./... && go vet ./...` is fine, `gofmt -l .` prints nothing, and the FULL existing test suite passes (command above).
 3. Save the artefacts in {wt}/_benign/A/ (then B, C), each containing:
      patch.diff  - `git diff` of the change (must apply with `git apply` to a pristine tree)
      meta.json   - {{"property": "{pid}", "summary": "<what was rewritten and why behaviour is unchanged>", "kind": "<which kind of rewrite>", "ran": ["<commands you ran and their outcome>"]}}
 4. Restore the tree to pristine (`git checkout -- .`) before starting the next edit. Leave the worktree pristine at the end (only the untracked _benign/ directory remains).

{extra}

Report at the end, for each edit: the diff, why it is behaviour-preserving, and confirmation that it compiles, is gofmt-clean and the existing suite passes with it.""")
