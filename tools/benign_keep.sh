#!/bin/bash
# benign_keep.sh <Cxx> : confirm the behaviour-preserving edits of /tmp/wb-Cxx/_benign/{A,B,C}
# (applies to the pristine worktree, builds, vet + gofmt clean, full existing suite passes) and keep
# the confirmed ones under /verif/corpus/benign/<Cxx>-<S>/
set -u
# WT_PREFIX (default /tmp/wb) names the worktrees, SUFFIX (default empty) is appended to the kept
# id (wave 3: WT_PREFIX=/tmp/wb3 SUFFIX=3), KEEP_DIR (default corpus/benign) is where they go
id="$1"; wt=${WT_PREFIX:-/tmp/wb}-$id; sfx=${SUFFIX:-}; keep=${KEEP_DIR:-/verif/corpus/benign}
only=${ONLY:-A B C}
. /verif/env.sh
cd "$wt" || exit 2
for s in $only; do
  d="_benign/$s"; [ -f "$d/patch.diff" ] || continue
  git checkout -q -- . ; git clean -fdq -e _benign
  if ! git apply --check "$d/patch.diff" 2>/dev/null; then echo "$id-$s PATCH-DOES-NOT-APPLY"; continue; fi
  git apply "$d/patch.diff"
  go build ./... && go vet ./ >/dev/null 2>&1; b=$?
  f=$(gofmt -l . 2>/dev/null | grep -v _benign | head -1)
  unshare -rn sh -c 'ip link set lo up; go test -vet=off -count=1 -timeout 25m ./...' > /tmp/bk$sfx-$id-$s.log 2>&1; r=$?
  if [ $r -ne 0 ]; then
    r=0
    for t in $(grep -E "^--- FAIL" /tmp/bk$sfx-$id-$s.log | awk '{print $3}' | cut -d/ -f1 | sort -u); do
      okt=1; for k in 1 2 3; do if unshare -rn sh -c "ip link set lo up; go test -vet=off -count=1 -run '^$t\$' ./..." > /tmp/bk$sfx-$id-$s.re 2>&1; then okt=0; break; fi; if go test -vet=off -count=1 -run "^$t\$" ./... > /tmp/bk$sfx-$id-$s.re 2>&1; then okt=0; break; fi; done
      echo "   re-run $t: $([ $okt -eq 0 ] && echo passes-on-retry || echo STILL-FAILS)"; [ $okt -ne 0 ] && r=1
    done
    grep -qE "^(--- FAIL)" /tmp/bk$sfx-$id-$s.log || r=1
  fi
  git checkout -q -- . ; git clean -fdq -e _benign
  if [ $b -eq 0 ] && [ -z "$f" ] && [ $r -eq 0 ]; then
    k=$keep/$id-$s$sfx; mkdir -p $k; cp $d/patch.diff $k/
    python3 - "$d/meta.json" "$k/meta.json" "$id" <<'PY'
import json,sys
try: m=json.load(open(sys.argv[1]))
except Exception as e: m={"summary":"(agent meta unreadable: %s)"%e}
m["property"]=sys.argv[3]
m["confirmed_by_me"]="tools/benign_keep.sh: applies to HEAD, go build + go vet + gofmt clean, full existing suite passes (timing-sensitive tests re-run individually)"
json.dump(m,open(sys.argv[2],"w"),indent=1)
PY
    echo "$id-$s CONFIRMED kept $k"
  else
    echo "$id-$s NOT-CONFIRMED build=$b gofmt='$f' suite=$r (log /tmp/bk$sfx-$id-$s.log)"
  fi
  rm -f /tmp/bk$sfx-$id-$s.re
done
