#!/usr/bin/env python3
"""corpus.py - run the checker against the variant corpus (never touches /repo).

The corpus is the checker's own two-way test:
  * breaking variants  - /verif/seeded/<id>/patch.diff (changes written by sub-agents that
    saw only the property text, confirmed to compile, pass the existing suite and break the
    property), /verif/corpus/regress/revert-<commit>/patch.diff (the reverse of each fix:
    commit, i.e. the defect as it was on the pinned tree) and /verif/corpus/mutants.json
    (one-construct replacements written while building each rule);
  * benign variants    - /verif/corpus/benign/<id>/patch.diff and mutants with
    "kind":"benign": behaviour-preserving edits of the anchored code on which every check
    must stay silent.
Every variant is analysed through go/packages' overlay: the touched files are copied from
/repo's *current* working tree into a scratch directory, patched there, and handed to
mlcheck with -overlay. A variant whose context no longer exists in the tree is "stale"
and skipped. Nothing is executed; this is the same static analysis on a different input.

  corpus.py calibrate [prefix..] run every variant (or those whose id starts with a prefix) against
                                 every property, print the table and (re)write corpus/expected.json
  corpus.py run <PROP> [--json]  run the variants expected.json lists for PROP
  corpus.py try <patch> [PROP..] analyse the current tree with an arbitrary patch applied (overlay)
  corpus.py selftest             run all of expected.json; exit 1 on any miss/false alarm
"""
import json, os, re, shutil, subprocess, sys, tempfile, glob
from concurrent.futures import ThreadPoolExecutor

VERIF = os.path.dirname(os.path.dirname(os.path.abspath(__file__)))
REPO = os.environ.get('VERIF_REPO', '/repo')
MLCHECK = os.path.join(VERIF, 'bin', 'mlcheck')
PROPS = ['C%02d' % i for i in range(1, 21)]


def load_entries():
    out = []
    for d in sorted(glob.glob(os.path.join(VERIF, 'seeded', '*'))):
        p = os.path.join(d, 'patch.diff')
        if os.path.exists(p):
            out.append({'id': 'seed:' + os.path.basename(d), 'kind': 'breaking', 'patch': p})
    for d in sorted(glob.glob(os.path.join(VERIF, 'corpus', 'regress', '*'))):
        p = os.path.join(d, 'patch.diff')
        if os.path.exists(p):
            out.append({'id': 'regress:' + os.path.basename(d), 'kind': 'breaking', 'patch': p})
    for d in sorted(glob.glob(os.path.join(VERIF, 'corpus', 'benign', '*'))):
        p = os.path.join(d, 'patch.diff')
        if os.path.exists(p):
            out.append({'id': 'benign:' + os.path.basename(d), 'kind': 'benign', 'patch': p})
    mj = os.path.join(VERIF, 'corpus', 'mutants.json')
    if os.path.exists(mj):
        for m in json.load(open(mj)):
            e = dict(m)
            e['id'] = 'mut:' + m['id']
            e.setdefault('kind', 'breaking')
            out.append(e)
    return out


def patched_files(patch):
    files = []
    for line in open(patch):
        m = re.match(r'^\+\+\+ b/(\S+)', line)
        if m:
            files.append(m.group(1))
    return files


def flexible(old):
    toks = re.split(r'(\s+)', old)
    return ''.join(r'\s+' if t.isspace() else re.escape(t) for t in toks if t != '')


def materialise(entry, scratch):
    """returns {relpath: scratchpath} or None when the variant is stale"""
    ov = {}
    if 'patch' in entry:
        files = patched_files(entry['patch'])
        if not files:
            return None
        for f in files:
            if f.endswith('_test.go'):
                continue
            dst = os.path.join(scratch, f)
            os.makedirs(os.path.dirname(dst), exist_ok=True)
            src = os.path.join(REPO, f)
            if os.path.exists(src):
                shutil.copy(src, dst)
            ov[f] = dst
        r = subprocess.run(['patch', '-p1', '-s', '-f', '-F3', '--no-backup-if-mismatch', '-d', scratch, '-i', entry['patch']],
                           capture_output=True, text=True)
        if r.returncode != 0:
            return None
        return {f: p for f, p in ov.items() if os.path.exists(p)}
    src = open(os.path.join(REPO, entry['file'])).read()
    old, new = entry['old'], entry['new']
    if old in src:
        mod = src.replace(old, new, 1)
    else:
        m = re.search(flexible(old), src)
        if not m:
            return None
        mod = src[:m.start()] + new + src[m.end():]
    dst = os.path.join(scratch, entry['file'])
    os.makedirs(os.path.dirname(dst), exist_ok=True)
    open(dst, 'w').write(mod)
    return {entry['file']: dst}


def run_one(entry, props):
    scratch = tempfile.mkdtemp(prefix='mlcorpus-')
    try:
        ov = materialise(entry, scratch)
        if ov is None:
            return {'id': entry['id'], 'status': 'stale', 'results': {}}
        vd = os.path.join(scratch, '_verif')
        os.makedirs(vd)
        kf = os.path.join(VERIF, 'known-findings.txt')
        if os.path.exists(kf):
            shutil.copy(kf, vd)
        args = []
        for f, p in sorted(ov.items()):
            args += ['-overlay', f + '=' + p]
        res = {}
        for prop in props:
            r = subprocess.run([MLCHECK, '-prop', prop, '-repo', REPO, '-verif', vd] + args, capture_output=True, text=True)
            keys = [l.strip()[len('construct: '):] for l in r.stdout.splitlines() if l.strip().startswith('construct: ')]
            err = [l for l in r.stderr.splitlines() if 'CHECKER-ERROR' in l]
            res[prop] = {'exit': r.returncode, 'keys': keys}
            if err:
                res[prop]['error'] = err[0][:200]
        return {'id': entry['id'], 'status': 'ran', 'results': res}
    finally:
        shutil.rmtree(scratch, ignore_errors=True)


def par(jobs):
    with ThreadPoolExecutor(max(2, min(14, (os.cpu_count() or 4) - 2))) as ex:
        return list(ex.map(lambda j: run_one(*j), jobs))


def expected_path():
    return os.path.join(VERIF, 'corpus', 'expected.json')


def calibrate(only=None):
    entries = load_entries()
    exp = {}
    if only:
        entries = [e for e in entries if any(e['id'].startswith(o) for o in only)]
        if os.path.exists(expected_path()):
            exp = json.load(open(expected_path()))
        for e in entries:
            exp.pop(e['id'], None)
    rs = par([(e, PROPS) for e in entries])
    for e, r in zip(entries, rs):
        det = {p: v['keys'] for p, v in r['results'].items() if v['exit'] == 1}
        errs = {p: v.get('error', '') for p, v in r['results'].items() if v['exit'] not in (0, 1)}
        print('%-22s %-8s %-6s %s %s' % (e['id'], e['kind'], r['status'], {p: k[:2] for p, k in det.items()}, errs or ''))
        if r['status'] != 'ran' or errs:
            continue
        exp[e['id']] = {'kind': e['kind'], 'detected_by': {p: sorted(set(k)) for p, k in det.items()}}
    json.dump(exp, open(expected_path(), 'w'), indent=1, sort_keys=True)
    print('wrote', expected_path(), len(exp), 'entries')


def run_prop(prop):
    """variants expected to be reported by `prop`, plus every benign variant"""
    exp = json.load(open(expected_path())) if os.path.exists(expected_path()) else {}
    entries = {e['id']: e for e in load_entries()}
    jobs, want = [], {}
    # benign variants relevant to this property: those written for it, the hand-written
    # ones, and (up to 12, in a fixed order) others that touch a file the property is anchored in
    anchors = set()
    for l in open(os.path.join(VERIF, 'properties.jsonl')):
        o = json.loads(l)
        if o['id'] == prop:
            anchors = set(o.get('anchors', {}).get('files', []))
    others = 0
    cands = []
    for vid, x in sorted(exp.items()):
        if vid not in entries:
            continue
        take = prop in x['detected_by'] and x['kind'] != 'benign'
        if x['kind'] == 'benign':
            name = vid.split(':', 1)[1]
            own = name.startswith(prop + '-') or not re.match(r'^C\d\d-', name)
            if own:
                take = True
            elif 'patch' in entries[vid] and anchors & set(patched_files(entries[vid]['patch'])) and others < 12:
                take = True
                others += 1
        if take:
            cands.append(vid)
            want[vid] = x
    # keep the run bounded: the property's own variants first, then the others
    def prio(vid):
        name = vid.split(':', 1)[1]
        own = name.startswith(prop + '-') or name.startswith(prop.replace('C', 'C', 1) + '-')
        kind = vid.split(':', 1)[0]
        return (0 if own else 1, {'regress': 0, 'seed': 1, 'mut': 2, 'benign': 3}.get(kind, 4), vid)
    cands.sort(key=prio)
    limit = int(os.environ.get('VERIF_CORPUS_MAX', '40'))
    for vid in cands[:limit]:
        jobs.append((entries[vid], [prop]))
    want = {vid: want[vid] for vid in cands[:limit]}
    rs = par(jobs)
    out = {'variants': len(jobs), 'breaking_detected': 0, 'benign_silent': 0, 'stale': [], 'missed': [], 'false_alarms': [],
           'unverdicted': [], 'samples': []}
    for r in rs:
        x = want[r['id']]
        if r['status'] != 'ran':
            out['stale'].append(r['id'])
            continue
        v = r['results'][prop]
        if v['exit'] not in (0, 1):
            out['unverdicted'].append({'id': r['id'], 'error': v.get('error', '')})
        elif x['kind'] == 'benign':
            if v['exit'] == 0:
                out['benign_silent'] += 1
            else:
                out['false_alarms'].append({'id': r['id'], 'keys': v['keys'][:4]})
        else:
            if v['exit'] == 1:
                out['breaking_detected'] += 1
                if len(out['samples']) < 6:
                    out['samples'].append({'variant': r['id'], 'reported': v['keys'][:3]})
            else:
                out['missed'].append(r['id'])
    return out


def main():
    if len(sys.argv) < 2:
        print(__doc__)
        return 2
    cmd = sys.argv[1]
    if cmd == 'calibrate':
        calibrate(sys.argv[2:] or None)
        return 0
    if cmd == 'run':
        out = run_prop(sys.argv[2])
        print(json.dumps(out, indent=1))
        return 0
    if cmd == 'try':
        # corpus.py try <patch.diff> [PROP...] : analyse the current tree with the patch applied (overlay)
        e = {'id': 'try:' + sys.argv[2], 'kind': '?', 'patch': os.path.abspath(sys.argv[2])}
        props = sys.argv[3:] or PROPS
        rs = par([(e, [q]) for q in props])
        for r, q in zip(rs, props):
            if r['status'] != 'ran':
                print(q, r['status'])
                continue
            v = r['results'][q]
            if v['exit'] != 0:
                print(q, 'exit=%d' % v['exit'], v.get('error', ''), v['keys'][:6])
        print('tried', len(props), 'properties')
        return 0
    if cmd == 'selftest':
        os.environ['VERIF_CORPUS_MAX'] = '100000'  # everything
        bad = 0
        for p in PROPS:
            o = run_prop(p)
            print('%s: %d variants, %d breaking detected, %d benign silent, stale=%s missed=%s false_alarms=%s unverdicted=%s' % (
                p, o['variants'], o['breaking_detected'], o['benign_silent'], o['stale'], o['missed'], o['false_alarms'], o['unverdicted']))
            bad += len(o['missed']) + len(o['false_alarms']) + len(o['unverdicted'])
        return 1 if bad else 0
    print(__doc__)
    return 2


if __name__ == '__main__':
    sys.exit(main())
