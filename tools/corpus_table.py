#!/usr/bin/env python3
"""corpus_table.py - regenerate the 'which checks catch which changes' table in DESIGN.md
from corpus/expected.json (between the corpus-table markers)."""
import json, os, re, collections
V = os.path.dirname(os.path.dirname(os.path.abspath(__file__)))
exp = json.load(open(os.path.join(V, 'corpus', 'expected.json')))

def short(s, n=150):
    s = ' '.join(s.split())
    return s if len(s) <= n else s[:n - 1].rsplit(' ', 1)[0] + ' …'

def keys(x, own=None):
    out = []
    for p in sorted(x['detected_by'], key=lambda p: (p != own, p)):
        ks = x['detected_by'][p]
        out.append('**%s**: ' % p + ', '.join('`%s`' % k for k in ks[:2]) + (' (+%d)' % (len(ks) - 2) if len(ks) > 2 else ''))
    return '<br>'.join(out) if out else '— (none)'

L = []
L.append('**Seeded changes (sub-agents) — reporting checks on the current tree**\n')
L.append('| seed | change (agent\'s summary, shortened) | reported by (first keys) |')
L.append('|---|---|---|')
for vid in sorted(exp):
    if not vid.startswith('seed:'):
        continue
    d = vid[5:]
    try:
        m = json.load(open(os.path.join(V, 'seeded', d, 'meta.json')))
    except Exception:
        m = {}
    L.append('| %s | %s | %s |' % (d, short(m.get('summary', '')).replace('|', '\\|'), keys(exp[vid], d[:3])))
L.append('')
L.append('**Reverted fixes (the pinned tree\'s defects)**\n')
L.append('| variant | reported by |')
L.append('|---|---|')
for vid in sorted(exp):
    if vid.startswith('regress:'):
        L.append('| %s | %s |' % (vid[8:], keys(exp[vid])))
L.append('')
cnt = collections.Counter(); det = collections.Counter(); ben = 0; bensil = 0
for vid, x in exp.items():
    if vid.startswith('mut:'):
        p = vid[4:7]
        if x['kind'] == 'benign':
            ben += 1; bensil += (not x['detected_by'])
            continue
        cnt[p] += 1; det[p] += bool(x['detected_by'].get(p) or x['detected_by'])
L.append('**Hand-written mutants** (breaking; reported / total per property): ' +
         ', '.join('%s %d/%d' % (p, det[p], cnt[p]) for p in sorted(cnt)) + '.\n')
b = [(vid, x) for vid, x in exp.items() if x['kind'] == 'benign']
L.append('**Benign variants** (must be silent): %d, silent on every check: %d%s\n' % (
    len(b), sum(1 for _, x in b if not x['detected_by']),
    ''.join('\n* NOT silent: %s → %s' % (vid, keys(x)) for vid, x in b if x['detected_by'])))
p = os.path.join(V, 'DESIGN.md')
s = open(p).read()
s = re.sub(r'(<!-- corpus-table:begin -->).*?(<!-- corpus-table:end -->)', lambda m: m.group(1) + '\n' + '\n'.join(L) + '\n' + m.group(2), s, flags=re.S)
open(p, 'w').write(s)
print('table rows:', len(L))
