#!/usr/bin/env python3
"""Regenerates /verif/MANIFEST.json from the table below (keep in sync with DESIGN.md section 4)."""
import json, subprocess, os
V = '/verif'
import sys; sys.path.insert(0, V + '/tools')
from claims import CLAIMS as claimed
not_builtnot_built = {}
reasons_na = {}
props = [json.loads(l) for l in open(f'{V}/properties.jsonl')]
checks, na = [], []
for p in props:
    i = p['id']
    if i in claimed:
        tech, text, note, ref = claimed[i]
        checks.append({
            "property_id": i,
            "quick_cmd": f"./check {i} --tier quick",
            "thorough_cmd": f"./check {i} --tier thorough",
            "evidence_file": f"/verif/evidence/{i}.json",
            "replay_cmd_template": f"./check {i} --explain \"$(jq -r .obligation.key {{path}})\"",
            "engine": "mlcheck",
            "level_claimed": {"category": "other", "text": text, "design_ref": ref},
            "level_note": note,
            "technique": "static analysis: " + tech,
        })
    else:
        na.append({"property_id": i, "reason": reasons_na.get(i, "static rules for this property are not built yet (see DESIGN.md §8); never shipped half-armed")})
baseline = open('/root/.vp/BASELINE.json').read()
m = {
 "version": 1,
 "setup_cmd": "./setup.sh",
 "hooks": {"guard": "verif", "enable": "none needed: the checks read /repo's source and never build or run it; no hook or instrumentation exists in /repo",
           "baseline_off_cmd": json.loads(baseline)["cmd"], "source_commits": [], "add_only": True},
 "engines": [{"name": "mlcheck", "path": "checker/", "serves_properties": sorted(claimed),
              "kind_free_text": "purpose-built static analyser (Go, go/packages + go/types + go/cfg): guarded-effect analysis (predicate abstraction over CFGs), package reference graph with effect summaries, lockset, linear-fact bounds prover"}],
 "checks": checks,
 "not_applicable": na,
 "notes": "All claims are level 'other': sound static checks of named structural clauses (necessary conditions of the behavioural property), exhaustive over a stated finite abstraction; see DESIGN.md per property for what is and is not decided. exit 2 = checker error (no verdict).",
}
json.dump(m, open(f'{V}/MANIFEST.json', 'w'), indent=1)
print("claimed", sorted(claimed), "n/a", [x['property_id'] for x in na])
