#!/usr/bin/env python3
"""Regenerates /verif/MANIFEST.json from the table below (keep in sync with DESIGN.md section 4)."""
import json, subprocess, os
V = '/verif'
claimed = {
 # id: (technique, level text, level note, design ref)
 'C01': ("predicate-abstraction dataflow over go/cfg (finite transition relation of the claim handlers vs SWIM table) + writer-set and lock-held checks over the typed AST",
         "Sound static check of named structural clauses, exhaustive over a finite abstraction: the three claim handlers' complete abstract transition relation (record found x prior state x incarnation order x self x leaving x address/reclaim/allow-list atoms) is extracted from their control-flow graphs and must lie inside the SWIM precedence table (may-rows), accept paths must be complete (must-rows), the set of functions that can write a record/table is closed, every effect happens under the node write lock, and the push/pull merge maps remote states to the right handler with the right accuser. Not a proof of the behavioural statement over histories: induction over deliveries is argued in DESIGN.md, not machine-checked.",
         "Trusted: go/types + go/cfg; the canonicaliser (unrecognised conditions become unconstrained atoms, which can only add reports); time.Since/StateChange measure age; delegate and msgpack behaviour; suspicion-timer invariant discharged under C06.",
         "DESIGN.md §3 C01"),
}
not_built = {}
reasons_na = {
 'C05': "liveness of a randomised distributed protocol over fault histories: no clause beyond C01/C02 (claimed separately) is visible in the shape of the code; static analysis cannot bound schedules or elapsed time",
}
props = [json.loads(l) for l in open(f'{V}/properties.jsonl')]
checks, na = [], []
for p in props:
    i = p['id']
    if i in claimed:
        tech, text, note, ref = claimed[i]
        checks.append({
            "property_id": i,
            "quick_cmd": f"./check {i} --tier quick",
            "thorough_cmd": f"./check {i} --tier thorough",
            "evidence_file": f"/verif/evidence/{i}.json",
            "replay_cmd_template": f"./check {i} --explain \"$(jq -r .obligation.key {{path}})\"",
            "engine": "mlcheck",
            "level_claimed": {"category": "other", "text": text, "design_ref": ref},
            "level_note": note,
            "technique": "static analysis: " + tech,
        })
    else:
        na.append({"property_id": i, "reason": reasons_na.get(i, "static rules for this property are not built yet (see DESIGN.md §8); never shipped half-armed")})
baseline = open('/root/.vp/BASELINE.json').read()
m = {
 "version": 1,
 "setup_cmd": "./setup.sh",
 "hooks": {"guard": "verif", "enable": "none needed: the checks read /repo's source and never build or run it; no hook or instrumentation exists in /repo",
           "baseline_off_cmd": json.loads(baseline)["cmd"], "source_commits": [], "add_only": True},
 "engines": [{"name": "mlcheck", "path": "checker/", "serves_properties": sorted(claimed),
              "kind_free_text": "purpose-built static analyser (Go, go/packages + go/types + go/cfg): guarded-effect analysis (predicate abstraction over CFGs), package reference graph with effect summaries, lockset, linear-fact bounds prover"}],
 "checks": checks,
 "not_applicable": na,
 "notes": "All claims are level 'other': sound static checks of named structural clauses (necessary conditions of the behavioural property), exhaustive over a stated finite abstraction; see DESIGN.md per property for what is and is not decided. exit 2 = checker error (no verdict).",
}
json.dump(m, open(f'{V}/MANIFEST.json', 'w'), indent=1)
print("claimed", sorted(claimed), "n/a", [x['property_id'] for x in na])
