#!/usr/bin/env python3
"""mut.py PROP FILE OLD NEW [PROP2...]: analyse /repo with FILE's first occurrence of OLD
replaced by NEW (in-memory overlay; /repo is not touched). Prints the verdict."""
import subprocess, sys, tempfile, os
props, file, old, new = sys.argv[1].split(','), sys.argv[2], sys.argv[3], sys.argv[4]
src = open(os.path.join('/repo', file)).read()
if src.count(old) < 1:
    print("OLD not found"); sys.exit(3)
mod = src.replace(old, new, 1)
d = tempfile.mkdtemp(prefix='mlmut-')
path = os.path.join(d, os.path.basename(file))
open(path, 'w').write(mod)
vd = tempfile.mkdtemp(prefix='mlmutv-')
if os.path.exists('/verif/known-findings.txt'):
    import shutil; shutil.copy('/verif/known-findings.txt', vd)
for prop in props:
    r = subprocess.run(['/verif/bin/mlcheck', '-prop', prop, '-verif', vd, '-overlay', f'{file}={path}'], capture_output=True, text=True, env=dict(os.environ))
    lines = [l for l in (r.stdout + r.stderr).splitlines() if l.strip().startswith(('construct:', 'CHECKER-ERROR', prop+' '))]
    print(f"[{prop}] exit={r.returncode}")
    for l in lines[:12]: print("   ", l.strip()[:220])
import shutil; shutil.rmtree(d); shutil.rmtree(vd)
