#!/bin/bash
# seed_check.sh <patch.diff> <prop,prop,...> : apply the seeded change to /repo, run the checks, undo
set -u
patch="$1"; props="$2"
cd /repo && git status --short | grep -v '^??' | grep . && { echo "/repo not clean"; exit 2; }
git -C /repo apply "$patch" || exit 2
vd=$(mktemp -d /tmp/seedv-XXXX); cp /verif/known-findings.txt $vd/
for p in ${props//,/ }; do
  out=$(/verif/bin/mlcheck -prop $p -verif $vd 2>&1); e=$?
  echo "[$p] exit=$e"; echo "$out" | grep -E "^\s+construct:|CHECKER-ERROR" | cut -c1-200 | head -8
done
git -C /repo checkout -- .
rm -rf $vd
