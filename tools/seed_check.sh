#!/bin/bash
# seed_check.sh <patch.diff> <prop,prop,...> [worktree]
# Applies the seeded change to /repo (git -C /repo apply), runs the checks, undoes it.
# If the patch no longer applies to /repo's HEAD (because of a later fix: commit), the
# change is judged differentially in its own scratch worktree instead: violations with
# the patch minus violations without it.
set -u
patch="$1"; props="$2"; wt="${3:-}"
vd=$(mktemp -d /tmp/seedv-XXXX); cp /verif/known-findings.txt $vd/
run() { # repo dir
  for p in ${props//,/ }; do
    out=$(/verif/bin/mlcheck -prop $p -repo "$1" -verif $vd 2>&1); e=$?
    echo "[$p] exit=$e"; echo "$out" | grep -E "^\s+construct:|CHECKER-ERROR" | cut -c1-200 | sort
  done
}
if git -C /repo diff --quiet && git -C /repo apply --check "$patch" 2>/dev/null; then
  git -C /repo apply "$patch"
  run /repo | head -40
  git -C /repo checkout -- .
else
  [ -n "$wt" ] || wt=$(dirname $(dirname $(dirname "$patch")))
  echo "(patch does not apply to /repo HEAD; differential run in $wt)"
  git -C "$wt" checkout -q -- . ; run "$wt" > $vd/base.txt
  git -C "$wt" apply "$patch" && run "$wt" > $vd/with.txt; git -C "$wt" checkout -q -- .
  diff $vd/base.txt $vd/with.txt | grep '^>' | head -30
fi
rm -rf $vd
