#!/bin/bash
# seed_confirm.sh <worktree> <A|B> : confirm the four facts of a seeded change in its scratch worktree
# (compiles; existing suite passes with it; demo fails with it; demo passes without it)
set -u
wt="$1"; s="$2"
. /verif/env.sh
cd "$wt" || exit 2
git checkout -q -- . ; rm -f seed_demo_test.go
d="_seeds/$s"
[ -f "$d/patch.diff" ] || { echo "no patch"; exit 2; }
git apply --check "$d/patch.diff" || { echo "PATCH-DOES-NOT-APPLY"; exit 1; }
cp "$d/demo_test.go" seed_demo_test.go
echo "== demo on pristine tree (must pass)"
go test -vet=off -count=1 -run 'TestSeedDemo' ./ > /tmp/$$.pristine 2>&1; p=$?
tail -3 /tmp/$$.pristine
git apply "$d/patch.diff"
echo "== build with patch"
go build ./... && go vet ./ >/dev/null 2>&1; b=$?
echo "== demo with patch (must fail)"
go test -vet=off -count=1 -run 'TestSeedDemo' ./ > /tmp/$$.patched 2>&1; q=$?
grep -E "^(--- FAIL|FAIL|ok|panic)" /tmp/$$.patched | head -5
rm -f seed_demo_test.go
echo "== full suite with patch (must pass)"
unshare -rn sh -c 'ip link set lo up; go test -vet=off -count=1 -timeout 25m ./...' > /tmp/$$.suite 2>&1; r=$?
grep -E "^(--- FAIL|FAIL|ok)" /tmp/$$.suite | head -8
if [ $r -ne 0 ]; then
  # timing-sensitive tests fail under load: re-run each failing top-level test up to 3 times
  r=0
  for t in $(grep -E "^--- FAIL" /tmp/$$.suite | awk '{print $3}' | cut -d/ -f1 | sort -u); do
    okt=1
    for k in 1 2 3; do
      if unshare -rn sh -c "ip link set lo up; go test -vet=off -count=1 -run '^$t\$' ./..." > /tmp/$$.re 2>&1; then okt=0; break; fi
      # some tests need what the private namespace lacks (IPv6 loopback): try in the host namespace too
      if go test -vet=off -count=1 -run "^$t\$" ./... > /tmp/$$.re 2>&1; then okt=0; break; fi
    done
    if [ $okt -ne 0 ]; then
      # still failing: a load-sensitive test fails on the pristine tree as well under the same load
      git apply -R "$d/patch.diff"
      pf=0
      for k in 1 2 3; do
        unshare -rn sh -c "ip link set lo up; go test -vet=off -count=1 -run '^$t\$' ./..." > /tmp/$$.re 2>&1 || pf=$((pf+1))
      done
      git apply "$d/patch.diff"
      if [ $pf -gt 0 ]; then okt=0; echo "   re-run $t: fails with the patch, and $pf of 3 runs on the pristine tree fail too under the same load (load-sensitive, not caused by the patch)"; fi
    fi
    [ $okt -eq 0 ] && echo "   re-run $t: ok" || echo "   re-run $t: STILL-FAILS (pristine passes 3/3)"
    [ $okt -ne 0 ] && r=1
  done
  grep -qE "^(--- FAIL)" /tmp/$$.suite || r=1
fi
git checkout -q -- .
rm -f /tmp/$$.*
echo "RESULT pristine_demo_exit=$p build_exit=$b patched_demo_exit=$q suite_exit=$r"
[ $p -eq 0 ] && [ $b -eq 0 ] && [ $q -ne 0 ] && [ $r -eq 0 ] && echo CONFIRMED || echo NOT-CONFIRMED
