#!/bin/bash
# seed_keep.sh <Cxx> : confirm both seeds of /tmp/wt-Cxx and keep the confirmed ones under /verif/seeded/
id="$1"; wt=${WT_PREFIX:-/tmp/wt}-$id
for s in A B; do
  [ -d $wt/_seeds/$s ] || continue
  out=$(/verif/tools/seed_confirm.sh $wt $s 2>&1)
  echo "$out" | tail -4
  if echo "$out" | grep -q '^CONFIRMED'; then
    d=/verif/seeded/$id-$s${ROUND_TAG:-}; mkdir -p $d
    cp $wt/_seeds/$s/patch.diff $wt/_seeds/$s/demo_test.go $d/
    python3 - "$wt/_seeds/$s/meta.json" "$d/meta.json" "$id" <<'PY'
import json,sys
try: m=json.load(open(sys.argv[1]))
except Exception as e: m={"summary":"(agent meta unreadable: %s)"%e}
m["property"]=sys.argv[3]
m["confirmed_by_me"]={"how":"tools/seed_confirm.sh in the scratch worktree: demo passes on pristine tree; with patch: go build+vet ok, demo fails, full existing suite passes","result":"CONFIRMED"}
json.dump(m,open(sys.argv[2],"w"),indent=1)
PY
    echo "kept $d"
  else
    echo "$out" > /tmp/seed-$id-$s.unconfirmed.log; echo "NOT kept $id-$s (log /tmp/seed-$id-$s.unconfirmed.log)"
  fi
done
