#!/bin/bash
# thorough tier of ./check: the quick analysis of /repo's current tree (recorded with
# tier=thorough), followed by the corpus run for this property: every breaking variant
# the property's rules are on record as reporting (seeded changes under seeded/, mutants
# under corpus/mutants.json) and every benign variant (corpus/benign/, benign mutants) is
# re-analysed as an overlay on the *current* tree. The exit status speaks about /repo
# only; corpus misses and false alarms are written to the evidence file and printed as
# CORPUS-MISS / CORPUS-FALSE-ALARM lines (they say the checker regressed, not the repo).
set -u
cd "$(dirname "$0")/.."
prop="$1"; shift
bin/mlcheck -prop "$prop" -tier thorough -repo "${VERIF_REPO:-/repo}" -verif "$(pwd)" "$@"
rc=$?
[ $rc -eq 0 ] || exit $rc
[ -f corpus/expected.json ] || exit 0
tmp=$(mktemp "${TMPDIR:-/tmp}/mlthor-XXXXXX")
python3 tools/corpus.py run "$prop" > "$tmp" 2>/dev/null
python3 - "$prop" "$tmp" <<'PY'
import json, sys
prop, tmp = sys.argv[1], sys.argv[2]
try:
    c = json.load(open(tmp))
except Exception as e:
    print("NOTE: corpus run produced no result (%s)" % e); sys.exit(0)
p = "evidence/%s.json" % prop
ev = json.load(open(p))
cov = ev["coverage"]
cov["corpus"] = {k: c[k] for k in ("variants", "breaking_detected", "benign_silent", "stale", "missed", "false_alarms", "unverdicted")}
cov["corpus_rule"] = ("each variant = /repo's current files with one recorded change applied in a scratch overlay; "
                      "breaking variants must be reported by this property's rules, benign variants must leave them silent")
cov["evaluations"] = cov.get("evaluations", 0) + c["variants"]
cov["samples"] = (cov.get("samples") or []) + [{"corpus_variant": s["variant"], "reported": s["reported"]} for s in c["samples"]]
json.dump(ev, open(p, "w"), indent=1)
print("%s thorough corpus: %d variants on the current tree: %d breaking reported, %d benign silent, %d stale, %d missed, %d false alarms" % (
    prop, c["variants"], c["breaking_detected"], c["benign_silent"], len(c["stale"]), len(c["missed"]), len(c["false_alarms"])))
for m in c["missed"]: print("CORPUS-MISS %s %s" % (prop, m))
for m in c["false_alarms"]: print("CORPUS-FALSE-ALARM %s %s %s" % (prop, m["id"], m["keys"]))
PY
rm -f "$tmp"
exit 0
